"""Value-level abstract interpreter used by the C16 rules.

A function is executed on *terms* (hashable tuples).  Every path through the function (and through the same-module helpers it calls, which
are followed) is enumerated by re-execution; an undecided test is a fork unless the rule's oracle decides it.  What a path leaves behind is
a list of *events* (subscript stores, attribute assignments, calls that were not followed) in evaluation order, the facts assumed on the
path, the return value, and a heap of the objects allocated on the path.  Rules inspect values and effects, never spelling.

Terms
  ('c', v)                    constant                 ('s', name)            parameter / input symbol
  ('g', dotted)               unbound global           ('fn', id)             function value (followed when called)
  ('op', name, a, ...)        operator application (commutative ones sorted; lt/le are written as gt/ge)
  ('call', name, args, kws)   call that was not followed ('.meth' for methods, receiver first)
  ('attr', base, name)        ('idx', base, index)     ('ld', base, index, content)   load forwarded from a store on the same path
  ('tup', ...) ('lst', ...)   ('slice', a, b, c)       ('elem', iterable)     ('ref', oid)  object allocated on the path
  ('post', t, n)              opaque object t after the n-th call that may have mutated it
  ('partial', f, args, kws)   functools.partial value (applied by value)          ('star', t)  *t that could not be spread

Functions are values: module functions, nested functions (defaults evaluated at the `def`), lambdas, functools.partial objects, and library
functions / operators reached through any binding (`operator.gt`, `np.fmax` under an alias, `from operator import gt`, a function stored in a
literal tuple / dict / class attribute) are applied where they are called.  Literal tables are data: `for` loops and comprehensions over tuple /
list / dict / string literals and over enumerate / zip / range / map / reversed of them are unrolled; getattr / setattr / vars()[...] with a
name that folds to a literal (including `"m" + side`, "%s_x" % name, f-strings and str.format of literals) are attribute accesses.  Index
spellings are one value: np.s_[a:b] / slice(a, b) / a:b, np.newaxis / None, X[:, c][i] / X[i, c] (loads and stores through a column view),
x[:n][k] / x[k], np.nonzero(m) / m.nonzero() / np.where(m), np.flatnonzero(m) / m.nonzero()[0]; reductions over a literal pair
(np.fmax.reduce([a, b]), functools.reduce(f, (a, b)), np.sum([a, b], axis=0), sum((a, b))) are the binary application.

Loops over data are evaluated once on a generic element `('elem', x)` whatever their form: `for e in x`, over `x.tolist()` / `list(x)` / `iter(x)`,
`for k in range(len(x)): e = x[k]`, `for k, e in enumerate(x)`, `k = 0; while k < x.size: ...; k += 1`, `for e, f in zip(x, [g(u) for u in x])`
(lockstep: f is g(e)); `int(e)` of an index is the index.  `match` statements with literal / singleton / alternative / wildcard patterns are the
if / elif chain of their tests.  With `loadevents=True` every subscript load is recorded as an event so that a rule can tell which stores into
an object a load has seen.

Effects through views (pass 4).  A value obtained by basic indexing is a view: `.fill(v)`, `out=` (keyword, `out=(x,)` or third positional
argument) of any numpy call, np.copyto / np.putmask (also `where=`), `__setitem__`, and an in-place operator on a name or member bound to a view
or to an array the path created (`rows = x[:n]; rows *= f`, `obj.d += y`) are store events on what the view was taken from (advanced indexing
yields a temporary: the store goes there).  `written_args` / `unfollowed_writes` tell a rule which calls that were *not* followed may have
written into a value, so that the absence of a store is never read as "unchanged".  Also followed: generator functions whose yields do not sit
in a data loop (the table of what they yield), namedtuple / NamedTuple / dataclass records, `try: d[key] ... except KeyError` as the test
`key in d`, a certain KeyError on a dict the path created (event 'keyerror', the path raises), `x in (c1, c2, ...)` as a chain of equality
tests, zip of a literal table with an opaque sequence, `a.dot(b)` / np.dot as the matrix product, len / get on dicts with known content.
"""
from __future__ import annotations

import ast

from .core import Unsupported
from .e1_srcmodel import dotted

NONE = ("c", None)
COMM = {"add", "mul", "and_", "or_", "eq", "ne", "is", "isnot"}
BINOPS = {ast.Add: "add", ast.Sub: "sub", ast.Mult: "mul", ast.Div: "div", ast.MatMult: "matmul", ast.Pow: "pow", ast.FloorDiv: "floordiv",
          ast.Mod: "mod", ast.BitAnd: "and_", ast.BitOr: "or_", ast.BitXor: "xor", ast.LShift: "lshift", ast.RShift: "rshift"}
CMPOPS = {ast.Eq: "eq", ast.NotEq: "ne", ast.Lt: "lt", ast.LtE: "le", ast.Gt: "gt", ast.GtE: "ge", ast.Is: "is", ast.IsNot: "isnot",
          ast.In: "in", ast.NotIn: "notin"}
# ufunc / function spellings of operators
UFUNC2 = {"np.logical_or": "or_", "np.logical_and": "and_", "np.bitwise_or": "or_", "np.bitwise_and": "and_", "np.add": "add",
          "np.subtract": "sub", "np.multiply": "mul", "np.divide": "div", "np.true_divide": "div", "np.matmul": "matmul", "np.dot": "matmul",
          "np.greater": "gt", "np.less": "lt", "np.greater_equal": "ge", "np.less_equal": "le", "np.equal": "eq", "np.not_equal": "ne",
          "np.bitwise_xor": "xor", "np.logical_xor": "xor", "np.floor_divide": "floordiv", "np.power": "pow",
          "operator.add": "add", "operator.mul": "mul", "operator.sub": "sub", "operator.truediv": "div", "operator.matmul": "matmul",
          "operator.floordiv": "floordiv", "operator.mod": "mod", "operator.pow": "pow", "operator.and_": "and_", "operator.or_": "or_",
          "operator.xor": "xor", "operator.gt": "gt", "operator.lt": "lt", "operator.ge": "ge", "operator.le": "le", "operator.eq": "eq",
          "operator.ne": "ne", "operator.is_": "is", "operator.is_not": "isnot"}
UFUNC1 = {"np.logical_not": "inv", "np.invert": "inv", "np.bitwise_not": "inv", "np.negative": "neg", "abs": "abs", "np.abs": "abs",
          "np.absolute": "abs", "np.fabs": "abs", "operator.neg": "neg", "operator.abs": "abs", "operator.inv": "inv", "operator.invert": "inv",
          "operator.not_": "not"}
# module spellings: `import numpy as xp`, `from operator import gt` resolve to the dotted names the rules use
CANON_MODULES = {"numpy": "np", "scipy.linalg": "la", "operator": "operator", "copy": "copy", "functools": "functools", "contextlib": "contextlib",
                 "types": "types", "math": "math", "itertools": "itertools", "builtins": "", "collections": "collections", "typing": "typing",
                 "dataclasses": "dataclasses"}
ALLOC = {"np.empty", "np.zeros", "np.ones", "np.full", "np.empty_like", "np.zeros_like", "np.ones_like", "np.full_like"}
COPIERS = {"copy.copy", "copy.deepcopy", "np.array", "np.copy", "list", "np.ascontiguousarray_copy"}
# positional parameter names of library functions (so that keyword and positional spellings are one value)
SIGS = {"np.nanargmax": ["a", "axis"], "np.nanargmin": ["a", "axis"], "np.nanmax": ["a", "axis"], "np.nanmin": ["a", "axis"],
        "np.argmax": ["a", "axis"], "np.argmin": ["a", "axis"], "np.max": ["a", "axis"], "np.min": ["a", "axis"],
        "np.amax": ["a", "axis"], "np.amin": ["a", "axis"],
        ".argmax": ["self", "axis"], ".argmin": ["self", "axis"], ".max": ["self", "axis"], ".min": ["self", "axis"],
        "np.full": ["shape", "fill_value", "dtype"], "np.empty": ["shape", "dtype"], "np.zeros": ["shape", "dtype"],
        "la.lu_factor": ["a", "overwrite_a", "check_finite"], "la.lu_solve": ["lu_and_piv", "b", "trans", "overwrite_b", "check_finite"],
        "np.fmax": ["x1", "x2"], "np.maximum": ["x1", "x2"], "np.column_stack": ["tup"], "np.transpose": ["a", "axes"],
        "np.nonzero": ["a"], "np.shape": ["a"], "np.arange": ["start"], "np.isnan": ["x"]}
# keyword arguments that are the default value (dropped so that `f(x)` and `f(x, kw=default)` are one value)
DEFAULT_KW = {("la.lu_factor", "overwrite_a"): False, ("la.lu_solve", "overwrite_b"): False, ("la.lu_solve", "trans"): 0}
VIEW_CALLS = {"np.asarray", "np.atleast_1d", "np.atleast_2d", "np.ravel", ".ravel", ".reshape", ".squeeze", ".view", "np.squeeze",
              "np.asanyarray", "np.transpose", ".transpose", "index2slice", "np.ascontiguousarray", "np.asfortranarray"}
ALWAYS_VIEW = {"np.asarray", "np.asanyarray", "np.transpose", ".transpose", ".squeeze", "np.squeeze", ".view", "np.atleast_1d", "np.atleast_2d"}
MAXPATHS = 6000
_BUILTIN_NAMES = frozenset(n for n in dir(__import__("builtins")) if not n.startswith("_") and n not in ("None", "NotImplemented", "Ellipsis"))


def op(name, *args):
    if name == "lt":
        name, args = "gt", (args[1], args[0])
    elif name == "le":
        name, args = "ge", (args[1], args[0])
    if name in COMM:
        args = tuple(sorted(args, key=repr))
    return ("op", name) + tuple(args)


def is_const(t):
    return isinstance(t, tuple) and t and t[0] == "c"


class Obj:
    def __init__(self, kind, origin, oid):
        self.kind = kind            # 'arr' | 'list' | 'dict' | 'ns'
        self.origin = origin
        self.oid = oid
        self.fields = {}
        self.items = {}
        self.content = {}
        self.proto = None           # ns: fields not assigned here are read from this term
        self.closed = True          # dict: no entries other than the recorded ones
        self.none_like = None       # the object is None exactly when this term is None (copy.copy(x))


class Event:
    __slots__ = ("kind", "target", "index", "value", "seq", "node", "loop", "aug", "name", "args", "kws", "nfacts")

    def __init__(self, kind, **kw):
        self.kind = kind
        for k in self.__slots__[1:]:
            setattr(self, k, kw.get(k))


class _Return(Exception):
    def __init__(self, value):
        self.value = value


class _Raise(Exception):
    pass


class _KeyError(_Raise):
    """a lookup that certainly fails: a literal key that a dict created on the path does not hold"""


class _LoopCtl(Exception):
    pass


class _Break(_LoopCtl):
    pass


class _Rel:
    def __init__(self, rel):
        self.rel = rel


class Frame:
    def __init__(self, parent=None, cls=None, rel=None):
        self.locals = {}
        self.parent = parent
        self.cls = cls
        self.rel = rel


class Path:
    """one executed path"""

    def __init__(self, interp, script):
        self.I = interp
        self.script = list(script)
        self.decisions = []
        self.facts = {}
        self.fact_order = []
        self.events = []
        self.heap = {}
        self.shadow = {}        # opaque term -> {'fields': {}, 'items': {}}
        self.epoch = {}
        self.seq = 0
        self.noid = 0
        self.status = None
        self.ret = None
        self.fnreg = {}
        self.loops = []
        self.depth = 0
        self.trycount = {}
        self.yields = []        # collectors of the generator functions being evaluated
        self.nonnull = set()    # opaque values a member of which was read on this path
        self.fndefaults = {}    # nested function -> values of its defaults (evaluated at the `def`)

    # ------------------------------------------------------------------ helpers for rules
    def obj(self, t):
        return self.heap.get(t[1]) if isinstance(t, tuple) and t and t[0] == "ref" else None

    def norm(self, t, _d=0):
        """term with heap references replaced by what they were created from (comparable between paths)"""
        if not isinstance(t, tuple) or not t:
            return t
        if _d > 40:
            return ("deep",)
        if t[0] == "ref":
            o = self.heap[t[1]]
            return ("new", o.kind, self.norm(o.origin, _d + 1))
        if t[0] in ("c", "s", "g", "fn", "rectype"):
            return t[:2] if t[0] == "rectype" else t
        if t[0] == "call":
            return ("call", t[1], tuple(self.norm(a, _d + 1) for a in t[2]), tuple((k, self.norm(v, _d + 1)) for k, v in t[3]))
        return (t[0],) + tuple(self.norm(a, _d + 1) if isinstance(a, tuple) else a for a in t[1:])

    def fact(self, key):
        return self.facts.get(key)

    def field(self, base, name):
        return self._getattr(base, name)

    def stores(self, pred=None):
        return [e for e in self.events if e.kind == "store" and (pred is None or pred(e))]

    def setattrs(self, base=None, name=None):
        return [e for e in self.events if e.kind == "setattr" and (base is None or e.target == base) and (name is None or e.name == name)]

    def calls(self, *names):
        return [e for e in self.events if e.kind == "call" and (not names or e.name in names)]

    # ------------------------------------------------------------------ state
    def _alloc(self, kind, origin):
        self.noid += 1
        o = Obj(kind, origin, self.noid)
        o.seq = self.seq            # when it was created (what it copies is read then)
        self.heap[self.noid] = o
        return ("ref", self.noid)

    def _st(self, base, create=False):
        o = self.obj(base)
        if o is not None:
            return o
        s = self.shadow.get(base)
        if s is None and create:
            s = self.shadow[base] = Obj("opaque", base, 0)
            s.closed = False
        return s

    def _ev(self, kind, **kw):
        self.seq += 1
        e = Event(kind, seq=self.seq, loop=tuple(self.loops), nfacts=len(self.fact_order), **kw)
        self.events.append(e)
        return e

    def _cur(self, t):
        n = self.epoch.get(t)
        return ("post", t, n) if n else t

    def _getattr(self, base, name):
        if base[0] in ("s", "attr", "idx", "ld", "call", "elem"):
            self.nonnull.add(base)          # reading a member succeeded: the value is not None on the rest of this path
        o = self._st(base)
        if o is not None:
            if name in o.fields:
                return o.fields[name]
            if o.kind == "ns" and o.proto is not None:
                return self._getattr(o.proto, name)
            if o.kind == "arr" and o.none_like is not None and name not in ("T", "shape", "ndim", "size", "dtype", "base", "real", "imag", "flat"):
                return self._getattr(o.none_like, name)        # copy.copy(obj) is shallow: its members are the source's
        if base[0] == "g":
            d = base[1] + "." + name
            if d == "np.newaxis":
                return NONE
            return ("g", CANON_MODULES.get(d) or d)
        if base == ("s", "self") and self.I.cls and self.I.method(name) is not None:
            return self._fnval(self.I.method(name), None, base)
        if (base == ("s", "self") or base == ("g", self.I.cls)) and self.I.cls and self.I.classconst(name) is not None:
            return self.eval(self.I.classconst(name), Frame(rel=self.I.rel))       # literal table kept as a class attribute
        r = ("attr", self._cur(base), name)
        return self.I.pin(self, r)

    def _fnval(self, fdef, frame, bound=None):
        k = (id(fdef), id(frame), bound)
        self.fnreg[k] = (fdef, frame, bound)
        return ("fn", k)

    # ------------------------------------------------------------------ deciding
    def truth(self, t):
        r = self._truth(t)
        return r

    def _key(self, t):
        """(key, polarity) canonical form of a test term"""
        if t[0] == "op":
            n = t[1]
            if n == "not":
                k, p = self._key(t[2])
                return k, not p
            if n == "isnot":
                return op("is", t[2], t[3]), False
            if n == "ne" and not (("c", 0) in t[2:] and self._nonneg(t[3] if t[2] == ("c", 0) else t[2])):
                return op("eq", t[2], t[3]), False
            if n == "notin":
                return ("op", "in", t[2], t[3]), False
            if n == "gt" and t[3] == ("c", 0) and self._nonneg(t[2]):
                return ("truth", t[2]), True
            if n == "ge" and t[3] == ("c", 1) and self._nonneg(t[2]):        # x >= 1  <=> x   (a count)
                return ("truth", t[2]), True
            if n == "gt" and t[2] == ("c", 1) and self._nonneg(t[3]):        # 1 > x   <=> not x
                return ("truth", t[3]), False
            if n == "eq" and ("c", 0) in t[2:] and self._nonneg(t[3] if t[2] == ("c", 0) else t[2]):
                return ("truth", t[3] if t[2] == ("c", 0) else t[2]), False
            if n == "ge" and t[2] == ("c", 0) and self._nonneg(t[3]):        # 0 >= x  <=> not x
                return ("truth", t[3]), False
            if n == "ne" and ("c", 0) in t[2:] and self._nonneg(t[3] if t[2] == ("c", 0) else t[2]):
                return ("truth", t[3] if t[2] == ("c", 0) else t[2]), True
            if n in ("eq", "is", "in", "gt", "ge"):
                return t, True
        if t[0] == "call" and t[1] == "bool" and len(t[2]) == 1:
            return self._key(t[2][0])
        return ("truth", t), True

    def _nonneg(self, t):
        return _nonneg(t) or (t[0] == "s" and self.I.kinds.get(t[1]) == "count")

    def _fold(self, key):
        """decide a canonical key without assumptions, or None"""
        if key[0] == "truth":
            x = key[1]
            if is_const(x):
                return bool(x[1])
            if x[0] in ("tup", "lst"):
                return len(x) > 1
            o = self.obj(x)
            if o is not None and o.kind == "dict" and o.closed:
                return bool(o.items)
            return None
        n, a, b = key[1], key[2], key[3]
        if n in ("eq", "gt", "ge") and is_const(a) and is_const(b):
            try:
                return {"eq": a[1] == b[1], "gt": a[1] > b[1], "ge": a[1] >= b[1]}[n]
            except TypeError:
                return None
        if n == "is":
            x = b if a == NONE else (a if b == NONE else None)
            if a == NONE and b == NONE:
                return True
            if x is not None:
                if is_const(x):
                    return x[1] is None
                if x in self.nonnull:
                    return False
                o = self.obj(x)
                if o is not None:
                    if o.none_like is not None:
                        return self._truth(op("is", o.none_like, NONE))
                    return False
                if x[0] in ("op", "tup", "lst", "slice", "ld", "fn", "partial"):
                    return False
                if x[0] == "g" and ("." in x[1] or x[1] in _BUILTIN_NAMES):
                    return False            # np.abs, operator.gt, abs, len ...: a function passed as a value
                if x[0] == "call" and (x[1] in ("la.lu_factor", ".copy", ".nonzero", "slice") or (x[1].startswith("np.") and x[1] != "np.where")):
                    return False
                if x[0] == "idx" and x[1][0] == "call" and x[1][1] == ".nonzero":
                    return False
            return None
        if n == "in":
            if b[0] in ("tup", "lst") and is_const(a) and all(is_const(x) for x in b[1:]):
                return any(a[1] == x[1] for x in b[1:])
            st = self._st(b)
            if st is not None and is_const(a):
                if a in st.items:
                    return True
                if st.kind == "dict" and st.closed:
                    return False
            if b[0] == "attr" and b[2] == "__dict__":
                st = self._st(b[1])
                if st is not None and is_const(a) and a[1] in st.fields:
                    return True
            return None
        return None

    def _truth(self, t):
        key, pol = self._key(t)
        r = self._fold(key)
        if r is None:
            r = self.facts.get(key)
        if r is None and key[0] == "op" and key[1] == "in" and key[3][0] in ("tup", "lst") and len(key[3]) > 1 and key[2][0] != "ref" \
                and all(is_const(x) and isinstance(x[1], (str, int)) and not isinstance(x[1], bool) for x in key[3][1:]):
            # x in (c1, c2, ...) is the chain x == c1 or x == c2 or ...: decided from (and recorded as) the equality facts of the path
            r = False
            for x in key[3][1:]:
                if self._truth(op("eq", key[2], x)):
                    r = True
                    break
            return r if pol else (not r)
        if r is None and key[0] == "op" and key[1] == "eq":
            # x == c1 known true  =>  x == c2 false
            a, b = key[2], key[3]
            cst, x = (a, b) if is_const(a) else ((b, a) if is_const(b) else (None, None))
            if cst is not None:
                for k2, v2 in self.facts.items():
                    if v2 and k2[0] == "op" and k2[1] == "eq" and x in (k2[2], k2[3]):
                        other = k2[3] if k2[2] == x else k2[2]
                        if is_const(other) and other != cst:
                            r = False
        if r is None and key[0] == "call" and key[1] == "isinstance":
            pass
        if r is None and key[0] == "truth" and key[1][0] == "call" and key[1][1] == "isinstance":
            r = self._isinstance(key[1])
        if r is None and self.I.cond is not None:
            r = self.I.cond(key, self)
            if r is not None:
                self._record(key, r)
        if r is None:
            i = len(self.decisions)
            r = self.script[i] if i < len(self.script) else True
            self.decisions.append(r)
            self._record(key, r)
        return r if pol else (not r)

    def _record(self, key, r):
        if key not in self.facts:
            self.facts[key] = r
            self.fact_order.append((key, r))

    def _isinstance(self, c):
        x, ty = c[2][0], c[2][1]
        if ty == ("g", "slice"):
            if (x[0] == "call" and x[1] == "slice") or x[0] == "slice":
                return True
            if x[0] in ("ref", "op", "tup", "lst", "c") or (x[0] == "call" and x[1] in ("np.ix_", ".nonzero", "np.arange")):
                return False
        if ty == ("g", "str"):
            if is_const(x):
                return isinstance(x[1], str)
            if x[0] in ("ref", "op", "tup", "lst", "idx"):
                return False
        return None

    # ------------------------------------------------------------------ names
    def lookup(self, name, frame):
        f = frame
        while f is not None:
            if name in f.locals:
                if name in getattr(f, "maybe", ()) and not self.loops:
                    self._ev("unbound", name=name, node=self.curnode)
                return f.locals[name]
            f = f.parent
        rel = frame.rel
        m = self.I.ctx.src.mod(rel)
        if name in m.funcs and "." not in name:
            return self._fnval(m.funcs[name], None)
        v = self.I.modconst(rel, name)
        if v is not None:
            return self.eval(v, Frame(rel=rel))
        if name in m.classes and "." not in name:
            rt = self._rectype_of_class(m.classes[name], Frame(rel=rel))
            if rt is not None:
                return rt
        if name in ("None", "True", "False"):
            return ("c", {"None": None, "True": True, "False": False}[name])
        al = self.I.modimports(rel).get(name)
        if al is not None:
            return ("g", al)
        names = self.I.modnames(rel)
        if names is not None and name not in names and not name.startswith("<"):
            self._ev("unbound", name=name, node=self.curnode)
        return ("g", name)

    # ------------------------------------------------------------------ expressions
    def eval(self, n, fr):
        if isinstance(n, ast.Constant):
            return ("c", n.value)
        if isinstance(n, ast.Name):
            return self.lookup(n.id, fr)
        if isinstance(n, ast.Attribute):
            return self._getattr(self.eval(n.value, fr), n.attr)
        if isinstance(n, ast.BinOp):
            a, b = self.eval(n.left, fr), self.eval(n.right, fr)
            return self._binop(BINOPS[type(n.op)], a, b)
        if isinstance(n, ast.UnaryOp):
            if isinstance(n.op, ast.Not):
                return ("c", not self.test(n.operand, fr)) if self._decidable(n.operand, fr) else op("not", self.eval(n.operand, fr))
            v = self.eval(n.operand, fr)
            if isinstance(n.op, ast.USub):
                if is_const(v) and isinstance(v[1], (int, float)):
                    return ("c", -v[1])
                return op("neg", v)
            if isinstance(n.op, ast.Invert):
                return op("inv", v)
            return v
        if isinstance(n, ast.Compare):
            vals = [self.eval(n.left, fr)] + [self.eval(c, fr) for c in n.comparators]
            parts = [op(CMPOPS[type(o)], vals[i], vals[i + 1]) for i, o in enumerate(n.ops)]
            return parts[0] if len(parts) == 1 else ("op", "and") + tuple(parts)
        if isinstance(n, ast.BoolOp):
            return ("op", "and" if isinstance(n.op, ast.And) else "or") + tuple(self.eval(v, fr) for v in n.values)
        if isinstance(n, ast.IfExp):
            return self.eval(n.body if self.test(n.test, fr) else n.orelse, fr)
        if isinstance(n, ast.Tuple):
            return ("tup",) + tuple(self.eval(e, fr) for e in n.elts)
        if isinstance(n, ast.List):
            return ("lst",) + tuple(self.eval(e, fr) for e in n.elts)
        if isinstance(n, ast.Set) and all(isinstance(e, ast.Constant) for e in n.elts):
            return ("tup",) + tuple(dict.fromkeys(self.eval(e, fr) for e in n.elts))       # a set of literals: used for membership tests and loops
        if isinstance(n, ast.Slice):
            return ("slice",) + tuple(NONE if p is None else self.eval(p, fr) for p in (n.lower, n.upper, n.step))
        if isinstance(n, ast.Subscript):
            return self._load(self.eval(n.value, fr), self.eval(n.slice, fr))
        if isinstance(n, ast.Call):
            return self._call(n, fr)
        if isinstance(n, ast.NamedExpr):
            v = self.eval(n.value, fr)
            fr.locals[n.target.id] = v
            return v
        if isinstance(n, ast.Dict):
            r = self._alloc("dict", ("c", "{}"))
            o = self.obj(r)
            for k, v in zip(n.keys, n.values):
                if k is None:
                    o.closed = False
                    continue
                o.items[self.eval(k, fr)] = self.eval(v, fr)
            return r
        if isinstance(n, ast.JoinedStr):
            parts = []
            for v in n.values:
                if isinstance(v, ast.Constant) and isinstance(v.value, str):
                    parts.append(v.value)
                    continue
                x = self.eval(v.value, fr) if isinstance(v, ast.FormattedValue) else None
                if x is not None and v.conversion == -1 and v.format_spec is None and is_const(x) and isinstance(x[1], (str, int)) \
                        and not isinstance(x[1], bool) and x[1] != "<fstring>":
                    parts.append(str(x[1]))
                else:
                    parts = None
                    break
            if parts is None:
                # (the remaining pieces are still evaluated above only up to the first unknown one: messages have no effects)
                return ("c", "<fstring>")
            return ("c", "".join(parts))
        if isinstance(n, ast.Starred):
            return ("star", self.eval(n.value, fr))
        if isinstance(n, ast.Lambda):
            return self._fnval(self._lambda_def(n, fr), fr)
        if isinstance(n, (ast.ListComp, ast.DictComp, ast.SetComp, ast.GeneratorExp)):
            return self._comprehension(n, fr)
        if isinstance(n, (ast.Yield, ast.YieldFrom)) and self.yields:
            col = self.yields[-1]
            v = NONE if n.value is None else self.eval(n.value, fr)
            if len(self.loops) > col["loops"]:
                col["ok"] = False           # produced inside a loop over data: the sequence is not a literal table
            elif isinstance(n, ast.Yield):
                col["items"].append(v)
            else:
                items = self._iter_items(v)
                if items is None:
                    col["ok"] = False
                else:
                    col["items"].extend(items)
            return NONE
        raise Unsupported(f"expression {type(n).__name__}")

    def _decidable(self, n, fr):
        return False

    def _lambda_def(self, n, fr):
        """a lambda is a function whose body is one return statement"""
        cache = self.I._mc.setdefault("lambdas", {})
        fd = cache.get(id(n))
        if fd is None:
            ret = ast.Return(value=n.body)
            ast.copy_location(ret, n)
            fd = ast.FunctionDef(name="<lambda>", args=n.args, body=[ret], decorator_list=[], returns=None, type_comment=None)
            ast.copy_location(fd, n)
            fd._vmod = _Rel(fr.rel)
            cache[id(n)] = fd
        return fd

    def _iter_items(self, it):
        """the elements of an iterable whose content is known (literal tables, enumerate / zip / range over them), or None"""
        if it[0] in ("tup", "lst"):
            return list(it[1:])
        if is_const(it) and isinstance(it[1], str) and len(it[1]) <= 64:
            return [("c", ch) for ch in it[1]]
        o = self.obj(it)
        if o is not None and o.kind == "dict" and o.closed:
            return list(o.items)
        return None

    def _iter_src(self, it, ordered=False):
        """the iterable whose elements a loop visits: list(x), tuple(x), iter(x), x.tolist(), np.asarray(x) (and, for a loop body evaluated on
        one generic element, reversed(x) / sorted(x)) visit the elements of x along its first axis"""
        for _ in range(6):
            o = self.obj(it)
            if o is not None and o.kind == "list" and o.origin[0] == "call" and o.origin[1] == "list" and len(o.origin[2]) == 1 and not o.origin[3] \
                    and not any(e.kind == "store" and e.target == it for e in self.events):
                it = o.origin[2][0]
            elif it[0] == "call" and it[1] in (".tolist", "tuple", "iter", "np.asarray", "np.asanyarray") + (() if ordered else ("reversed", "sorted")) \
                    and len(it[2]) == 1 and not it[3]:
                it = it[2][0]
            else:
                break
        return it

    def _elem_of(self, it, ordered=False):
        """the generic element a loop over `it` visits.  enumerate(x) is (position, element of x); zip(a, b) visits a and b in lockstep; a
        list built as [f(e) for e in x] visited in step with x holds f(element of x)"""
        it = self._iter_src(it, ordered)
        if it[0] == "call" and it[1] == "enumerate" and len(it[2]) == 1 and not it[3]:
            src = self._iter_src(it[2][0], True)
            return ("tup", ("elem", ("call", "range", (("call", "len", (src,), ()),), ())), self._elem_of(src, True))
        if it[0] == "call" and it[1] == "zip" and it[2] and not it[3]:
            return ("tup",) + tuple(self._elem_of(a, True) for a in it[2])
        o = self.obj(it)
        if o is not None and o.kind == "list" and o.origin[0] == "call" and o.origin[1] == "<ListComp>" and len(o.origin[2]) == 2 \
                and not any(e.kind == "store" and e.target == it for e in self.events):
            return o.origin[2][1]
        if it[0] == "call" and it[1] == "<GeneratorExp>" and len(it[2]) == 2:
            return it[2][1]
        return ("elem", it)

    def _comprehension(self, n, fr):
        """literal tables are unrolled; any other iterable is evaluated once on a generic element (calls and stores inside are recorded)"""
        kind = type(n).__name__
        nf = Frame(parent=fr, rel=fr.rel)
        if len(n.generators) != 1 or n.generators[0].is_async:
            return ("call", "<" + kind + ">", (("c", ast.dump(n)[:300]),), ())
        g = n.generators[0]
        it = self._iter_src(self.eval(g.iter, fr))
        items = self._iter_items(it)
        out = []

        def one(x, generic=False):
            self.assign(g.target, x, nf, n)
            for c in g.ifs:
                if generic:
                    self.eval(c, nf)            # a filter on a generic element decides nothing about the rest of the path: read, not assumed
                elif not self.test(c, nf):
                    return
            if isinstance(n, ast.DictComp):
                out.append((self.eval(n.key, nf), self.eval(n.value, nf)))
            else:
                out.append(self.eval(n.elt, nf))

        if items is not None:
            for x in items:
                one(x)
            if isinstance(n, ast.DictComp):
                r = self._alloc("dict", ("c", "{}"))
                for k, v in out:
                    self.obj(r).items[k] = v
                return r
            return (("lst",) if isinstance(n, ast.ListComp) else ("tup",)) + tuple(out)
        self.loops = self.loops + [it]
        try:
            one(self._elem_of(it), generic=True)
        finally:
            self.loops = self.loops[:-1]
        if isinstance(n, ast.DictComp):
            r = self._alloc("dict", ("call", "<DictComp>", (it,), ()))
            o = self.obj(r)
            o.closed = False
            for k, v in out:
                o.items[k] = v
                self.loops = self.loops + [it]
                self._ev("store", target=r, index=k, value=v, node=n, aug=False)
                self.loops = self.loops[:-1]
            return r
        t = ("call", "<" + kind + ">", (it,) + tuple(out), ())
        return self._alloc("list", t) if isinstance(n, ast.ListComp) else t

    def _binop(self, name, a, b):
        if name == "mul" and (a[0] == "lst" or b[0] == "lst"):
            return self._alloc("list", op("mul", a, b))           # n * [x]: a new list
        if is_const(a) and is_const(b) and isinstance(a[1], str) and a[1] != "<fstring>":
            # names built from literal pieces ("m" + side, "%s_x" % name) are literal names
            try:
                if name == "add" and isinstance(b[1], str) and b[1] != "<fstring>":
                    return ("c", a[1] + b[1])
                if name == "mod" and isinstance(b[1], (str, int)) and b[1] != "<fstring>":
                    return ("c", a[1] % b[1])
            except Exception:  # noqa
                pass
        if name == "mod" and is_const(a) and isinstance(a[1], str) and b[0] == "tup" and all(is_const(x) and isinstance(x[1], (str, int)) and x[1] != "<fstring>"
                                                                                               for x in b[1:]):
            try:
                return ("c", a[1] % tuple(x[1] for x in b[1:]))
            except Exception:  # noqa
                pass
        if is_const(a) and is_const(b) and isinstance(a[1], (int, float)) and isinstance(b[1], (int, float)) \
                and not isinstance(a[1], bool) and not isinstance(b[1], bool):
            try:
                v = {"add": lambda: a[1] + b[1], "sub": lambda: a[1] - b[1], "mul": lambda: a[1] * b[1]}.get(name, lambda: None)()
                if v is not None:
                    return ("c", v)
            except Exception:  # noqa
                pass
        return op(name, a, b)

    def _load(self, b, i):
        v = self._load0(b, i)
        if self.I.loadevents and v[0] in ("idx", "ld"):
            # when a subscript load happened (rules that replay stores into an object need to know which stores a load has seen)
            self._ev("load", target=b, index=i, value=v, node=self.curnode)
        return v

    def _load0(self, b, i):
        if i[0] == "elem" and i[1][0] == "call" and i[1][1] == "range" and len(i[1][2]) == 1 and not i[1][3]:
            # x[k] with k the generic position of a loop over range(len(x)) / range(x.size) / range(x.shape[0]) is the generic element of x
            n_ = i[1][2][0]
            if n_ in (("call", "len", (b,), ()), ("attr", b, "size"), ("idx", ("attr", b, "shape"), ("c", 0))) and b[0] not in ("tup", "lst"):
                return ("elem", b)
        if b in (("g", "np.s_"), ("g", "np.index_exp")):
            # np.s_[a:b] is the slice object itself
            return i if (b[1] == "np.s_" or i[0] == "tup") else ("tup", i)
        if b[0] == "idx" and is_const(i) and isinstance(i[1], int) and not isinstance(i[1], bool) and i[1] >= 0 and b[2][0] == "slice":
            # x[lo:hi][k] is x[lo + k] when the bounds are known and k lies inside
            lo, hi, st_ = b[2][1:]
            lo = ("c", 0) if lo == NONE else lo
            if st_ in (NONE, ("c", 1)) and is_const(lo) and isinstance(lo[1], int) and lo[1] >= 0 and \
                    (hi == NONE or (is_const(hi) and isinstance(hi[1], int) and hi[1] > lo[1] + i[1])) and \
                    (hi != NONE or b[1][0] in ("tup", "lst") or (b[1][0] == "call" and b[1][1] == ".nonzero")):
                return self._load0(b[1], ("c", lo[1] + i[1]))
        v = self._through_column(b, i)
        if v is not None:
            return self._load0(v[0], v[1])
        if b[0] == "attr" and b[2] == "__dict__" and is_const(i) and isinstance(i[1], str):
            return self._getattr(b[1], i[1])
        if b[0] in ("tup", "lst"):
            if is_const(i) and isinstance(i[1], int) and -len(b) + 1 <= i[1] < len(b) - 1:
                return b[1:][i[1]]
            if i[0] == "slice" and all(is_const(x) for x in i[1:]):
                return (b[0],) + tuple(b[1:][slice(i[1][1], i[2][1], i[3][1])])
        st = self._st(b)
        if st is not None:
            if i in st.items:
                return st.items[i]
            if st.kind == "arr" and i in st.content:
                return ("ld", b, i, st.content[i])
            if st.kind == "dict" and st.closed and is_const(i) and self.obj(b) is not None and all(is_const(x) for x in st.items):
                self._ev("keyerror", target=b, index=i, node=self.curnode)
                raise _KeyError()
        if i[0] == "slice" and self.is_list(b):
            return self._alloc("list", ("idx", b, i))
        return self.I.pin(self, ("idx", self._cur(b) if b[0] in ("s", "elem") else b, i))

    def _through_column(self, b, i):
        """X[:, c][i] addresses X[i, c] (a column view indexed along its only axis): (X, (i, c)) or None"""
        if b[0] == "idx" and b[2][0] == "tup" and len(b[2]) == 3 and b[2][1] == ("slice", NONE, NONE, NONE) and is_const(b[2][2]) \
                and isinstance(b[2][2][1], int) and not isinstance(b[2][2][1], bool) and i[0] not in ("tup", "c") and not self.is_list(b[1]):
            return b[1], ("tup", i, b[2][2])
        return None

    def is_list(self, t):
        if t[0] == "s":
            return self.I.kinds.get(t[1]) == "list"
        if t[0] == "lst":
            return True
        o = self.obj(t)
        return o is not None and o.kind == "list"

    # ------------------------------------------------------------------ calls
    def _call(self, n, fr):
        f = self.eval(n.func, fr)
        args, kws = [], []
        for a in n.args:
            v = self.eval(a, fr)
            if v[0] == "star" and v[1][0] in ("tup", "lst"):
                args.extend(v[1][1:])           # f(*(a, b)) is f(a, b)
                continue
            args.append(v)
        for k in n.keywords:
            v = self.eval(k.value, fr)
            if k.arg is None:
                o = self.obj(v)
                if o is not None and o.kind == "dict" and o.closed and all(is_const(x) for x in o.items):
                    kws.extend((x[1], y) for x, y in o.items.items())
                else:
                    kws.append(("**", v))
            else:
                kws.append((k.arg, v))
        return self.apply(f, args, kws, n, fr)

    def apply(self, f, args, kws, n, fr):
        if f[0] == "partial":
            # functools.partial(g, *a, **k)(*b, **l) is g(*a, *b, **{**k, **l})
            later = {k for k, _ in kws}
            return self.apply(f[1], list(f[2]) + list(args), [(k, v) for k, v in f[3] if k not in later or k == "**"] + list(kws), n, fr)
        if f[0] == "rectype":
            r = self._make_record(f, args, kws, fr)
            if r is not None:
                return r
            return self._opaque("<record " + f[1] + ">", args, kws, n)
        if f[0] == "fn":
            fdef, frame, bound = self.fnreg[f[1]]
            if fdef.name not in self.I.noinline and self.depth < 8 and not any(a[0] == "star" for a in args):
                r = self._inline(fdef, frame, bound, args, kws, fr, self.fndefaults.get(f[1]))
                if r is not NotImplemented:
                    return r
            name = fdef.name if bound is None else "self." + fdef.name
            # keyword arguments of a known signature take their positions
            ps = [x.arg for x in fdef.args.posonlyargs + fdef.args.args]
            if bound is not None and ps and not any(dotted(d) == "staticmethod" for d in fdef.decorator_list):
                ps = ps[1:]
            args, rest = list(args), []
            kd = dict((k, v) for k, v in kws if k != "**")
            while len(args) < len(ps) and ps[len(args)] in kd:
                args.append(kd.pop(ps[len(args)]))
            rest = [(k, v) for k, v in kws if k == "**" or k in kd]
            return self._opaque(name, args, rest, n)
        if f[0] == "g":
            name = f[1]
        elif f[0] == "attr":
            return self._method(f[1], f[2], args, kws, n)
        elif f[0] == "call" and f[1] == "getattr_fn":
            name = "<dyn>"
        else:
            name = "<value>"
            args = [f] + args
        return self._builtin(name, args, kws, n)

    def _make_record(self, f, args, kws, fr):
        """an instance of a namedtuple / NamedTuple / dataclass with plain fields: a namespace whose members are also its items by position"""
        _, tname, fields, dflt = f
        if any(a[0] == "star" for a in args) or any(k == "**" for k, _ in kws) or len(args) > len(fields):
            return None
        vals = dict(zip(fields, args))
        for k, v in kws:
            if k not in fields or k in vals:
                return None
            vals[k] = v
        for k, d in dflt:
            vals.setdefault(k, d)
        if set(vals) != set(fields):
            return None
        r = self._alloc("ns", ("call", "record:" + tname, tuple(vals[k] for k in fields), ()))
        o = self.obj(r)
        for i, k in enumerate(fields):
            o.fields[k] = vals[k]
            o.items[("c", i)] = vals[k]
        return r

    def _rectype_of_class(self, c, fr):
        """('rectype', name, fields, defaults) of `class X(NamedTuple)` / `@dataclass class X` whose body is annotated fields only, else None"""
        bases = {dotted(b) for b in c.bases}
        decos = {dotted(d.func if isinstance(d, ast.Call) else d) for d in c.decorator_list}
        if not (bases & {"NamedTuple", "typing.NamedTuple"} or decos & {"dataclass", "dataclasses.dataclass"}):
            return None
        fields, dflt = [], []
        for st in c.body:
            if isinstance(st, ast.Expr) and isinstance(st.value, ast.Constant):
                continue
            if isinstance(st, ast.Pass):
                continue
            if isinstance(st, ast.AnnAssign) and isinstance(st.target, ast.Name):
                fields.append(st.target.id)
                if st.value is not None:
                    dflt.append((st.target.id, self.eval(st.value, fr)))
                continue
            return None
        return ("rectype", c.name, tuple(fields), tuple(dflt))

    def _inline(self, fdef, frame, bound, args, kws, fr, defaults=None):
        a = fdef.args
        params = [x.arg for x in a.posonlyargs + a.args]
        static = any(dotted(d) == "staticmethod" for d in fdef.decorator_list)
        env = {}
        if bound is not None and not static and params:
            env[params[0]] = bound
            params = params[1:]
        elif bound is None and params and params[0] == "self" and self.I.cls and not static:
            # Class.method(self, ...) style call is not followed
            pass
        if len(args) > len(params) and not a.vararg:
            return NotImplemented
        for p_, v in zip(params, args):
            env[p_] = v
        if a.vararg:
            env[a.vararg.arg] = ("tup",) + tuple(args[len(params):])
        kwonly = [x.arg for x in a.kwonlyargs]
        extra = []
        for k, v in kws:
            if k == "**":
                return NotImplemented
            if k in params or k in kwonly:
                env[k] = v
            elif a.kwarg:
                extra.append((k, v))
            else:
                return NotImplemented
        if a.kwarg:
            r = self._alloc("dict", ("c", "**kwargs"))
            for k, v in extra:
                self.obj(r).items[("c", k)] = v
            env[a.kwarg.arg] = r
        allp = [x.arg for x in a.posonlyargs + a.args]
        dflt = dict(zip(allp[::-1], (a.defaults or [])[::-1]))
        rel = getattr(fdef, "_vmod").rel
        defaults = defaults or {}
        for p_ in params:
            if p_ not in env:
                if p_ in defaults:
                    env[p_] = defaults[p_]
                elif p_ in dflt:
                    env[p_] = self.eval(dflt[p_], Frame(parent=frame, rel=rel))
                else:
                    return NotImplemented
        for p_, d in zip(kwonly, a.kw_defaults):
            if p_ not in env:
                if p_ in defaults:
                    env[p_] = defaults[p_]
                elif d is None:
                    return NotImplemented
                else:
                    env[p_] = self.eval(d, Frame(parent=frame, rel=rel))
        nf = Frame(parent=frame, rel=rel)
        nf.locals.update(env)
        self.depth += 1
        saved_loops = self.loops
        gen = _is_generator(fdef, self.I._mc)
        if gen:
            # a generator function whose body writes nothing is the table of what it yields (evaluated when it is called)
            self.yields.append({"items": [], "ok": True, "loops": len(self.loops)})
            nev = len(self.events)
        try:
            self.block(fdef.body, nf)
            r = NONE
        except _Return as e:
            r = e.value
        finally:
            self.depth -= 1
            self.loops = saved_loops
            col = self.yields.pop() if gen else None
        if gen:
            lazy = any(e.kind in ("store", "setattr", "inplace") for e in self.events[nev:])
            if col["ok"] and not lazy:
                return ("tup",) + tuple(col["items"])
            return ("call", "<generator>", (("c", fdef.name),) + tuple(args), ())
        return r

    def _opaque(self, name, args, kws, n):
        """a call that is not followed: recorded, and the value is the application itself"""
        sig = SIGS.get(name)
        if sig:
            pos = list(args)
            rest = []
            for k, v in kws:
                if k in sig and sig.index(k) == len(pos):
                    pos.append(v)
                else:
                    rest.append((k, v))
            # keep the remaining ones by name, in name order; a positional that has a name beyond the first is kept positional
            args, kws = pos, rest
        kws = [(k, v) for k, v in kws if not ((name, k) in DEFAULT_KW and v == ("c", DEFAULT_KW[(name, k)]))]
        kws = tuple(sorted(kws, key=lambda kv: kv[0]))
        t = ("call", name, tuple(args), kws)
        self._ev("call", name=name, args=tuple(args), kws=kws, node=n, value=t)
        for a in list(args) + [v for _, v in kws]:
            o = self.obj(a)
            if o is not None and o.kind == "dict":
                o.closed = False
        mut = self.I.mutators.get(name)
        if mut is not None:
            kwd = dict(kws)
            for i in mut:               # positional index or keyword name of an argument the callee updates in place
                a = (args[i] if i < len(args) else None) if isinstance(i, int) else kwd.get(i)
                if a is not None and a[0] in ("s", "elem", "idx", "attr"):
                    self.epoch[a] = self.epoch.get(a, 0) + 1
        return self.I.pin(self, t)

    def _method(self, recv, meth, args, kws, n):
        if recv[0] == "g":
            return self._builtin(recv[1] + "." + meth, args, kws, n)
        if is_const(recv) and isinstance(recv[1], str) and recv[1] != "<fstring>":
            lit = lambda x: is_const(x) and isinstance(x[1], (str, int)) and not isinstance(x[1], bool) and x[1] != "<fstring>"  # noqa
            try:
                if meth == "format" and all(lit(a) for a in args) and all(k != "**" and lit(v) for k, v in kws):
                    return ("c", recv[1].format(*[a[1] for a in args], **{k: v[1] for k, v in kws}))
                if meth == "join" and len(args) == 1 and args[0][0] in ("tup", "lst") and all(lit(a) and isinstance(a[1], str) for a in args[0][1:]):
                    return ("c", recv[1].join(a[1] for a in args[0][1:]))
                if meth in ("format", "join"):
                    return ("c", "<fstring>")
            except Exception:  # noqa
                return ("c", "<fstring>")
        if meth == "copy" and not args:
            o = self.obj(recv)
            kind = "list" if self.is_list(recv) else ("dict" if (o and o.kind == "dict") else "arr")
            r = self._alloc(kind, ("call", ".copy", (recv,), ()))
            if o is not None and kind == "dict":
                self.obj(r).items.update(o.items)
                self.obj(r).closed = o.closed
            return r
        if meth == "update" and len(args) == 1 and not kws and recv[0] == "attr" and recv[2] == "__dict__" and args[0][0] == "attr" and args[0][2] == "__dict__":
            o = self.obj(recv[1])
            if o is not None and o.kind == "ns" and o.proto is None and not o.fields:
                o.proto = args[0][1]            # vars(x).update(vars(y)) on an empty namespace: x gets y's members (as SimpleNamespace(**vars(y)))
                return NONE
        if meth == "update" and len(args) <= 1:
            st = self._st(recv, create=True)
            if st.kind in ("dict", "opaque") and all(k != "**" for k, _ in kws):
                pairs, generic = [], None
                if args:
                    a = args[0]
                    o = self.obj(a)
                    items = self._iter_items(a)
                    if o is not None and o.kind == "dict" and o.closed:
                        pairs = list(o.items.items())
                    elif o is not None and o.kind == "dict" and o.origin[0] == "call" and o.origin[1] == "<DictComp>" and len(o.items) == 1:
                        generic = (o.origin[2][0],) + list(o.items.items())[0]
                    elif items is not None and all(x[0] in ("tup", "lst") and len(x) == 3 for x in items):
                        pairs = [(x[1], x[2]) for x in items]
                    elif a[0] == "call" and a[1] in ("<GeneratorExp>", "<ListComp>") and len(a[2]) == 2 and a[2][1][0] in ("tup", "lst") and len(a[2][1]) == 3:
                        generic = (a[2][0], a[2][1][1], a[2][1][2])
                    elif o is not None and o.kind == "list" and o.origin[0] == "call" and o.origin[1] == "<ListComp>" and len(o.origin[2]) == 2 \
                            and o.origin[2][1][0] in ("tup", "lst") and len(o.origin[2][1]) == 3:
                        generic = (o.origin[2][0], o.origin[2][1][1], o.origin[2][1][2])
                    else:
                        pairs = None
                if pairs is not None:
                    if generic is not None:
                        # d.update((k(x), v(x)) for x in it) is the loop `for x in it: d[k(x)] = v(x)`
                        self.loops = self.loops + [generic[0]]
                        self._store(recv, generic[1], generic[2], n)
                        self.loops = self.loops[:-1]
                        if st.kind == "dict":
                            st.closed = False
                    for k, v in pairs:
                        self._store(recv, k, v, n)
                    for k, v in kws:
                        self._store(recv, ("c", k), v, n)
                    return NONE
        if meth == "fill" and len(args) + len(kws) == 1 and (args or kws[0][0] == "value") and not self.is_list(recv):
            # view.fill(v) is view[...] = v: a store into whatever the receiver is a view of
            self._store_into(recv, args[0] if args else kws[0][1], n)
            return NONE
        if meth == "__setitem__" and len(args) == 2 and not kws:
            self._store(recv, args[0], args[1], n)
            return NONE
        if meth == "dot" and len(args) == 1 and not kws:
            return self._binop("matmul", recv, args[0])          # a.dot(b): the matrix product (one value with a @ b)
        if meth == "nonzero" and not args:
            return self._opaque(".nonzero", [recv], [], n)
        if meth in ("ravel", "flatten", "squeeze") and not args and not kws and recv[0] == "call" and recv[1] == "np.argwhere" and len(recv[2]) == 1 and not recv[3]:
            return self._load(self._opaque(".nonzero", list(recv[2]), [], n), ("c", 0))         # np.argwhere(mask).ravel(): positions of a 1-D mask
        if meth == "get" and 1 <= len(args) <= 2 and not kws and is_const(args[0]):
            st = self._st(recv)
            if st is not None and st.kind == "dict" and self.obj(recv) is not None:
                if args[0] in st.items:
                    return st.items[args[0]]
                if st.closed and all(is_const(x) for x in st.items):
                    return args[1] if len(args) == 2 else NONE
        if meth in ("items", "keys", "values") and not args:
            st = self._st(recv)
            if st is not None and st.kind == "dict" and st.closed:
                return ("lst",) + tuple(("tup", k, v) if meth == "items" else (k if meth == "keys" else v) for k, v in st.items.items())
        return self._opaque("." + meth, [recv] + list(args), kws, n)

    def _builtin(self, name, args, kws, n):
        kw = dict(kws)
        if (name in UFUNC2 and len(args) == 2 or name in UFUNC1 and len(args) == 1) and len(kws) == 1 and kws[0][0] == "out" and kws[0][1] != NONE:
            val = self._binop(UFUNC2[name], args[0], args[1]) if len(args) == 2 else op(UFUNC1[name], args[0])
            out = kws[0][1]
            if out[0] == "tup" and len(out) == 2:
                out = out[1]                    # out=(view,)
            self._store_into(out, val, n, aug=True)
            return out
        if name in UFUNC2 and len(args) == 3 and not kws and args[2] != NONE:
            # the third positional argument of a binary ufunc is `out`
            self._store_into(args[2], self._binop(UFUNC2[name], args[0], args[1]), n, aug=True)
            return args[2]
        if name == "np.copyto" and len(args) == 2 and not kws:
            self._store_into(args[0], args[1], n)
            return NONE
        if name == "np.copyto" and len(args) == 2 and len(kws) == 1 and kws[0][0] == "where":
            # np.copyto(dst, src, where=m) is dst[m] = src[m] (a scalar source is written as it is)
            m_ = kws[0][1]
            src = args[1] if (is_const(args[1]) or args[1][0] == "g") else self._load(args[1], m_)
            dst = args[0]
            if dst[0] in ("idx", "ld") and not self.is_list(dst[1]) and basic_index(self, dst[2], self.I.kinds) is True:
                col = dst[2]
                if col[0] == "tup" and len(col) == 3 and col[1] == ("slice", NONE, NONE, NONE):
                    self._store(dst[1], ("tup", m_, col[2]), src, n)          # a column view at the rows m
                    return NONE
            if dst[0] in ("ref", "s", "attr"):
                self._store(dst, m_, src, n)
                return NONE
        if (name.startswith("np.") or name.startswith("la.")) and any(k == "out" and v != NONE for k, v in kws) and name not in ALLOC:
            # f(..., out=view): the value f(...) is written into the view
            out = [v for k, v in kws if k == "out"][0]
            if out[0] == "tup" and len(out) == 2:
                out = out[1]
            if out[0] != "tup":
                val = self._builtin(name, args, [(k, v) for k, v in kws if k != "out"], n)
                self._store_into(out, val, n, aug=True)
                return out
        if name == "np.putmask" and len(args) == 3 and not kws:
            # a[mask] = v for a scalar v; for an array v of the shape of the mask (anything else is not `a[mask] = v[mask]`, which raises)
            v_ = args[2] if (is_const(args[2]) or args[2][0] == "g") else self._load(args[2], args[1])
            self._store_mask(args[0], args[1], v_, n)
            return NONE
        if name in UFUNC2 and len(args) == 2 and not kws:
            return self._binop(UFUNC2[name], args[0], args[1])
        if name in UFUNC1 and len(args) == 1 and not kws:
            v = args[0]
            if UFUNC1[name] == "neg" and is_const(v) and isinstance(v[1], (int, float)):
                return ("c", -v[1])
            return op(UFUNC1[name], v)
        if name == "np.transpose" and len(args) == 1 and not kws:
            return self._getattr(args[0], "T")
        if name in ("np.nonzero", "np.where") and len(args) == 1 and not kws:
            return self._opaque(".nonzero", args, [], n)
        if name == "np.flatnonzero" and len(args) == 1 and not kws:
            return self._load(self._opaque(".nonzero", args, [], n), ("c", 0))
        if name in ("np.ravel", "np.squeeze") and len(args) == 1 and not kws and args[0][0] == "call" and args[0][1] == "np.argwhere" and len(args[0][2]) == 1:
            return self._load(self._opaque(".nonzero", list(args[0][2]), [], n), ("c", 0))     # positions of a 1-D mask
        # ---- literal tables: enumerate / zip / range / map / reversed over known content are known content
        if name == "enumerate" and 1 <= len(args) <= 2 and not kws and self._iter_items(args[0]) is not None and \
                (len(args) == 1 or (is_const(args[1]) and isinstance(args[1][1], int))):
            k0 = args[1][1] if len(args) == 2 else 0
            return ("tup",) + tuple(("tup", ("c", k0 + k), x) for k, x in enumerate(self._iter_items(args[0])))
        if name == "zip" and args and not kws and all(self._iter_items(a) is not None for a in args):
            cols = [self._iter_items(a) for a in args]
            return ("tup",) + tuple(("tup",) + tuple(c[k] for c in cols) for k in range(min(len(c) for c in cols)))
        if name == "zip" and len(args) >= 2 and not kws and any(self._iter_items(a) is not None for a in args) \
                and all(self._iter_items(a) is not None or (a[0] in ("s", "attr", "idx", "elem") and not self.is_list(a)) for a in args):
            # a literal table zipped with a sequence that is not known element by element: element k of the sequence goes with entry k (on
            # every execution on which the sequence is long enough, which unpacking it into as many names also requires)
            nmin = min(len(self._iter_items(a)) for a in args if self._iter_items(a) is not None)
            cols = [self._iter_items(a)[:nmin] if self._iter_items(a) is not None else [self._load(a, ("c", k)) for k in range(nmin)] for a in args]
            return ("tup",) + tuple(("tup",) + tuple(c[k] for c in cols) for k in range(nmin))
        if name == "range" and 1 <= len(args) <= 3 and not kws and all(is_const(a) and isinstance(a[1], int) and not isinstance(a[1], bool) for a in args):
            try:
                r_ = range(*[a[1] for a in args])
            except ValueError:
                r_ = None
            if r_ is not None and len(r_) <= 64:
                return ("tup",) + tuple(("c", k) for k in r_)
        if name == "sum" and 1 <= len(args) <= 2 and not kws and self._iter_items(args[0]) is not None and not is_const(args[0]):
            items = self._iter_items(args[0])
            acc = args[1] if len(args) == 2 else (items[0] if items else ("c", 0))
            for x in (items if len(args) == 2 else items[1:]):
                acc = self._binop("add", acc, x)
            return acc
        # ---- reductions over a literal list are the nested binary application: np.fmax.reduce([a, b]) is np.fmax(a, b)
        if name.endswith(".reduce") and name[:-7] in ("np.fmax", "np.fmin", "np.maximum", "np.minimum", "np.add", "np.multiply") and len(args) == 1 \
                and args[0][0] in ("tup", "lst") and len(args[0]) >= 3 and all(k == "axis" and v == ("c", 0) for k, v in kws):
            acc = args[0][1]
            for x in args[0][2:]:
                acc = self._builtin(name[:-7], [acc, x], [], n)
            return acc
        if name == "functools.reduce" and 2 <= len(args) <= 3 and not kws and args[1][0] in ("tup", "lst") and len(args[1]) + len(args) >= 5:
            items = list(args[1][1:])
            acc = args[2] if len(args) == 3 else items.pop(0)
            for x in items:
                acc = self.apply(args[0], [acc, x], [], n, None)
            return acc
        if name == "np.sum" and len(args) == 1 and args[0][0] in ("tup", "lst") and len(args[0]) >= 3 and tuple(kws) == (("axis", ("c", 0)),):
            acc = args[0][1]
            for x in args[0][2:]:
                acc = self._binop("add", acc, x)
            return acc
        if name == "reversed" and len(args) == 1 and not kws and args[0][0] in ("tup", "lst"):
            return ("tup",) + tuple(args[0][1:][::-1])
        if name == "map" and len(args) >= 2 and not kws and all(self._iter_items(a) is not None for a in args[1:]):
            cols = [self._iter_items(a) for a in args[1:]]
            return ("tup",) + tuple(self.apply(args[0], [c[k] for c in cols], [], n, None) for k in range(min(len(c) for c in cols)))
        if name in ("tuple", "list") and len(args) == 1 and not kws and args[0][0] in ("tup", "lst") and name == "tuple":
            return ("tup",) + tuple(args[0][1:])
        if name == "collections.namedtuple" and len(args) == 2 and is_const(args[0]) and all(k == "defaults" for k, _ in kws):
            fl = args[1]
            names = None
            if is_const(fl) and isinstance(fl[1], str):
                names = fl[1].replace(",", " ").split()
            elif fl[0] in ("tup", "lst") and all(is_const(x) and isinstance(x[1], str) for x in fl[1:]):
                names = [x[1] for x in fl[1:]]
            dv = kws[0][1] if kws else ("tup",)
            if names is not None and dv[0] in ("tup", "lst") and len(dv) - 1 <= len(names):
                return ("rectype", str(args[0][1]), tuple(names), tuple(zip(names[len(names) - (len(dv) - 1):], dv[1:])))
        if name == "functools.partial" and args:
            return ("partial", args[0], tuple(args[1:]), tuple(kws))
        if name == "dict" and len(args) == 1:
            items = self._iter_items(args[0])
            o0 = self.obj(args[0])
            if o0 is not None and o0.kind == "dict" and o0.closed:
                pairs = list(o0.items.items())
            elif items is not None and all(x[0] in ("tup", "lst") and len(x) == 3 for x in items):
                pairs = [(x[1], x[2]) for x in items]
            else:
                pairs = None
            if pairs is not None:
                r = self._alloc("dict", ("c", "{}"))
                for k, v in pairs:
                    self.obj(r).items[k] = v
                for k, v in kws:
                    if k == "**":
                        self.obj(r).closed = False
                    else:
                        self.obj(r).items[("c", k)] = v
                return r
        if name == "getattr" and len(args) >= 2 and is_const(args[1]) and isinstance(args[1][1], str):
            if len(args) == 3:
                st = self._st(args[0])
                if not (st is not None and args[1][1] in st.fields):
                    if self._truth(("call", "hasattr", (args[0], args[1]), ())):
                        return self._getattr(args[0], args[1][1])
                    return args[2]
            return self._getattr(args[0], args[1][1])
        if name == "setattr" and len(args) == 3 and is_const(args[1]) and isinstance(args[1][1], str):
            self._setattr(args[0], args[1][1], args[2], n)
            return NONE
        if name == "vars" and len(args) == 1:
            return ("attr", args[0], "__dict__")
        if name in ("SimpleNamespace", "types.SimpleNamespace"):
            r = self._alloc("ns", ("call", "SimpleNamespace", (), ()))
            o = self.obj(r)
            for k, v in kws:
                if k == "**":
                    if v[0] == "attr" and v[2] == "__dict__":
                        o.proto = v[1]
                    else:
                        raise Unsupported("SimpleNamespace(**<unknown>)")
                else:
                    o.fields[k] = v
                    self._ev("setattr", target=r, name=k, value=v, node=n)
            return r
        if name == "dict" and not args:
            r = self._alloc("dict", ("c", "{}"))
            for k, v in kws:
                self.obj(r).items[("c", k)] = v
            return r
        if name in COPIERS and len(args) >= 1:
            src = args[0]
            if is_const(src):
                return src
            if name == "copy.deepcopy":
                o = self.obj(src)
                r = self._alloc("ns" if (o is None or o.kind == "ns") else o.kind, ("call", name, (src,), ()))
                self.obj(r).proto = ("deep", src) if self.obj(r).kind == "ns" else None
                return r
            kind = "list" if (name == "list" or self.is_list(src)) else "arr"
            r = self._alloc(kind, ("call", name, tuple(args), tuple(kws)))
            if name == "copy.copy":
                self.obj(r).none_like = src
            return r
        if name in ALLOC:
            sig = SIGS.get(name, [])
            pos = list(args)
            rest = []
            for k, v in kws:
                if k in sig and sig.index(k) == len(pos):
                    pos.append(v)
                else:
                    rest.append((k, v))
            return self._alloc("arr", ("call", name, tuple(pos), tuple(sorted(rest))))
        if name == "slice":
            a = list(args)
            if len(a) == 1:
                a = [NONE, a[0], NONE]
            elif len(a) == 2:
                a = [a[0], a[1], NONE]
            return ("slice",) + tuple(a) if len(a) == 3 else ("call", "slice", tuple(a), ())
        if name in ("int", "operator.index") and len(args) == 1 and not kws and args[0][0] == "elem":
            return args[0]              # an index taken from an index vector, made a Python int
        if name == "len" and len(args) == 1 and args[0][0] in ("tup", "lst"):
            return ("c", len(args[0]) - 1)
        if name == "len" and len(args) == 1 and self.obj(args[0]) is not None and self.obj(args[0]).kind == "dict" and self.obj(args[0]).closed:
            return ("c", len(self.obj(args[0]).items))
        if name == "isinstance":
            return ("call", "isinstance", tuple(args), ())
        if name in ("print",):
            return NONE
        if name == "range" and len(args) == 1 and not kws and _nonneg(args[0]):
            return ("call", "range", tuple(args), ())
        return self._opaque(name, args, kws, n)

    # ------------------------------------------------------------------ stores
    def _store(self, base, idx, val, node, aug=False):
        v = self._through_column(base, idx)
        if v is not None:
            base, idx = v
        if base[0] == "attr" and base[2] == "__dict__" and is_const(idx) and isinstance(idx[1], str) and not aug:
            return self._setattr(base[1], idx[1], val, node)
        st = self._st(base, create=True)
        if st.kind == "dict" or (st.kind == "opaque" and is_const(idx) and isinstance(idx[1], str)):
            st.items[idx] = val
        elif st.kind == "arr":
            if not self.loops:
                st.content[idx] = val
        self._ev("store", target=base, index=idx, value=val, node=node, aug=aug)

    def _store_mask(self, dst, m_, val, node):
        """dst[m_] = val where dst is a value (an array, or a column view X[:, c]: the rows m_ of that column)"""
        if dst[0] in ("idx", "ld") and not self.is_list(dst[1]) and basic_index(self, dst[2], self.I.kinds) is True:
            col = dst[2]
            if col[0] == "tup" and len(col) == 3 and col[1] == ("slice", NONE, NONE, NONE):
                return self._store(dst[1], ("tup", m_, col[2]), val, node)
        self._store(dst, m_, val, node)

    def _store_into(self, tgt, val, node, aug=False):
        """`tgt[...] = val` where tgt is a value: a view (basic indexing) writes through to what it was taken from, the result of advanced
        indexing is a temporary copy, anything else is written as a whole"""
        if tgt[0] in ("idx", "ld") and not self.is_list(tgt[1]):
            bi = basic_index(self, tgt[2], self.I.kinds)
            if bi is False:
                tmp = self._alloc("arr", ("idx", tgt[1], tgt[2]))
                self._store(tmp, ("slice", NONE, NONE, NONE), val, node, aug=aug)
                return
            self._store(tgt[1], tgt[2], val, node, aug=aug)
        else:
            self._store(tgt, ("slice", NONE, NONE, NONE), val, node, aug=aug)

    def _setattr(self, base, name, val, node, aug=False):
        st = self._st(base, create=True)
        st.fields[name] = val
        self._ev("setattr", target=base, name=name, value=val, node=node, aug=aug)

    def assign(self, tg, v, fr, node):
        if isinstance(tg, ast.Name):
            fr.locals[tg.id] = v
            if not self.loops and tg.id in getattr(fr, "maybe", ()):
                fr.maybe.discard(tg.id)
        elif isinstance(tg, ast.Attribute):
            self._setattr(self.eval(tg.value, fr), tg.attr, v, node)
        elif isinstance(tg, ast.Subscript):
            self._store(self.eval(tg.value, fr), self.eval(tg.slice, fr), v, node)
        elif isinstance(tg, (ast.Tuple, ast.List)):
            if v[0] in ("tup", "lst") and len(v) - 1 == len(tg.elts):
                for t, x in zip(tg.elts, v[1:]):
                    self.assign(t, x, fr, node)
            else:
                for k, t in enumerate(tg.elts):
                    self.assign(t, self._load(v, ("c", k)), fr, node)
        elif isinstance(tg, ast.Starred):
            self.assign(tg.value, ("star", v), fr, node)
        else:
            raise Unsupported(f"assignment target {type(tg).__name__}")

    # ------------------------------------------------------------------ statements
    def test(self, n, fr):
        if isinstance(n, ast.BoolOp):
            if isinstance(n.op, ast.And):
                for v in n.values:
                    if not self.test(v, fr):
                        return False
                return True
            for v in n.values:
                if self.test(v, fr):
                    return True
            return False
        if isinstance(n, ast.UnaryOp) and isinstance(n.op, ast.Not):
            return not self.test(n.operand, fr)
        if isinstance(n, ast.Compare) and len(n.ops) > 1:
            vals = [self.eval(n.left, fr)] + [self.eval(c, fr) for c in n.comparators]
            return all(self._truth(op(CMPOPS[type(o)], vals[i], vals[i + 1])) for i, o in enumerate(n.ops))
        return self._truth(self.eval(n, fr))

    def _counted_while(self, s, fr):
        """(counter, bound value, body without the increment) of `while k < n: ...; k += 1` entered with k == 0, the counter assigned nowhere
        else in the body and no break / else"""
        t = s.test
        if s.orelse or not (isinstance(t, ast.Compare) and len(t.ops) == 1 and isinstance(t.ops[0], ast.Lt) and isinstance(t.left, ast.Name)):
            return None
        k = t.left.id
        if fr.locals.get(k) != ("c", 0) or not s.body:
            return None
        last = s.body[-1]
        if not (isinstance(last, ast.AugAssign) and isinstance(last.op, ast.Add) and isinstance(last.target, ast.Name) and last.target.id == k
                and isinstance(last.value, ast.Constant) and last.value.value == 1 and type(last.value.value) is int):
            return None
        for st in s.body[:-1]:
            for x in ast.walk(st):
                if isinstance(x, (ast.Break, ast.Continue)) or (isinstance(x, ast.Name) and x.id == k and isinstance(x.ctx, (ast.Store, ast.Del))):
                    return None
        bound = self.eval(t.comparators[0], fr)
        if not _nonneg(bound):
            return None
        return k, bound, s.body[:-1]

    def _match(self, pat, subj, fr):
        """truth of a `case` pattern: literal / dotted-name values (==), None / True / False (is), alternatives, wildcard and capture; the
        chain of cases is the if / elif chain of these tests"""
        if isinstance(pat, ast.MatchValue):
            return self._truth(op("eq", subj, self.eval(pat.value, fr)))
        if isinstance(pat, ast.MatchSingleton):
            if pat.value is None:
                return self._truth(op("is", subj, NONE))
            if subj[0] == "call" and subj[1] == "bool" and len(subj[2]) == 1:
                r = self._truth(subj)                       # bool(x) is True  <=>  x is true
                return r if pat.value else not r
            if is_const(subj):
                return subj[1] is pat.value
            return self._truth(op("is", subj, ("c", pat.value)))
        if isinstance(pat, ast.MatchOr):
            for p_ in pat.patterns:
                if self._match(p_, subj, fr):
                    return True
            return False
        if isinstance(pat, ast.MatchAs):
            if pat.pattern is not None and not self._match(pat.pattern, subj, fr):
                return False
            if pat.name is not None:
                fr.locals[pat.name] = subj
            return True
        raise Unsupported(f"match pattern {type(pat).__name__}")

    def _lookup_probe(self, s, fr):
        """(key, mapping) when the try body is one statement whose only operation that can raise is the lookup `mapping[key]` of a literal
        key in a dict, and the first handler catches KeyError / LookupError"""
        if len(s.body) != 1 or not s.handlers or s.finalbody:
            return None
        h = s.handlers[0]
        if h.type is None or dotted(h.type) not in ("KeyError", "LookupError"):
            return None
        st = s.body[0]
        v = st.value if isinstance(st, (ast.Expr, ast.Assign)) else None
        if not (isinstance(v, ast.Subscript) and isinstance(v.slice, ast.Constant) and isinstance(v.slice.value, str) and isinstance(v.value, ast.Name)):
            return None
        if isinstance(st, ast.Assign) and not all(isinstance(t, ast.Name) for t in st.targets):
            return None
        m = self.eval(v.value, fr)
        o = self.obj(m)
        if (o is not None and o.kind == "dict") or (m[0] == "s" and self.I.kinds.get(m[1]) == "dict"):
            return ("c", v.slice.value), m
        return None

    def block(self, stmts, fr):
        for s in stmts:
            self.stmt(s, fr)

    curnode = None

    def stmt(self, s, fr):
        self.curnode = s
        if isinstance(s, ast.Assign):
            v = self.eval(s.value, fr)
            for t in s.targets:
                self.assign(t, v, fr, s)
        elif isinstance(s, ast.AnnAssign):
            if s.value is not None:
                self.assign(s.target, self.eval(s.value, fr), fr, s)
        elif isinstance(s, ast.AugAssign):
            name = BINOPS[type(s.op)]
            t = s.target
            if isinstance(t, ast.Subscript):
                b, i = self.eval(t.value, fr), self.eval(t.slice, fr)
                cur = self._load(b, i)
                v = self.eval(s.value, fr)
                self._store(b, i, self._binop(name, cur, v), s, aug=True)
            elif isinstance(t, ast.Attribute):
                b = self.eval(t.value, fr)
                cur = self._getattr(b, t.attr)
                v = self.eval(s.value, fr)
                o = self.obj(cur)
                if o is not None and o.kind == "arr":
                    # the member is an array the path created: the operator works in place on that object (whoever else holds it sees the
                    # change) and the member stays bound to it
                    self._store_into(cur, self._binop(name, cur, v), s, aug=True)
                else:
                    self._ev("inplace", target=cur, value=self._binop(name, cur, v), node=s)
                    self._setattr(b, t.attr, self._binop(name, cur, v), s, aug=True)
            else:
                cur = self.eval(t, fr)
                v = self.eval(s.value, fr)
                o = self.obj(cur)
                if (cur[0] in ("idx", "ld") and not self.is_list(cur[1]) and not (is_const(cur[2]) and isinstance(cur[2][1], str))
                        and basic_index(self, cur[2], self.I.kinds) is True and _has_slice(cur[2]) and cur[1][0] in ("ref", "s", "attr", "idx", "ld")
                        and not (cur[1][0] == "s" and self.I.kinds.get(cur[1][1]) in ("dict", "scalar", "count", "str"))) \
                        or (o is not None and o.kind == "arr"):
                    # the name is bound to an array the path created or to a view (basic indexing): the operator works in place, i.e. it
                    # is a store into what the view was taken from, and the name stays bound to the same view
                    self._store_into(cur, self._binop(name, self._load(cur[1], cur[2]) if cur[0] in ("idx", "ld") else cur, v), s, aug=True)
                else:
                    if not is_const(cur):
                        self._ev("inplace", target=cur, value=self._binop(name, cur, v), node=s)
                    fr.locals[t.id] = self._binop(name, cur, v)
        elif isinstance(s, ast.Expr):
            self.eval(s.value, fr)
        elif isinstance(s, ast.If):
            self.block(s.body if self.test(s.test, fr) else s.orelse, fr)
        elif isinstance(s, ast.For):
            it = self._iter_src(self.eval(s.iter, fr))
            items = self._iter_items(it)
            if items is not None:
                for x in items:
                    self.assign(s.target, x, fr, s)
                    try:
                        self.block(s.body, fr)
                    except _Break:
                        break
                    except _LoopCtl:
                        pass
                else:
                    self.block(s.orelse, fr)
                return
            else:
                before = set(fr.locals)
                self.loops = self.loops + [it]
                self.assign(s.target, self._elem_of(it), fr, s)
                try:
                    self.block(s.body, fr)
                except _LoopCtl:
                    pass
                self.loops = self.loops[:-1]
                # the loop may run zero times: what it bound first is not surely bound afterwards
                fr.maybe = getattr(fr, "maybe", set()) | (set(fr.locals) - before)
            self.block(s.orelse, fr)
        elif isinstance(s, ast.While):
            cnt = self._counted_while(s, fr)
            if cnt is not None:
                # k = 0; while k < n: body; k += 1   is   for k in range(n): body
                name, bound, body = cnt
                it = ("call", "range", (bound,), ())
                self.loops = self.loops + [it]
                fr.locals[name] = ("elem", it)
                try:
                    self.block(body, fr)
                except _LoopCtl:
                    pass
                self.loops = self.loops[:-1]
                fr.locals[name] = bound
                return
            self.loops = self.loops + [("c", "while")]
            try:
                self.block(s.body, fr)
            except _LoopCtl:
                pass
            self.loops = self.loops[:-1]
        elif isinstance(s, ast.With):
            suppress = False
            for it in s.items:
                v = self.eval(it.context_expr, fr)
                if v[0] == "call" and v[1] == "contextlib.suppress":
                    suppress = True
                if it.optional_vars is not None:
                    self.assign(it.optional_vars, v, fr, s)
            if suppress:
                # `with suppress(E): body` is `try: body / except E: pass`: the body completes or is abandoned
                k = self.trycount.get(id(s), 0)
                self.trycount[id(s)] = k + 1
                if self._truth(("call", "<completes>", (("c", getattr(s, "lineno", 0)), ("c", k)), ())):
                    self.block(s.body, fr)
            else:
                self.block(s.body, fr)
        elif isinstance(s, ast.Try):
            k = self.trycount.get(id(s), 0)
            self.trycount[id(s)] = k + 1
            probe = self._lookup_probe(s, fr)
            if probe is not None:
                # try: d[key] ... except KeyError: ...   completes exactly when the key is present: the fact is `key in d`
                raises = not self._truth(("op", "in", probe[0], probe[1]))
            else:
                raises = s.handlers and not self._truth(("call", "<completes>", (("c", getattr(s, "lineno", 0)), ("c", k)), ()))
            if raises:
                if s.handlers[0].name:
                    fr.locals[s.handlers[0].name] = ("s", "<exception>")
                self.block(s.handlers[0].body, fr)
            else:
                try:
                    self.block(s.body, fr)
                except _KeyError:
                    hs = [h for h in s.handlers if h.type is None or dotted(h.type) in ("KeyError", "LookupError", "Exception", "BaseException")]
                    if not hs:
                        self.block(s.finalbody, fr)
                        raise
                    if hs[0].name:
                        fr.locals[hs[0].name] = ("s", "<exception>")
                    self.block(hs[0].body, fr)
                else:
                    self.block(s.orelse, fr)
            self.block(s.finalbody, fr)
        elif isinstance(s, ast.Return):
            raise _Return(NONE if s.value is None else self.eval(s.value, fr))
        elif isinstance(s, ast.Raise):
            raise _Raise()
        elif isinstance(s, (ast.FunctionDef,)):
            if not hasattr(s, "_vmod"):
                s._vmod = _Rel(fr.rel)
            fv = self._fnval(s, fr)
            a = s.args
            allp = [x.arg for x in a.posonlyargs + a.args]
            dv = {p_: self.eval(d, fr) for p_, d in zip(allp[::-1], (a.defaults or [])[::-1])}
            dv.update({x.arg: self.eval(d, fr) for x, d in zip(a.kwonlyargs, a.kw_defaults) if d is not None})
            self.fndefaults[fv[1]] = dv
            fr.locals[s.name] = fv
        elif isinstance(s, ast.Break):
            raise _Break()
        elif isinstance(s, ast.Continue):
            raise _LoopCtl()
        elif isinstance(s, (ast.Import, ast.ImportFrom)):
            canon = import_aliases(s)
            for al in s.names:
                nm = (al.asname or al.name).split(".")[0]
                fr.locals[nm] = ("g", canon.get(nm, al.asname or al.name))
        elif isinstance(s, ast.ClassDef):
            fr.locals[s.name] = self._rectype_of_class(s, fr) or ("g", s.name)
        elif isinstance(s, ast.Match):
            subj = self.eval(s.subject, fr)
            for case in s.cases:
                if self._match(case.pattern, subj, fr) and (case.guard is None or self.test(case.guard, fr)):
                    self.block(case.body, fr)
                    break
        elif isinstance(s, (ast.Pass, ast.Assert, ast.Global, ast.Nonlocal, ast.Delete)):
            pass
        else:
            raise Unsupported(f"statement {type(s).__name__}")


def import_aliases(st):
    """{local name: canonical dotted name} of an import statement, for the modules of CANON_MODULES only"""
    out = {}
    if isinstance(st, ast.Import):
        for al in st.names:
            c = CANON_MODULES.get(al.name)
            if c and al.asname and al.asname != c:
                out[al.asname] = c
            elif c and not al.asname and "." not in al.name and al.name != c:
                out[al.name] = c
    elif isinstance(st, ast.ImportFrom) and not st.level and st.module:
        c = CANON_MODULES.get(st.module)
        for al in st.names:
            if al.name == "*":
                continue
            if c is not None:
                out[al.asname or al.name] = (c + "." if c else "") + al.name
            elif CANON_MODULES.get(st.module + "." + al.name):
                out[al.asname or al.name] = CANON_MODULES[st.module + "." + al.name]
    return out


def _is_generator(fdef, cache):
    key = ("gen", id(fdef))
    if key not in cache:
        found = False
        stack = list(fdef.body)
        while stack:
            x = stack.pop()
            if isinstance(x, (ast.Yield, ast.YieldFrom)):
                found = True
                break
            if isinstance(x, (ast.FunctionDef, ast.AsyncFunctionDef, ast.Lambda, ast.ClassDef)):
                continue
            stack.extend(ast.iter_child_nodes(x))
        cache[key] = found
    return cache[key]


def _has_slice(i):
    """the index keeps at least one axis (the result is an array view, not an element)"""
    return i[0] == "slice" or (i[0] == "call" and i[1] == "slice") or (i[0] == "tup" and any(_has_slice(x) for x in i[1:])) or i == ("c", Ellipsis)


def _nonneg(t):
    if t[0] == "attr" and t[2] == "size":
        return True
    if t[0] == "idx" and t[1][0] == "attr" and t[1][2] == "shape":
        return True
    if t[0] == "call" and t[1] == "len":
        return True
    return False


class Interp:
    def __init__(self, ctx, rel, qual, cond=None, pins=None, kinds=None, noinline=(), mutators=None, loadevents=False):
        self.ctx = ctx
        self.rel = rel
        self.qual = qual
        self.fn = ctx.src.func(rel, qual)
        self.cls = qual.split(".")[0] if "." in qual and qual.split(".")[0] in ctx.src.mod(rel).classes else None
        self.cond = cond
        self.pins = dict(pins or {})
        self.kinds = dict(kinds or {})
        self.noinline = set(noinline)
        self.mutators = dict(mutators or {})
        self.loadevents = loadevents
        self._mc = {}

    def method(self, name):
        m = self.ctx.src.mod(self.rel)
        return m.funcs.get(f"{self.cls}.{name}")

    def modconst(self, rel, name):
        key = (rel, name)
        if key not in self._mc:
            v = None
            for st in self.ctx.src.mod(rel).tree.body:
                if isinstance(st, ast.Assign) and len(st.targets) == 1 and isinstance(st.targets[0], ast.Name) and st.targets[0].id == name:
                    v = st.value
                elif isinstance(st, ast.AnnAssign) and isinstance(st.target, ast.Name) and st.target.id == name and st.value is not None:
                    v = st.value
            self._mc[key] = v
        return self._mc[key]

    def classconst(self, name):
        """value expression of a name bound exactly once, to a literal, in the body of the anchored class"""
        key = ("classconst", name)
        if key not in self._mc:
            v, n = None, 0
            c = self.ctx.src.mod(self.rel).classes.get(self.cls)
            for st in (c.body if c is not None else ()):
                if isinstance(st, ast.Assign) and len(st.targets) == 1 and isinstance(st.targets[0], ast.Name) and st.targets[0].id == name:
                    v, n = st.value, n + 1
                elif isinstance(st, ast.AnnAssign) and isinstance(st.target, ast.Name) and st.target.id == name and st.value is not None:
                    v, n = st.value, n + 1
            ok = n == 1 and all(isinstance(x, (ast.Constant, ast.Tuple, ast.List, ast.Dict, ast.Load, ast.UnaryOp, ast.USub)) for x in ast.walk(v))
            self._mc[key] = v if ok else None
        return self._mc[key]

    def modimports(self, rel):
        """module-level import bindings of well-known modules: local name -> the dotted name the rules use (`np.x`, `la.x`, `operator.x`)"""
        key = ("imports", rel)
        if key not in self._mc:
            out = {}
            for st in self.ctx.src.mod(rel).tree.body:
                out.update(import_aliases(st))
            self._mc[key] = out
        return self._mc[key]

    def modnames(self, rel):
        """names bound at module level (imports, definitions, assignments) and builtins; None when a star import makes the set unknown"""
        key = ("names", rel)
        if key not in self._mc:
            import builtins
            out = set(dir(builtins))
            star = False
            for st in ast.walk(self.ctx.src.mod(rel).tree):
                if isinstance(st, (ast.Import, ast.ImportFrom)):
                    for al in st.names:
                        if al.name == "*":
                            star = True
                        out.add((al.asname or al.name).split(".")[0])
                elif isinstance(st, (ast.FunctionDef, ast.AsyncFunctionDef, ast.ClassDef)):
                    out.add(st.name)
                elif isinstance(st, ast.Global):
                    out.update(st.names)
            for st in self.ctx.src.mod(rel).tree.body:
                for x in ast.walk(st) if not isinstance(st, (ast.FunctionDef, ast.AsyncFunctionDef, ast.ClassDef)) else ():
                    if isinstance(x, ast.Name) and isinstance(x.ctx, ast.Store):
                        out.add(x.id)
            self._mc[key] = None if star else out
        return self._mc[key]

    def pin(self, P, t):
        if self.pins:
            r = self.pins.get(P.norm(t))
            if r is not None:
                return r
        return t

    def _entry(self, P, env=None):
        a = self.fn.args
        fr = Frame(rel=self.rel)
        # an enclosing function's frame is not reconstructed: nested anchors are analysed through their parent
        for x in a.posonlyargs + a.args + a.kwonlyargs:
            fr.locals[x.arg] = ("s", x.arg)
        if env:
            fr.locals.update(env)
        return fr

    def paths(self, env=None):
        out = []
        stack = [[]]
        while stack:
            script = stack.pop()
            P = Path(self, script)
            fr = self._entry(P, env)
            try:
                P.block(self.fn.body, fr)
                P.status, P.ret = "return", NONE
            except _Return as e:
                P.status, P.ret = "return", e.value
            except _Raise:
                P.status = "raise"
            except _LoopCtl:
                P.status = "return"
            P.frame = fr
            out.append(P)
            if len(out) > MAXPATHS:
                raise Unsupported(f"{self.qual}: more than {MAXPATHS} paths")
            for i in range(len(script), len(P.decisions)):
                stack.append(P.decisions[:i] + [not P.decisions[i]])
        return out

    def expect(self, text, env=None):
        """normalised value of a Python expression over the function's parameters, evaluated in the entry state"""
        P = Path(self, [])
        fr = self._entry(P, env)
        v = P.eval(ast.parse(text, mode="eval").body, fr)
        return P.norm(v)


# ---------------------------------------------------------------------------------------------------------------- memory model
def basic_index(P, i, kinds):
    """True: basic indexing (view); False: advanced indexing (copy); None: not known"""
    if i[0] == "c":
        return True if (i[1] is None or i[1] is Ellipsis or isinstance(i[1], int)) and not isinstance(i[1], bool) else None
    if i[0] == "slice":
        return True
    if i[0] == "call" and i[1] == "slice":
        return True
    if i[0] == "tup":
        rs = [basic_index(P, x, kinds) for x in i[1:]]
        if any(r is False for r in rs):
            return False
        return True if all(r is True for r in rs) else None
    if i[0] == "call" and i[1] in ("np.ix_", ".nonzero", "np.arange", "np.flatnonzero", "np.where"):
        return False
    if i[0] == "lst" or i[0] == "ref":
        return False
    if i[0] == "idx" and i[1][0] == "call" and i[1][1] == ".nonzero":
        return False
    if i[0] == "s" and kinds.get(i[1]) in ("index", "mask"):
        return False
    if i[0] == "elem":
        return True
    if i[0] == "op" and i[1] in ("sub", "add") and any(basic_index(P, x, kinds) is False for x in i[2:]):
        return False
    if i[0] == "call" and i[1] in VIEW_CALLS and i[2]:
        r = basic_index(P, i[2][0], kinds)
        if r is False and i[1] != "index2slice":
            return False
    r = P.fact(("truth", ("call", "isinstance", (i, ("g", "slice")), ())))
    if r is True:
        return True
    return None


def mem(P, t, kinds=None):
    """(set of memory roots the value may share storage with, certain) - the empty set is a fresh or immutable value"""
    kinds = kinds if kinds is not None else P.I.kinds
    if not isinstance(t, tuple) or not t:
        return set(), True
    k = t[0]
    if k in ("c", "op", "g", "fn", "slice", "rectype"):
        return set(), True
    if k == "s":
        return ({t} if kinds.get(t[1]) not in ("scalar", "str", "count") else set()), True
    if k == "ref":
        return {t}, True
    if k == "post":
        return mem(P, t[1], kinds)
    if k == "attr":
        if t[2] in ("T", "real", "imag", "flat"):
            return mem(P, t[1], kinds)
        if t[2] in ("shape", "ndim", "size", "dtype"):
            return set(), True
        return {("attr", _unpost(t[1]), t[2])}, True
    if k in ("idx", "ld"):
        b, i = t[1], t[2]
        if P.is_list(b):
            return (set(), True) if i[0] == "slice" else ({("elemof", b)}, True)
        if P.fact(op("is", ("attr", t, "base"), NONE)) is True:
            return set(), True              # owns its data
        o = P.obj(b)
        if (o is not None and o.kind == "dict") or (b[0] == "s" and kinds.get(b[1]) == "dict") or (is_const(i) and isinstance(i[1], str)):
            return {("idx", _unpost(b), i)}, True         # an entry of a container is a memory region of its own
        bi = basic_index(P, i, kinds)
        if bi is False:
            return set(), True
        r, c = mem(P, b, kinds)
        return r, (c and bi is True)
    if k in ("tup", "lst"):
        out, cert = set(), True
        for x in t[1:]:
            r, c = mem(P, x, kinds)
            out |= r
            cert = cert and c
        return out, cert
    if k == "call":
        if t[1] in VIEW_CALLS and t[2]:
            r, c = mem(P, t[2][0], kinds)
            if r and c and t[1] in ALWAYS_VIEW and all(x[0] == "ref" and P.heap[x[1]].kind == "arr" for x in r):
                return r, True          # of an ndarray the path created itself these never copy
            return r, False if r else True
        return set(), True
    if k == "elem":
        return {t}, True
    return set(), True


def _unpost(t):
    return t[1] if isinstance(t, tuple) and t and t[0] == "post" else t


# ---------------------------------------------------------------------------------------------------------------- effects not followed
# A call that was not followed may have written into its arguments.  Rules that conclude something from the *absence* of a store ("never
# assigned", "no update at the replaced rows") ask `unfollowed_writes` first: when such a call received the object (or a view of it, or a
# container that holds it) its content is unknown and the obligation is undecided (exit 2), never a violation.
PURE_MODULES = ("np.", "la.", "math.", "operator.", "copy.", "functools.", "itertools.", "inspect.", "scipy.", "sp.", "warnings.", "contextlib.",
                "types.")
PURE_BUILTINS = _BUILTIN_NAMES - {"setattr", "delattr", "exec", "eval", "next", "vars", "globals", "locals"}
PURE_METHODS = {"sum", "max", "min", "any", "all", "nonzero", "copy", "astype", "reshape", "ravel", "squeeze", "transpose", "view", "tolist", "index",
                "count", "items", "keys", "values", "get", "argmax", "argmin", "mean", "std", "var", "dot", "take", "flatten", "conj", "conjugate",
                "cumsum", "cumprod", "prod", "round", "clip", "join", "format", "split", "strip", "startswith", "endswith", "lower", "upper", "replace",
                "swapaxes", "item", "searchsorted", "repeat", "diagonal", "trace", "ptp", "argsort", "tobytes", "__getitem__", "__len__", "compress",
                "choose", "nanmax", "nanmin", "rjust", "ljust", "center", "title", "encode", "decode", "isdigit", "find", "rfind", "partition_str"}
WRITING_FUNCS = {"np.copyto": (0,), "np.put": (0,), "np.place": (0,), "np.putmask": (0,), "np.fill_diagonal": (0,), "np.put_along_axis": (0,),
                 "setattr": (0,), "delattr": (0,), "np.random.shuffle": (0,)}
OVERWRITE_KW = {"overwrite_a": ("a", 0), "overwrite_b": ("b", 1), "overwrite_x": ("x", 0), "overwrite_ab": ("ab", 1)}


def written_args(e):
    """the argument values an unfollowed call may have written into (empty for calls known to be pure)"""
    name, args, kw = e.name, list(e.args), dict(e.kws)
    out = []
    if kw.get("out") not in (None, NONE):
        o = kw["out"]
        out += list(o[1:]) if o[0] == "tup" else [o]
    for kname, (pname, pos) in OVERWRITE_KW.items():
        v = kw.get(kname)
        if v is not None and not (is_const(v) and not v[1]):
            a = args[pos] if len(args) > pos else kw.get(pname)
            if a is not None:
                out.append(a)
    if name in WRITING_FUNCS:
        out += [args[i] for i in WRITING_FUNCS[name] if i < len(args)]
    elif name.startswith("np.") and name.endswith(".at") and args:
        out.append(args[0])                                     # np.add.at(a, idx, v)
    elif name.startswith("."):
        if name[1:] not in PURE_METHODS:
            recv_known_array = name in (".sort", ".fill", ".resize", ".put", ".itemset", ".partition", ".byteswap", ".setfield", ".setflags")
            out += args[:1] if recv_known_array else args + list(kw.values())
    elif name.startswith(PURE_MODULES) or name in PURE_BUILTINS or name in ("SimpleNamespace", "slice", "getattr_fn"):
        pass
    else:
        out += args + list(kw.values())                         # a function of the package (or a value) that was not followed
    return out


def _reach(P, t, depth=0):
    """memory roots reachable from a value: its own storage and, for containers / namespaces created on the path, what they hold"""
    roots, _ = mem(P, t)
    roots = set(roots)
    o = P.obj(t) if isinstance(t, tuple) and t and t[0] == "ref" else None
    if o is not None and depth < 3:
        for v in list(o.fields.values()) + list(o.items.values()) + list(o.content.values()):
            if isinstance(v, tuple):
                roots |= _reach(P, v, depth + 1)
        if o.proto is not None and isinstance(o.proto, tuple) and o.proto and o.proto[0] != "deep":
            roots |= _reach(P, o.proto, depth + 1)
    if isinstance(t, tuple) and t and t[0] in ("tup", "lst"):
        for x in t[1:]:
            roots |= _reach(P, x, depth + 1)
    return roots


def unfollowed_writes(P, t, since=0, family=False, pure=()):
    """the unfollowed calls on the path that may have written into the storage of value t (with family=True also into a member or a view
    of a member of t: `helper(t.x[:, k])`)"""
    mine, _ = mem(P, t)
    nt = P.norm(t)
    hits = []
    for e in P.events:
        if e.kind != "call" or e.seq < since or e.name in pure:
            continue
        for a in written_args(e):
            if not isinstance(a, tuple) or not a:
                continue
            if (mine & _reach(P, a)) or a == t or (family and _contains(P.norm(a), nt)):
                hits.append(e)
                break
    return hits


def _contains(t, x):
    if t == x:
        return True
    if not isinstance(t, tuple) or not t or t[0] in ("c", "s", "g", "fn"):
        return False
    if t[0] == "call":
        return any(_contains(a, x) for a in t[2]) or any(_contains(v, x) for _, v in t[3])
    return any(_contains(a, x) for a in t[1:] if isinstance(a, tuple))


def free_syms(t, out=None):
    out = set() if out is None else out
    if isinstance(t, tuple) and t:
        if t[0] == "s":
            out.add(t[1])
        elif t[0] == "call":
            for a in t[2]:
                free_syms(a, out)
            for _, v in t[3]:
                free_syms(v, out)
        elif t[0] not in ("c", "g", "fn"):
            for a in t[1:]:
                if isinstance(a, tuple):
                    free_syms(a, out)
    return out


def show(t, _d=0):
    """readable text of a (normalised) term"""
    if not isinstance(t, tuple) or not t:
        return repr(t)
    if _d > 12:
        return "..."
    k = t[0]
    s = lambda x: show(x, _d + 1)  # noqa
    if k == "c":
        return repr(t[1])
    if k in ("s", "g"):
        return t[1]
    if k == "op":
        sym = {"add": "+", "sub": "-", "mul": "*", "div": "/", "matmul": "@", "gt": ">", "ge": ">=", "eq": "==", "is": " is ", "or_": "|",
               "and_": "&", "in": " in "}.get(t[1])
        if sym and len(t) == 4:
            return f"({s(t[2])}{sym}{s(t[3])})"
        return f"{t[1]}({', '.join(s(x) for x in t[2:])})"
    if k == "call":
        return f"{t[1]}({', '.join([s(x) for x in t[2]] + [f'{a}={s(v)}' for a, v in t[3]])})"
    if k == "attr":
        return f"{s(t[1])}.{t[2]}"
    if k in ("idx", "ld"):
        return f"{s(t[1])}[{s(t[2])}]"
    if k == "tup":
        return "(" + ", ".join(s(x) for x in t[1:]) + ")"
    if k == "lst":
        return "[" + ", ".join(s(x) for x in t[1:]) + "]"
    if k == "slice":
        return ":".join("" if x == NONE else s(x) for x in t[1:])
    if k == "new":
        return f"new<{s(t[2])}>"
    if k == "elem":
        return f"elem({s(t[1])})"
    if k == "post":
        return f"{s(t[1])}'"
    if k == "ref":
        return f"#{t[1]}"
    return str(t)
