"""C01 break / neutral recipes of pass 5 (C01-R13, overflow safety of the closed-form coefficients).  The breaks are all *mathematically identical* to the
code they replace (so the exact-algebra identities of C01-R1 are rightly silent): they differ only in evaluating exp / cosh / sinh of a quantity that is
positive and unbounded in h (w h, beta h, -lambda h) before it is damped by a decaying factor - inf * 0 / inf - inf for heavily damped modes with a coarse
step.  The neutrals keep every exponential argument <= 0 under the regime's facts (or use the overflowing value only as a divisor).  Imported by
recipes_c01.py."""

U = "pyyeti/ode/_utilities.py"
S = "pyyeti/ode/solveunc.py"

OVER = ("            ecosh = (np.exp(-h * (beta - w)) + np.exp(-h * (beta + w))) / 2.0\n"
        "            esinh = (np.exp(-h * (beta - w)) - np.exp(-h * (beta + w))) / 2.0\n")
CRIT_EX = "            beta = C[pvcrit]\n            ex = np.exp(-beta * h)\n"
UNDR_EX = "            beta = C[pvundr]\n            ex = np.exp(-beta * h)\n"
RBD_EX = "        ex = np.exp(-beta * h)\n        if pvdisp.size:"
FE = "        Fe = np.exp(lam * h)\n"

R13 = ["C01-R13"]

RECIPES5 = [
    ("C01", "break", R13, U, OVER,
     "            ex = np.exp(-h * beta)\n            ecosh = ex * np.cosh(w * h)\n            esinh = ex * np.sinh(w * h)\n",
     "round-5 seed L: exp(-beta h) factored out of cosh(w h) / sinh(w h) (0 * inf for w h > 710)"),
    ("C01", "break", R13, U, OVER,
     "            ep = np.exp(w * h)\n            em = np.exp(-w * h)\n            ex = np.exp(-h * beta)\n"
     "            ecosh = ex * (ep + em) / 2.0\n            esinh = ex * (ep - em) / 2.0\n",
     "sibling of seed L: np.exp(w * h) as a factor of its own"),
    ("C01", "break", R13, U, OVER,
     "            hw = h * w\n            decay = np.exp(-beta * h)\n            ecosh = np.cosh(hw) * decay\n            esinh = np.sinh(hw) * decay\n",
     "sibling of seed L: argument through a temporary, factors swapped"),
    ("C01", "break", R13, U, OVER,
     "            ecosh = (np.exp(h * (w - beta)) + np.exp(-h * (beta + w))) / 2.0\n"
     "            esinh = np.exp(-h * (beta + w)) * (np.exp(2 * h * w) - 1.0) / 2.0\n",
     "sibling of seed L: exp(2 w h) - 1 scaled by the fast-decaying exponential"),
    ("C01", "break", R13, U, CRIT_EX,
     "            beta = C[pvcrit]\n            ex = np.cosh(beta * h) - np.sinh(beta * h)\n",
     "critical branch: exp(-beta h) spelled cosh(beta h) - sinh(beta h) (inf - inf)"),
    ("C01", "break", R13, U, RBD_EX,
     "        ex = np.cosh(beta * h) - np.sinh(beta * h)\n        if pvdisp.size:",
     "damped rigid-body branch: exp(-beta h) spelled cosh(beta h) - sinh(beta h)"),
    ("C01", "break", R13, S, FE,
     "        Fe = np.cosh(lam * h) + np.sinh(lam * h)\n",
     "complex path: exp(lambda h) spelled cosh + sinh (inf - inf for Re(lambda) h < -710)"),
    ("C01", "neutral", [], U, OVER,
     "            ecosh = (np.exp(-(beta - w) * h) + np.exp(-(beta + w) * h)) / 2.0\n"
     "            esinh = (np.exp(-(beta - w) * h) - np.exp(-(beta + w) * h)) / 2.0\n",
     "exp(-h (beta - w)) spelled exp(-(beta - w) h)"),
    ("C01", "neutral", [], U, OVER,
     "            slow = beta - w\n            fast = beta + w\n            ep = np.exp(-h * slow)\n            em = np.exp(-fast * h)\n"
     "            ecosh = 0.5 * (ep + em)\n            esinh = 0.5 * (ep - em)\n",
     "the two decaying exponentials through temporaries"),
    ("C01", "neutral", [], U, OVER,
     "            ep = np.exp(h * (w - beta))\n            em = ep * np.exp(-2 * h * w)\n"
     "            ecosh = (ep + em) / 2.0\n            esinh = (ep - em) / 2.0\n",
     "the fast exponential as the slow one times exp(-2 w h): every argument still <= 0"),
    ("C01", "neutral", [], U, OVER,
     "            ecosh = (np.expm1(-h * (beta - w)) + np.expm1(-h * (beta + w)) + 2.0) / 2.0\n"
     "            esinh = (np.expm1(-h * (beta - w)) - np.expm1(-h * (beta + w))) / 2.0\n",
     "np.expm1 of the non-positive arguments"),
    ("C01", "neutral", [], U, UNDR_EX,
     "            beta = C[pvundr]\n            ex = 1.0 / np.exp(beta * h)\n",
     "under-damped: exp(-beta h) as the reciprocal of exp(beta h) (1 / inf = 0 is the correctly rounded value)"),
    ("C01", "neutral", [], U, CRIT_EX,
     "            beta = C[pvcrit]\n            ex = np.exp(-(h * beta))\n",
     "critical: product negated as a whole"),
    ("C01", "neutral", [], S, FE,
     "        lamh = h * lam\n        Fe = np.exp(lamh)\n",
     "complex path: lambda h through a temporary"),
]
