"""Value-level evaluation of pyyeti/nastran/op4.py for the C04 rules (built on e2_eval.AutoEvaluator; text / record values in c04_txt.py).

`OP4Eval` evaluates a function of the module on symbols and follows every function of the module (methods through `self.` / `OP4.`,
module-level helpers, functions nested in the analysed function and passed around as arguments, generators consumed by a `for`), so
extracted or inlined helpers, renamed locals, temporaries, inverted tests, early returns, `continue` guards and the choice between
f-strings / `%` / `str.format` do not change any value.  What a writer emits (`f.write(...)`) is recorded as `Txt` lines and `struct`
items together with the loop frames it was emitted in; a reader is evaluated on exactly those lines / items (`readline`, `read`,
`unpack`, `np.fromfile`), so rules compare what the reader recovers with what the writer was given.

Tests are decided by value: constants, intervals of bounded symbols (`World.bounds`: a regime such as rows in [1, 65535]; a comparison
that splits a regime raises `NeedSplit` and the driver evaluates both halves) and a scenario oracle for opaque predicates
(`isinstance(matrix, np.ndarray)`, `np.iscomplexobj(..)`, ...).  Nothing is executed, sampled or solved."""
from __future__ import annotations

import ast
import builtins
from fractions import Fraction

from . import e2_formula as F
from . import op4_model as M
from .core import Unsupported
from .e1_srcmodel import dotted
from .e2_eval import AutoEvaluator, Unknown, is_unknown, DictValue, const_from_node
from .sem import unfn
from .c04_txt import (Bad, is_bad, is_rat, single_atom, atom_id, sym_name, strconst, const_int, Lit, Fld, Txt, PosV, as_txt, percent_format, strish,
                      make_field, brace_format, Star, PackV, StructV, BoundV, DtypeV, BytesV, Stream, Item, parse_struct, pack_items, unpack_items,
                      CODE_SIZE)


MAX_DEPTH = 14


class NeedSplit(Exception):
    """a comparison of a splittable bounded symbol with a constant is not decided inside the current regime"""

    def __init__(self, aid, x0):
        super().__init__(f"split {F.atom_desc(aid)} at {x0}")
        self.aid, self.x0 = aid, x0


class UnsupportedValue(Unsupported):
    """an Unknown / Bad value met where a formula is needed: carries the value, so that a provable failure (Bad) is not diluted into Unknown"""

    def __init__(self, v):
        super().__init__(v.why)
        self.value = v


def lost(e):
    """the value an `except Unsupported` clause hands on"""
    v = getattr(e, "value", None)
    return v if is_bad(v) else Unknown(str(e))


class PyRaise(Exception):
    """the evaluated code raises a Python exception the evaluator can predict (unpacking a constant): caught by an enclosing `try`"""

    def __init__(self, kind):
        super().__init__(kind)
        self.kind = kind


class SliceV:
    def __init__(self, lo, hi, step=None):
        self.lo, self.hi, self.step = lo, hi, step

    def __repr__(self):
        return f"slice({self.lo!r}, {self.hi!r})"


class SeqV:
    """the list a comprehension builds over a sequence of unknown length: one generic element, the number of elements, the sequence iterated"""

    def __init__(self, elem, count, iterable):
        self.elem, self.count, self.iterable = elem, count, iterable

    def __repr__(self):
        return f"[{self.elem!r} x {self.count!r}]"


class FuncV:
    def __init__(self, fn, closure=None, qual=None):
        self.fn, self.closure, self.qual = fn, closure, qual or getattr(fn, "_vqual", fn.name)

    def __repr__(self):
        return f"<func {self.qual}>"


class NTup(tuple):
    """a namedtuple instance: a tuple whose entries can also be read by field name"""
    fields = ()

    @staticmethod
    def make(values, fields):
        t = NTup(values)
        t.fields = tuple(fields)
        return t


def record_types(mod):
    """record types defined at module level: `X = namedtuple("X", "a b c")` / `NamedTuple("X", [("a", int), ...])`, `class X(NamedTuple)` and
    `@dataclass class X` with annotated fields -> {name: (kind, [field names], {field: default expression})}"""
    out = {}
    for st in mod.tree.body:
        if isinstance(st, ast.Assign) and len(st.targets) == 1 and isinstance(st.targets[0], ast.Name) and isinstance(st.value, ast.Call):
            fn = (dotted(st.value.func) or "").split(".")[-1]
            a = st.value.args
            if fn in ("namedtuple", "NamedTuple") and len(a) >= 2:
                spec = a[1]
                names = None
                if isinstance(spec, ast.Constant) and isinstance(spec.value, str):
                    names = spec.value.replace(",", " ").split()
                elif isinstance(spec, (ast.List, ast.Tuple)):
                    names = []
                    for e in spec.elts:
                        if isinstance(e, ast.Constant) and isinstance(e.value, str):
                            names.append(e.value)
                        elif isinstance(e, (ast.Tuple, ast.List)) and e.elts and isinstance(e.elts[0], ast.Constant) and isinstance(e.elts[0].value, str):
                            names.append(e.elts[0].value)
                        else:
                            names = None
                            break
                if names:
                    dflt = {}
                    for k in st.value.keywords:
                        if k.arg == "defaults" and isinstance(k.value, (ast.List, ast.Tuple)):
                            dflt = dict(zip(names[::-1], k.value.elts[::-1]))
                    out[st.targets[0].id] = ("tuple", names, dflt)
        elif isinstance(st, ast.ClassDef):
            bases = [(dotted(b) or "").split(".")[-1] for b in st.bases]
            decos = [(dotted(d.func if isinstance(d, ast.Call) else d) or "").split(".")[-1] for d in st.decorator_list]
            if "NamedTuple" in bases or "dataclass" in decos:
                names, dflt = [], {}
                for x in st.body:
                    if isinstance(x, ast.AnnAssign) and isinstance(x.target, ast.Name):
                        names.append(x.target.id)
                        if x.value is not None:
                            dflt[x.target.id] = x.value
                if names and not any(isinstance(x, (ast.FunctionDef, ast.AsyncFunctionDef)) and x.name in ("__init__", "__new__", "__post_init__") for x in st.body):
                    out[st.name] = ("tuple" if "NamedTuple" in bases else "record", names, dflt)
    return out


class TypedArr:
    """an array converted to a stated dtype (np.asarray(x, dtype), x.astype(dtype)): the values of `arr` as items of struct code `code`"""

    def __init__(self, arr, code, order):
        self.arr, self.code, self.order = arr, code, order

    def __repr__(self):
        return f"<{self.arr!r} as {self.code}>"


class PartialV:
    """functools.partial(callee, *pos, **kw)"""

    def __init__(self, callee, pos, kw):
        self.callee, self.pos, self.kw = callee, list(pos), dict(kw)

    def __repr__(self):
        return f"<partial {self.callee!r}>"


class BufV:
    """io.StringIO() / io.BytesIO(): what has been written into it so far (immutable: a write rebinds the name that holds the buffer)"""

    def __init__(self, binary, parts=()):
        self.binary, self.parts = binary, tuple(parts)

    def __repr__(self):
        return f"<buffer {list(self.parts)!r}>"


class RepTxtV:
    """prefix + body * count + suffix with a count that is not a constant (a format template repeated once per value of a line)"""

    def __init__(self, body, count, prefix=None, suffix=None):
        self.body, self.count, self.prefix, self.suffix = body, count, prefix or Txt(), suffix or Txt()

    def __repr__(self):
        return f"<{self.prefix!r} + {self.body!r} * {self.count!r} + {self.suffix!r}>"


class GetterV:
    """operator.itemgetter(k) / attrgetter("a") / methodcaller("m", ...): a callable that applies that access to its argument"""

    def __init__(self, kind, arg):
        self.kind, self.arg = kind, arg

    def __repr__(self):
        return f"<{self.kind}getter {self.arg!r}>"


class Frame:
    def __init__(self, node, iterable, elems, kind):
        self.node, self.iterable, self.elems, self.kind = node, iterable, elems, kind
        self.index = None          # the symbol that counts the iterations (range loops: the element itself; enumerate: its first component)
        self.rows_of = None        # `for k in range(len(X))`: X
        self.row_elems = None      # ... and what `a, b = X[k]` bound in the body: the generic row of X

    def __repr__(self):
        return f"<{self.kind} {self.elems!r} in {self.iterable!r}>"


class Emit:
    def __init__(self, recv, value, frames, node, qual):
        self.recv, self.value, self.frames, self.node, self.qual = recv, value, frames, node, qual

    def __repr__(self):
        return f"emit[{len(self.frames)}]{self.value!r}"


def local_names(fn):
    """names the function binds anywhere in its own scope (Python makes them local): parameters, assignment / loop / with / import targets, nested defs"""
    got = getattr(fn, "_vlocals", None)
    if got is not None:
        return got
    out = set()
    a = fn.args
    for x in a.posonlyargs + a.args + a.kwonlyargs:
        out.add(x.arg)
    if a.vararg:
        out.add(a.vararg.arg)
    if a.kwarg:
        out.add(a.kwarg.arg)
    stack = list(fn.body)
    while stack:
        n = stack.pop()
        if isinstance(n, (ast.FunctionDef, ast.AsyncFunctionDef, ast.ClassDef)):
            out.add(n.name)
            continue
        if isinstance(n, ast.Lambda):
            continue
        if isinstance(n, ast.Name) and isinstance(n.ctx, (ast.Store, ast.Del)):
            out.add(n.id)
        elif isinstance(n, (ast.Import, ast.ImportFrom)):
            for al in n.names:
                out.add((al.asname or al.name).split(".")[0])
        elif isinstance(n, (ast.ListComp, ast.SetComp, ast.DictComp, ast.GeneratorExp)):
            continue
        stack.extend(ast.iter_child_nodes(n))
    fn._vlocals = out
    return out


def import_names(fn):
    """names an import statement inside the function binds (modules and imported objects: called by their dotted name, like module-level imports)"""
    got = getattr(fn, "_vimports", None)
    if got is None:
        got = set()
        for n in ast.walk(fn):
            if isinstance(n, (ast.Import, ast.ImportFrom)):
                for al in n.names:
                    got.add((al.asname or al.name).split(".")[0])
        fn._vimports = got
    return got


def plainly_bound(fn, name):
    """is `name` bound in fn only by statements the evaluator carries out in program order (assignments, loop / with / walrus targets, nested defs)
    and not by a parameter, import, global / nonlocal declaration, del, except-as or match capture?"""
    a = fn.args
    if any(x.arg == name for x in a.posonlyargs + a.args + a.kwonlyargs) or (a.vararg and a.vararg.arg == name) or (a.kwarg and a.kwarg.arg == name):
        return False
    stack = list(fn.body)
    while stack:
        n = stack.pop()
        if isinstance(n, (ast.FunctionDef, ast.AsyncFunctionDef, ast.ClassDef)):
            if isinstance(n, ast.ClassDef) and n.name == name:
                return False
            continue
        if isinstance(n, (ast.Lambda, ast.ListComp, ast.SetComp, ast.DictComp, ast.GeneratorExp)):
            continue
        if isinstance(n, (ast.Import, ast.ImportFrom)) and any((al.asname or al.name).split(".")[0] == name for al in n.names):
            return False
        if isinstance(n, (ast.Global, ast.Nonlocal)) and name in n.names:
            return False
        if isinstance(n, ast.ExceptHandler) and n.name == name:
            return False
        if isinstance(n, ast.Name) and n.id == name and isinstance(n.ctx, ast.Del):
            return False
        if isinstance(n, (ast.MatchAs, ast.MatchStar)) and n.name == name:
            return False
        if isinstance(n, ast.MatchMapping) and n.rest == name:
            return False
        if isinstance(n, (ast.Try, ast.AsyncFor, ast.AsyncWith)):
            # bound inside a try block (a handler may or may not run) or an async statement: not decided here
            if any(isinstance(x, ast.Name) and x.id == name and isinstance(x.ctx, ast.Store) for x in ast.walk(n)):
                return False
        stack.extend(ast.iter_child_nodes(n))
    return True


def is_generator(fn):
    stack = list(fn.body)
    while stack:
        n = stack.pop()
        if isinstance(n, (ast.Yield, ast.YieldFrom)):
            return True
        if isinstance(n, (ast.FunctionDef, ast.AsyncFunctionDef, ast.Lambda, ast.ClassDef)):
            continue
        stack.extend(ast.iter_child_nodes(n))
    return False


def const_expr_ok(node):
    """an expression made of literals, names, arithmetic and slice / int / len / float calls: a constant wherever it is bound (module or class level)"""
    for x in ast.walk(node):
        if isinstance(x, ast.Call):
            if not (isinstance(x.func, ast.Name) and x.func.id in ("slice", "int", "len", "float")):
                return False
        elif not isinstance(x, (ast.Constant, ast.Tuple, ast.List, ast.Dict, ast.Name, ast.UnaryOp, ast.unaryop, ast.expr_context, ast.BinOp,
                                ast.operator, ast.Attribute)):
            return False
    return True


def module_consts(mod):
    """module-level names bound once to a literal / slice(..) / arithmetic of literals"""
    count, val = {}, {}
    for st in mod.tree.body:
        tg = []
        if isinstance(st, ast.Assign):
            tg = st.targets
        elif isinstance(st, (ast.AnnAssign, ast.AugAssign)):
            tg = [st.target]
        for t in tg:
            for x in ast.walk(t):
                if isinstance(x, ast.Name):
                    count[x.id] = count.get(x.id, 0) + 1
        if isinstance(st, (ast.Assign, ast.AnnAssign)) and len(tg) == 1 and isinstance(tg[0], ast.Name) and getattr(st, "value", None) is not None:
            if const_expr_ok(st.value):
                val[tg[0].id] = st.value
    return {k: v for k, v in val.items() if count.get(k) == 1}


def class_chain(mod, cls):
    """the class and the classes of the same module it inherits from, in method-resolution order (depth first, left to right)"""
    out, work = [], [cls]
    while work:
        c = work.pop(0)
        cdef = mod.classes.get(c)
        if cdef is None or c in out:
            continue
        out.append(c)
        work[0:0] = [dotted(b) for b in cdef.bases if dotted(b) in mod.classes]
    return out


def func_of(ctx, qual, rel=M.OP4):
    """the function `qual` of the module; a method `OP4.name` is also looked for in OP4's base classes defined in the same module"""
    mod = ctx.src.mod(rel)
    if qual not in mod.funcs and "." in qual:
        cls, name = qual.split(".", 1)
        for c in class_chain(mod, cls)[1:]:
            if f"{c}.{name}" in mod.funcs:
                return ctx.src.func(rel, f"{c}.{name}")
    return ctx.src.func(rel, qual)


class World:
    """everything the evaluators of one run share"""

    def __init__(self, ctx, rel=M.OP4, cls="OP4"):
        self.ctx = ctx
        self.mod = ctx.src.mod(rel)
        self.cls = cls
        self.table = {}
        chain = self.chain = class_chain(self.mod, cls)
        for q, f in self.mod.funcs.items():
            if "#" in q:
                continue
            if "." not in q:
                self.table[q] = f
        for c in reversed(chain):            # the class itself last: it overrides what it inherits
            for q, f in self.mod.funcs.items():
                if "#" not in q and q.startswith(c + ".") and q.count(".") == 1:
                    nm = q.split(".", 1)[1]
                    self.table["self." + nm] = f
                    self.table[cls + "." + nm] = f
                    self.table[c + "." + nm] = f
        self.consts = module_consts(self.mod)
        self.module_names = set()
        for st_ in self.mod.tree.body:
            for x in ast.walk(st_) if not isinstance(st_, (ast.FunctionDef, ast.AsyncFunctionDef, ast.ClassDef)) else [st_]:
                if isinstance(x, (ast.FunctionDef, ast.AsyncFunctionDef, ast.ClassDef)):
                    self.module_names.add(x.name)
                elif isinstance(x, ast.Name) and isinstance(x.ctx, ast.Store):
                    self.module_names.add(x.id)
                elif isinstance(x, (ast.Import, ast.ImportFrom)):
                    for al in x.names:
                        self.module_names.add((al.asname or al.name).split(".")[0])
        static = getattr(self.mod, "_c04_static", None)
        if static is None:
            # facts about the module text that every world shares (computed once per module object)
            imports, star = set(), False
            for st_ in ast.walk(self.mod.tree):
                if isinstance(st_, (ast.Import, ast.ImportFrom)):
                    for al in st_.names:
                        imports.add((al.asname or al.name).split(".")[0])
                        star = star or (isinstance(st_, ast.ImportFrom) and al.name == "*")
            static = (record_types(self.mod), star, imports)
            try:
                self.mod._c04_static = static
            except Exception:  # noqa
                pass
        self.records, self.star_import, self.imports = static
        # what the names bound by the module's import statements stand for: {"it": "itertools", "accumulate": "itertools.accumulate", ...}
        self.alias = {}
        for st_ in self.mod.tree.body:
            if isinstance(st_, ast.Import):
                for al in st_.names:
                    if al.asname:
                        self.alias[al.asname] = al.name
            elif isinstance(st_, ast.ImportFrom) and st_.module and not st_.level:
                for al in st_.names:
                    if al.name != "*":
                        self.alias[al.asname or al.name] = st_.module + "." + al.name
        self.class_consts = {}
        for c in reversed(chain):
            cdef = self.mod.classes.get(c)
            cnt, got = {}, {}
            for st_ in cdef.body:
                if isinstance(st_, ast.Assign) and len(st_.targets) == 1 and isinstance(st_.targets[0], ast.Name):
                    cnt[st_.targets[0].id] = cnt.get(st_.targets[0].id, 0) + 1
                    if const_expr_ok(st_.value):
                        got[st_.targets[0].id] = st_.value
            self.class_consts.update({k: v for k, v in got.items() if cnt.get(k) == 1})
        self.opaque = set()          # table keys (or bare method names) that are not followed
        self.pinned = {}             # dotted name -> value: assignments to it are ignored
        self.state = {}              # initial self.* attribute values
        self.emits = []
        self.calls = []              # (callee: str name | Rat value | FuncV, pos, kw, node, frames)
        self.compares = []           # (node, op name, lhs, rhs, qual)
        self.whiles = []             # (node, test value, qual)
        self.stores = []             # (base value, index value, stored value, node)
        self.undecided = []          # (node, value, qual)
        self.forks = []              # undecided tests whose arms were found interchangeable
        self.misreads = []           # Bad values met while reading: the reader cut across what the writer emitted
        self.raises = []             # (node, qual)
        self.frames = []
        self.nframes = 0
        self.bounds = {}             # atom id -> (lo, hi): int / Fraction / Rat / None
        self.splittable = set()      # atom ids whose regime may be split
        self.value_oracle = None     # callable(value, world) -> True / False / None for opaque predicates
        self.none_syms = set()       # names of plain symbols that are None in this scenario
        self.shape_of = {}           # atom id -> (rows value, cols value)
        self.lines = None            # scripted text lines for readline(): list of Txt
        self.lines_i = 0
        self.stream = None           # Stream for read()
        self.small = {}              # int_binop table: {repr(value): bits}
        self.mult = F.const(1)       # reals per matrix entry in this scenario (2 for complex input)
        self.notes = []
        self.fresh = 0
        self.txt_lens = []           # (Txt, value of its len()) for texts of unknown length
        # lowering gaps: constructs of the analysed functions the evaluator skipped or dropped (a statement kind it does not know, a write whose
        # value it could not build, effects under a test it could not decide).  Shared by all worlds of one checker run (kept on the context):
        # while a gap is open no rule reports a violation, only "not decided" (verifier/c04.py: guarded)
        if getattr(ctx, "_c04_gaps", None) is None:
            ctx._c04_gaps = []
        self.gaps = ctx._c04_gaps
        self.own_gaps = []           # ... those met in this world (a rule downgrades only what it derived from a world with a gap)
        self.crashes = []            # (node, why, qual): statements that provably raise on the evaluated path (unbound local, str - str, ...)

    def gap(self, node, why, qual=None):
        if self.misreads or self.crashes:
            # the evaluation already met a provable failure in this world (a read that cuts a field, a statement that raises): what it
            # cannot follow afterwards is a consequence of that failure, which is reported - not a hole of its own
            return
        try:
            where = self.ctx.src.where(node) if node is not None and hasattr(node, "lineno") else (qual or "")
        except Exception:  # noqa
            where = qual or ""
        item = (where, why)
        if item not in self.gaps:
            self.gaps.append(item)
        if item not in self.own_gaps:
            self.own_gaps.append(item)

    def crash(self, node, why, qual=None):
        try:
            where = self.ctx.src.where(node) if node is not None and hasattr(node, "lineno") else (qual or "")
        except Exception:  # noqa
            where = qual or ""
        if not any(w == where and y == why for _n, y, w in self.crashes):
            self.crashes.append((node, why, where))

    # ---- bounds
    def bound(self, v, lo, hi, split=False):
        a = atom_id(v)
        if a is None:
            raise Unsupported(f"bound on a non-atomic value {v!r}")
        self.bounds[a] = (lo, hi)
        if split:
            self.splittable.add(a)

    def is_opaque(self, key):
        return key in self.opaque or key.split(".")[-1] in self.opaque

    def reset_trace(self):
        self.emits, self.calls, self.compares, self.whiles, self.stores, self.undecided, self.raises = [], [], [], [], [], [], []
        self.frames, self.nframes, self.lines_i, self.forks, self.misreads = [], 0, 0, [], []


def wrap(v):
    """a Rat standing for any value (argument of an opaque application)"""
    if is_rat(v):
        return v
    if v is None:
        return F.sym("None")
    if isinstance(v, tuple):
        return F.fn("tuple", *[wrap(x) for x in v])
    if isinstance(v, Txt):
        return v.atom()
    if isinstance(v, SliceV):
        return F.fn("slice", wrap(v.lo), wrap(v.hi), wrap(v.step))
    if isinstance(v, FuncV):
        return F.sym(f"<func {v.qual}>")
    if isinstance(v, StructV):
        return F.fn("struct", v.fmt.atom())
    if isinstance(v, BoundV):
        return F.fn("struct." + v.which, v.st.fmt.atom())
    if isinstance(v, DtypeV):
        return F.fn("dtype", v.fmt.atom())
    if isinstance(v, Star):
        return F.fn("star", wrap(v.v))
    if isinstance(v, GetterV):
        return F.sym(f"<{v.kind}getter>")
    if isinstance(v, PartialV):
        return F.fn("partial", wrap(v.callee), *[wrap(x) for x in v.pos], *[F.fn("kw:" + k, wrap(x)) for k, x in sorted(v.kw.items())])
    if isinstance(v, TypedArr):
        return F.fn("astype", wrap(v.arr), F.sym(repr(v.code)))
    if isinstance(v, DictValue):
        return F.fn("record", *[F.fn("kw:" + str(k), wrap(x)) for k, x in sorted(v.d.items(), key=lambda kv: str(kv[0]))])
    if isinstance(v, SeqV):
        return F.fn("seqv", wrap(v.elem), wrap(v.count))
    if isinstance(v, PackV):
        return F.fn("packed", *[wrap(it.value) if it.value is not None else F.sym("pad") for it in v.items])
    if isinstance(v, BytesV):
        return F.fn("bytes", *[wrap(it.value) if it.value is not None else F.sym("pad") for it in v.items])
    if is_unknown(v):
        raise UnsupportedValue(v)
    raise Unsupported(f"value {type(v).__name__} inside an opaque application")


def same_value(a, b):
    if a is None or b is None:
        return a is None and b is None
    if is_unknown(a) or is_unknown(b):
        return False
    if is_rat(a) and is_rat(b):
        try:
            return a.equals(b)
        except Unsupported:
            return False
    if isinstance(a, tuple) and isinstance(b, tuple):
        return len(a) == len(b) and all(same_value(x, y) for x, y in zip(a, b))
    if isinstance(a, Txt) and isinstance(b, Txt):
        return a.same(b)
    if isinstance(a, FuncV) and isinstance(b, FuncV):
        return a.fn is b.fn
    if type(a) is not type(b):
        return False
    try:
        return wrap(a).equals(wrap(b))
    except Unsupported:
        return a is b


TRUE, FALSE, NONE = F.sym("True"), F.sym("False"), F.sym("None")
CMP_NEG = {"Eq": "NotEq", "NotEq": "Eq", "Lt": "GtE", "GtE": "Lt", "Gt": "LtE", "LtE": "Gt", "Is": "IsNot", "IsNot": "Is", "In": "NotIn", "NotIn": "In"}


def negate(v):
    """the value of `not v` for a test value: comparisons are complemented, `not x` unwrapped"""
    if not is_rat(v):
        return v
    if sym_name(v) in ("True", "False"):
        return FALSE if sym_name(v) == "True" else TRUE
    u = unfn(v)
    if u is not None:
        if u[0].startswith("cmp:") and u[0][4:] in CMP_NEG and len(u[1]) == 2:
            return F.fn("cmp:" + CMP_NEG[u[0][4:]], u[1][0], u[1][1])
        if u[0] == "not" and len(u[1]) == 1:
            return u[1][0]
    return F.fn("not", v)


def boolv(b):
    return TRUE if b else FALSE


CMP_NAMES = {ast.Eq: "Eq", ast.NotEq: "NotEq", ast.Lt: "Lt", ast.LtE: "LtE", ast.Gt: "Gt", ast.GtE: "GtE", ast.Is: "Is", ast.IsNot: "IsNot",
             ast.In: "In", ast.NotIn: "NotIn"}


class OP4Eval(AutoEvaluator):
    def __init__(self, fn, world, env=None, qual=None, depth=0):
        super().__init__(fn, env=env, src=world.ctx.src, binop=None)
        self.W = world
        self.fn = fn
        self.qual = qual or (getattr(fn, "_vqual", None) if fn is not None else "?")
        if fn is not None and getattr(fn, "_vqual", None):
            world.ctx.src.funcs_consulted.add(f"{world.mod.rel}:{fn._vqual}")
        self.depth = depth
        self.buffers = set()
        self.loopctl = None
        self.on_yield = None
        self.in_try = 0
        self.locals = local_names(fn) if fn is not None else set()
        self.alts = []              # early returns of undecided arms: (value, input position, test value the return happens under or None)
        self.retval = None
        self.raised = False

    # ------------------------------------------------------------------------------------------------ intervals and truth
    def rng(self, v, depth=0):
        """(min, max) of a value that is affine in bounded atoms; None = unbounded.  A bound that is itself a formula (column < cols) is
        substituted, so correlated bounds are exact"""
        if not is_rat(v) or not v.d.is_const():
            return None, None
        return self._ext(v, False, depth), self._ext(v, True, depth)

    def _ext(self, v, want_max, depth):
        sc = 1 / v.d.const_value()
        tot = Fraction(0)
        sub = {}
        for m, c in v.n.t.items():
            c = c * sc
            if m == ():
                tot += c
                continue
            if len(m) != 1 or m[0][1] != 1:
                return None
            b = self.W.bounds.get(m[0][0])
            if b is None:
                return None
            bd = b[1] if (c > 0) == want_max else b[0]
            if bd is None:
                return None
            if is_rat(bd):
                sub[m[0][0]] = bd
            else:
                tot += c * bd
        if not sub:
            return tot
        if depth >= 4:
            return None
        # substitute the symbolic bounds and bound the result
        rest = F.const(0)
        for m, c in v.n.t.items():
            if m != () and m[0][0] in sub:
                rest = rest + sub[m[0][0]] * (c * sc)
            elif m != ():
                rest = rest + F.Rat(F.Poly({m: c * sc}))
            else:
                rest = rest + F.const(c * sc)
        if not rest.d.is_const():
            return None
        return self._ext(rest, want_max, depth + 1)

    def _maybe_split(self, d):
        """d = s * X + k with X a splittable atom: ask the driver to split X's regime at the root"""
        if not is_rat(d) or not d.d.is_const():
            return
        sc = 1 / d.d.const_value()
        k = Fraction(0)
        xs = []
        for m, c in d.n.t.items():
            if m == ():
                k = k + c * sc
            elif len(m) == 1 and m[0][1] == 1:
                bb = self.W.bounds.get(m[0][0])
                if bb is not None and m[0][0] not in self.W.splittable and bb[0] is not None and bb[0] == bb[1] and not is_rat(bb[0]):
                    k = k + c * sc * bb[0]
                else:
                    xs.append((m[0][0], c * sc))
            else:
                return
        if len(xs) != 1 or xs[0][0] not in self.W.splittable:
            return
        [(aid, s)] = xs
        x0 = -k / s
        lo, hi = self.W.bounds.get(aid, (None, None))
        if is_rat(lo) or is_rat(hi):
            return
        if (lo is None or lo < x0 or (lo == x0 and (hi is None or hi > x0))) and (hi is None or hi > x0 or (hi == x0 and (lo is None or lo < x0))):
            raise NeedSplit(aid, x0)

    def cmp_truth(self, op, a, b):
        sa, sb = strconst(a), strconst(b)
        if sa is not None and sb is not None:
            return {"Eq": sa == sb, "NotEq": sa != sb, "Lt": sa < sb, "LtE": sa <= sb, "Gt": sa > sb, "GtE": sa >= sb, "Is": sa == sb, "IsNot": sa != sb,
                    "In": sa in sb, "NotIn": sa not in sb}.get(op)
        if op in ("Is", "IsNot", "Eq", "NotEq") and (sym_name(a) == "None" or sym_name(b) == "None"):
            x = b if sym_name(a) == "None" else a
            if sym_name(x) == "None":
                r = True
            elif is_rat(x) and x.is_const():
                r = False
            elif strconst(x) is not None:
                r = False
            elif sym_name(x) is not None and sym_name(x) not in ("True", "False"):
                r = sym_name(x) in self.W.none_syms
            elif sym_name(x) in ("True", "False"):
                r = False
            else:
                r = None
                d = single_atom(x)
                if d is not None and d[0] == "fn" and (d[1].startswith("call") or d[1] in ("txt", "tuple", "idx")):
                    r = None
            if r is None:
                return None
            return r if op in ("Is", "Eq") else not r
        if op in ("In", "NotIn", "Is", "IsNot"):
            if op in ("Is", "IsNot") and a.equals(b):
                return op == "Is"
            return None
        if (sa is None) != (sb is None) and op in ("Eq", "NotEq"):
            # a string constant against a non-string value: scenario oracle decides (e.g. sparse == "dense")
            return None
        if op in ("Lt", "LtE", "Gt", "GtE"):
            # max(x, y, ...) > k  is  x > k or y > k or ...;  max(...) <= k is the conjunction; min dually
            for x, y, o in ((a, b, op), (b, a, {"Lt": "Gt", "LtE": "GtE", "Gt": "Lt", "GtE": "LtE"}[op])):
                ux = unfn(x)
                if ux is not None and ux[0] in ("call:max", "call:min", "call:np.maximum", "call:np.minimum") and len(ux[1]) >= 2 and all(is_rat(z) for z in ux[1]):
                    is_max = ux[0] in ("call:max", "call:np.maximum")
                    rs = [self.cmp_truth(o, z, y) for z in ux[1]]
                    some = (o in ("Gt", "GtE")) == is_max          # one argument suffices
                    if some:
                        return True if any(r is True for r in rs) else (False if all(r is False for r in rs) else None)
                    return False if any(r is False for r in rs) else (True if all(r is True for r in rs) else None)
        d = a - b
        if d.is_zero():
            return op in ("Eq", "LtE", "GtE")
        lo, hi = self.rng(d)
        res = None
        if op == "Lt":
            res = True if (hi is not None and hi < 0) else (False if (lo is not None and lo >= 0) else None)
        elif op == "LtE":
            res = True if (hi is not None and hi <= 0) else (False if (lo is not None and lo > 0) else None)
        elif op == "Gt":
            res = True if (lo is not None and lo > 0) else (False if (hi is not None and hi <= 0) else None)
        elif op == "GtE":
            res = True if (lo is not None and lo >= 0) else (False if (hi is not None and hi < 0) else None)
        elif op in ("Eq", "NotEq"):
            if (lo is not None and lo > 0) or (hi is not None and hi < 0):
                res = op == "NotEq"
            elif lo is not None and hi is not None and lo == hi == 0:
                res = op == "Eq"
        if res is None:
            self._maybe_split(d)
        return res

    def truth(self, v):
        """three-valued truth of a value"""
        if v is None or is_unknown(v):
            return None
        if isinstance(v, tuple):
            return len(v) > 0
        if isinstance(v, Txt):
            return v.nonempty()
        if isinstance(v, BytesV):
            n = const_int(v.n)
            return None if n is None else n > 0
        if isinstance(v, (FuncV, StructV, BoundV, SliceV, DtypeV, PackV, GetterV, PartialV, BufV, TypedArr)):
            return True
        if isinstance(v, SeqV):
            return self.truth(v.count) if is_rat(v.count) else None
        if isinstance(v, DictValue):
            return bool(v.d)
        if isinstance(v, PosV):
            return None
        if not is_rat(v):
            return None
        if v.is_const():
            return v.const_value() != 0
        s = strconst(v)
        if s is not None:
            return bool(s)
        n = sym_name(v)
        if n in ("True", "False", "None"):
            return n == "True"
        if n is not None and "." in n and n in self.W.table and n not in self.env:
            return True          # a function / bound method of the module (kept as a symbol because it is not followed): an object without __bool__
        if self.W.value_oracle is not None:
            r = self.W.value_oracle(v, self)
            if r is not None:
                return r
        u = unfn(v)
        if u is not None:
            name, args = u
            if name == "not":
                r = self.truth(args[0])
                return None if r is None else not r
            if name in ("bool:And", "bool:Or"):
                rs = [self.truth(a) for a in args]
                if name == "bool:And":
                    if any(r is False for r in rs):
                        return False
                    return True if all(r is True for r in rs) else None
                if any(r is True for r in rs):
                    return True
                return False if all(r is False for r in rs) else None
            if name.startswith("cmp:") and len(args) == 2:
                return self.cmp_truth(name[4:], args[0], args[1])
            return None
        lo, hi = self.rng(v)
        if (lo is not None and lo > 0) or (hi is not None and hi < 0):
            return True
        if lo is not None and hi is not None and lo == hi == 0:
            return False
        return None

    def decide(self, test):
        v = self.ev(test)
        return self.truth(v)

    BOOL_CALLS = ("call:bool", "call:isinstance", "call:np.iscomplexobj", "call:np.any", "call:np.all", "call:sp.issparse", "call:callable")

    def is_boolean(self, v):
        """is the value a Python / numpy bool whatever its truth (a comparison, `not x`, bool(x), a predicate call)?"""
        if not is_rat(v):
            return False
        if sym_name(v) in ("True", "False"):
            return True
        u = unfn(v)
        if u is None:
            return False
        if u[0] in ("bool:And", "bool:Or"):
            return all(self.is_boolean(x) for x in u[1])
        return u[0].startswith("cmp:") or u[0] == "not" or u[0] in self.BOOL_CALLS

    # ------------------------------------------------------------------------------------------------ integer operators
    def _split_pow2(self, a, k, exact=False):
        """a = q * 2**k + rem with rem the terms whose coefficients are not multiples of 2**k; returned only when 0 <= rem < 2**k is known"""
        if not a.d.is_const():
            return None
        sc = 1 / a.d.const_value()
        q, rem = F.const(0), F.const(0)
        two = 2 ** k
        for m, c in a.n.t.items():
            c = c * sc
            if c.denominator != 1:
                return None
            if m == ():
                qq, rr = divmod(c.numerator, two)
                q, rem = q + qq, rem + rr
            elif c.numerator % two == 0:
                q = q + F.Rat(F.Poly({m: c / two}))
            else:
                rem = rem + F.Rat(F.Poly({m: c}))
        lo, hi = self.rng(rem)
        if lo is not None and hi is not None and lo >= 0 and hi < two:
            return q, rem
        if exact and lo is not None and hi is not None and self._tight(rem):
            # the low part provably leaves [0, 2**k) for an admissible input (its interval is attained): the operation does not separate the
            # two parts.  The exact value is kept (x & (2**k - 1) = rem mod 2**k, x >> k = q + rem // 2**k) and the round trip then fails on it
            return q, rem, (lo, hi)
        return None

    def _tight(self, v):
        """is the interval `rng` computes for v attained?  True for a value with one bounded atom whose bounds are constants or themselves tight"""
        for _ in range(4):
            atoms = v.n.atoms()
            if len(atoms) != 1 or not v.d.is_const():
                return False
            (a,) = atoms
            b = self.W.bounds.get(a)
            if b is None or b[0] is None or b[1] is None:
                return False
            sym = [x for x in b if is_rat(x) and not x.is_const()]
            if not sym:
                return True
            if len(sym) == 2 and not (sym[0] - sym[1]).is_const():
                return False
            # both ends move with the same atom (0 <= r0 <= ROWS - 1): go on with that atom's own interval
            v = sym[0]
        return False

    def _intop(self, op, a, b, node=None):
        """//, %, <<, >>, & on polynomial values (bit-operator model of op4_model; a low part is dropped / kept only when its interval is
        known to lie in [0, 2**k))"""
        hook = M.int_binop(self.W.small)
        if b.is_const() and b.const_value().denominator == 1 and a.d.is_const() and not a.is_const():
            c = int(b.const_value())
            k = None
            if isinstance(op, ast.RShift) and c >= 0:
                k, want = c, "q"
            elif isinstance(op, ast.BitAnd) and c > 0 and (c & (c + 1)) == 0:
                k, want = c.bit_length(), "r"
            elif isinstance(op, (ast.FloorDiv, ast.Mod)) and c > 1 and (c & (c - 1)) == 0:
                k, want = c.bit_length() - 1, "q" if isinstance(op, ast.FloorDiv) else "r"
            if k is not None:
                sp = self._split_pow2(a, k, exact=True)
                if sp is not None and len(sp) == 2:
                    return sp[0] if want == "q" else sp[1]
                if sp is not None:
                    q, rem, _iv = sp
                    two = F.const(2 ** k)
                    return q + F.fn("floordiv", rem, two) if want == "q" else F.fn("mod", rem, two)
        if isinstance(op, (ast.FloorDiv, ast.Mod)) and b.is_const() and not b.is_zero():
            c = b.const_value()
            if c.denominator == 1 and c > 0 and (int(c) & (int(c) - 1)) == 0 and int(c) > 1:
                k = int(c).bit_length() - 1
                fake = ast.BinOp(left=ast.Constant(0), op=ast.RShift() if isinstance(op, ast.FloorDiv) else ast.BitAnd(), right=ast.Constant(0))
                r = hook(fake, a, F.const(k) if isinstance(op, ast.FloorDiv) else F.const(int(c) - 1), self)
                if r is not NotImplemented and not is_unknown(r):
                    return r
            if isinstance(op, ast.Mod):
                if a.is_const():
                    return F.const(a.const_value() % c)
                res = a / c
                if all(v.denominator == 1 for v in res.n.scale(1 / res.d.const_value()).t.values()):
                    return F.const(0)
                return F.fn("mod", a, b)
        if isinstance(op, ast.Mod):
            return F.fn("mod", a, b)
        if a.is_const() and b.is_const() and isinstance(op, (ast.LShift, ast.RShift, ast.BitAnd, ast.BitOr, ast.FloorDiv)):
            x, y = a.const_value(), b.const_value()
            if x.denominator == 1 and y.denominator == 1:
                x, y = int(x), int(y)
                if isinstance(op, ast.FloorDiv) and y == 0:
                    return Unknown("division by zero")
                return F.const({ast.LShift: lambda: x << y, ast.RShift: lambda: x >> y, ast.BitAnd: lambda: x & y, ast.BitOr: lambda: x | y,
                                ast.FloorDiv: lambda: x // y}[type(op)]())
        if isinstance(op, ast.BitOr):
            # x | y = x + y when y is a multiple of 2**k and 0 <= x < 2**k
            for x, y in ((a, b), (b, a)):
                lo, hi = self.rng(x)
                if lo is None or hi is None or lo < 0 or not y.d.is_const():
                    continue
                k = max(int(hi).bit_length(), 1)
                sc = 1 / y.d.const_value()
                if all((c * sc).denominator == 1 and int(c * sc) % (2 ** k) == 0 for c in y.n.t.values()):
                    return x + y
            return Unknown("`|` of values that are not known to occupy separate bits")
        fake = ast.BinOp(left=ast.Constant(0), op=op, right=ast.Constant(0))
        r = hook(fake, a, b, self)
        if r is NotImplemented:
            return Unknown(f"operator {type(op).__name__}")
        return r

    def binop_values(self, op, a, b, node=None):
        if is_unknown(a) or is_unknown(b):
            return a if is_bad(a) else (b if is_bad(b) else (a if is_unknown(a) else b))
        if isinstance(op, ast.Add) and (isinstance(a, RepTxtV) or isinstance(b, RepTxtV)):
            other = as_txt(b if isinstance(a, RepTxtV) else a)
            if other is None or (isinstance(a, RepTxtV) and isinstance(b, RepTxtV)):
                return Unknown("concatenation with a repeated text")
            if isinstance(a, RepTxtV):
                return RepTxtV(a.body, a.count, a.prefix, a.suffix + other)
            return RepTxtV(b.body, b.count, other + b.prefix, b.suffix)
        if isinstance(op, ast.Mod) and isinstance(a, RepTxtV):
            # (template * n) % tuple(values): one value per repetition - one generic repetition stands for all of them
            seq = b[0].v if (isinstance(b, tuple) and len(b) == 1 and isinstance(b[0], Star)) else b
            u = unfn(seq) if is_rat(seq) else None
            if u is not None and u[0] in ("call:tuple", "call:list") and len(u[1]) == 1:
                seq = u[1][0]
            plain = not any(isinstance(p, Lit) and "%" in p.s for p in a.prefix.p + a.suffix.p)
            if not is_rat(seq) or not plain:
                return Unknown("repeated template formatted with values the evaluator cannot enumerate")
            elem, _count = self.generic_elem(seq, ast.Name(id="_", ctx=ast.Store()))
            body = percent_format(a.body, [elem])
            if is_unknown(body):
                return body
            return a.prefix + body + a.suffix
        if isinstance(op, ast.BitOr) and isinstance(a, DictValue) and isinstance(b, DictValue):
            return DictValue({**a.d, **b.d})
        if isinstance(op, ast.Add):
            if isinstance(a, PosV) and const_int(b) is not None:
                return a.shifted(const_int(b))
            if isinstance(b, PosV) and const_int(a) is not None:
                return b.shifted(const_int(a))
            if isinstance(a, tuple) and isinstance(b, tuple):
                return a + b
            if isinstance(a, Txt) or isinstance(b, Txt) or (is_rat(a) and strconst(a) is not None) or (is_rat(b) and strconst(b) is not None):
                ta, tb = as_txt(a, True), as_txt(b, True)
                if ta is None or tb is None:
                    return Unknown("text concatenation")
                return ta + tb
            if isinstance(a, PackV) and isinstance(b, PackV):
                return PackV(a.order, a.items + b.items, None)
        if isinstance(op, ast.Sub) and isinstance(a, PosV) and const_int(b) is not None:
            return a.shifted(-const_int(b))
        if isinstance(op, ast.Mult):
            for x, y in ((a, b), (b, a)):
                sx = strconst(x) if is_rat(x) else (x.concrete() if isinstance(x, Txt) else None)
                ny = const_int(y) if is_rat(y) else None
                if ny is None and is_rat(y) and (sx is not None or isinstance(x, (tuple, Txt))) and self.is_boolean(y):
                    # text * flag, table * flag: the flag counts as 0 / 1
                    r = self.truth(y)
                    if r is None:
                        return Unknown(f"sequence repeated by the undecided flag {y!r}")
                    ny = int(r)
                if sx is not None and ny is not None:
                    return F.sym(repr(sx * ny))
                if isinstance(x, Txt) and ny is not None and 0 <= ny <= 64:
                    return Txt([p for _ in range(ny) for p in x.p])
                if isinstance(x, Txt) and ny is None and is_rat(y) and not self.is_boolean(y):
                    return RepTxtV(x, y)
                if isinstance(x, tuple) and ny is not None and 0 <= ny * len(x) <= 256:
                    return x * ny
        if isinstance(op, ast.Mod):
            ta = as_txt(a)
            if ta is not None:
                if isinstance(b, tuple):
                    args = list(b)
                else:
                    args = [b]
                if any(is_unknown(x) for x in args):
                    return next(x for x in args if is_unknown(x))
                return percent_format(ta, args)
        if isinstance(op, (ast.Sub, ast.Div, ast.FloorDiv, ast.Pow, ast.MatMult, ast.LShift, ast.RShift, ast.BitAnd, ast.BitOr, ast.BitXor)) and \
                (isinstance(a, Txt) or isinstance(b, Txt) or (is_rat(a) and strconst(a) is not None) or (is_rat(b) and strconst(b) is not None)):
            # a str supports +, * and % only
            why = f"operator {type(op).__name__} on a text"
            self.W.crash(node, why + " (TypeError)", self.qual)
            return Bad(why)
        if not is_rat(a) or not is_rat(b):
            return Unknown(f"operator {type(op).__name__} on {type(a).__name__}, {type(b).__name__}")
        try:
            if isinstance(op, ast.Add):
                return a + b
            if isinstance(op, ast.Sub):
                return a - b
            if isinstance(op, (ast.Mult, ast.MatMult)):
                return a * b
            if isinstance(op, ast.Div):
                if b.is_zero():
                    return Unknown("division by zero")
                return a / b
            if isinstance(op, ast.Pow):
                return a ** b
            if isinstance(op, (ast.FloorDiv, ast.Mod, ast.LShift, ast.RShift, ast.BitAnd, ast.BitOr)):
                return self._intop(op, a, b, node)
        except Unsupported as e:
            return lost(e)
        return Unknown(f"operator {type(op).__name__}")

    # ------------------------------------------------------------------------------------------------ expressions
    def ev(self, node):
        try:
            return self._ev(node)
        except Unsupported as e:
            return lost(e)

    def _ev(self, node):
        W = self.W
        t = type(node)
        if t is ast.Constant:
            v = node.value
            if v is None:
                return NONE
            if v is True or v is False:
                return boolv(v)
            if isinstance(v, str):
                return F.sym(repr(v))
            if isinstance(v, (int, float)):
                return F.const(const_from_node(node, self.src))
            if v is Ellipsis:
                return F.sym("Ellipsis")
            if isinstance(v, complex):
                return F.I * F.const(Fraction(repr(v.imag)))
            if isinstance(v, bytes) and not v:
                return PackV(None, [], None)
            return Unknown(f"constant {v!r}")
        if t is ast.Name:
            if node.id in W.pinned:
                return W.pinned[node.id]
            if node.id in self.env:
                return self.env[node.id]
            if node.id in W.table and not W.is_opaque(node.id):
                return FuncV(W.table[node.id])
            if node.id in W.consts and node.id not in self._folding:
                self._folding = set(self._folding) | {node.id}
                try:
                    return self._ev(W.consts[node.id])
                finally:
                    self._folding = set(self._folding) - {node.id}
            if node.id in ("None", "True", "False"):
                return F.sym(node.id)
            if self.fn is not None:
                if node.id in self.locals:
                    why = f"local name `{node.id}` is read before it is bound"
                    if plainly_bound(self.fn, node.id):
                        # every statement that binds the name is one the evaluator carries out, and none was on this path: UnboundLocalError
                        W.crash(node, why + " (UnboundLocalError)", self.qual)
                        return Bad(why)
                    return Unknown(why)
                if node.id not in W.module_names and not hasattr(builtins, node.id):
                    why = f"name `{node.id}` is not defined"
                    if not W.star_import and not self.enclosing_binds(node.id):
                        W.crash(node, why + " (NameError)", self.qual)
                        return Bad(why)
                    return Unknown(why)
            return F.sym(node.id)
        if t is ast.Attribute:
            d = self.canon(dotted(node))
            if d is not None:
                if d in W.pinned:
                    return W.pinned[d]
                if d in self.env:
                    return self.env[d]
                if d in W.table and not W.is_opaque(d):
                    fdef = W.table[d]
                    if any((dotted(dec) or "").split(".")[-1] in ("property", "cached_property") for dec in fdef.decorator_list) and d.split(".")[0] == "self":
                        # a read-only property: the attribute is what the getter returns
                        return self.call_func(FuncV(fdef), [], {}, node)
                    return FuncV(fdef)
                root = d.split(".")[0]
                pre = self.canon(dotted(node.value))
                if root in ("self", W.cls) and d.count(".") == 1 and node.attr in W.class_consts and d not in self.env:
                    return self._ev(W.class_consts[node.attr])
                if root == "self":
                    if d.count(".") == 1:
                        return F.sym(d)
                elif root not in self.env and root not in W.pinned and pre not in self.env and pre not in W.pinned:
                    return F.sym(d)
            base = self._ev(node.value)
            return self.attr_of(base, node.attr, node)
        if t is ast.JoinedStr:
            return self.fstring(node)
        if t in (ast.Tuple, ast.List):
            out = []
            for e in node.elts:
                if isinstance(e, ast.Starred):
                    v = self.ev(e.value)
                    if isinstance(v, tuple):
                        out.extend(v)
                        continue
                    got = self.elements_of(v)
                    if got is None:
                        return v if is_unknown(v) else Unknown("starred element of unknown length")
                    out.extend(got)
                    continue
                out.append(self.ev(e))
            return tuple(out)
        if t is ast.Starred:
            v = self.ev(node.value)
            return v if is_unknown(v) else Star(v)
        if t is ast.UnaryOp:
            v = self._ev(node.operand)
            if isinstance(node.op, ast.Not):
                r = self.truth(v)
                if r is not None:
                    return boolv(not r)
                if is_rat(v):
                    return F.fn("not", v)
                return v if is_unknown(v) else Unknown("not of a non-formula")
            if is_unknown(v):
                return v
            if not is_rat(v):
                return Unknown("unary operator on a non-formula")
            if isinstance(node.op, ast.USub):
                return -v
            if isinstance(node.op, ast.UAdd):
                return v
            return F.fn("invert", v)
        if t is ast.BinOp:
            a = self._ev(node.left)
            b = self._ev(node.right)
            return self.binop_values(node.op, a, b, node)
        if t is ast.BoolOp:
            vs = [self._ev(x) for x in node.values]
            if not any(is_unknown(v) for v in vs) and not all(is_rat(v) and self.is_boolean(v) for v in vs):
                # `a or b` / `a and b` hand on one of their operands (a callable, a table, a text), not a bool: the first operand whose truth
                # settles the result, when the truth of every operand before it is decided
                is_or = isinstance(node.op, ast.Or)
                for v in vs[:-1]:
                    r = self.truth(v)
                    if r is None:
                        break
                    if r == is_or:
                        return v
                else:
                    return vs[-1]
            out = []
            for v in vs:
                if is_rat(v):
                    out.append(v)
                else:
                    r = self.truth(v)
                    if r is None:
                        return v if is_unknown(v) else Unknown("boolean operand")
                    out.append(boolv(r))
            return F.fn("bool:" + type(node.op).__name__, *out)
        if t is ast.Compare:
            vals = [self._ev(node.left)] + [self._ev(c) for c in node.comparators]
            parts = []
            for k, op in enumerate(node.ops):
                parts.append(self.cmp_value(CMP_NAMES[type(op)], vals[k], vals[k + 1], node))
            for p in parts:
                if is_unknown(p):
                    return p
            return parts[0] if len(parts) == 1 else F.fn("bool:And", *parts)
        if t is ast.IfExp:
            c = self.decide(node.test)
            if c is True:
                return self._ev(node.body)
            if c is False:
                return self._ev(node.orelse)
            W.undecided.append((node, None, self.qual))
            return Unknown(f"undecided conditional {ast.unparse(node.test)}")
        if t is ast.Subscript:
            base = self._ev(node.value)
            r = self.subscript_of(base, node.slice, node)
            if is_bad(r) and not is_bad(base):
                W.misreads.append(r)
            return r
        if t is ast.Call:
            r = self._call(node)
            if is_bad(r) and not any(r is x for x in W.misreads):
                W.misreads.append(r)
            return r
        if t is ast.NamedExpr and isinstance(node.target, ast.Name):
            v = self._ev(node.value)
            self._assign(node.target, v, node)
            return v
        if t is ast.Dict and all(isinstance(k, ast.Constant) or (isinstance(k, ast.Tuple) and all(isinstance(x, ast.Constant) for x in k.elts))
                                 for k in node.keys):
            # constant keys (tuples of constants included)
            return DictValue({(k.value if isinstance(k, ast.Constant) else tuple(x.value for x in k.elts)): self.ev(v) for k, v in zip(node.keys, node.values)})
        if t is ast.Dict and any(k is None for k in node.keys):
            # {..., **other}: entries in order, later ones win
            d = {}
            for k, v in zip(node.keys, node.values):
                if k is None:
                    x = self.ev(v)
                    if not isinstance(x, DictValue):
                        return x if is_unknown(x) else Unknown("** of a value that is not a literal dictionary")
                    d.update(x.d)
                else:
                    kk = self.key_of(self.ev(k))
                    if kk is ... or kk is None:
                        return Unknown("dictionary key that is not a constant")
                    d[kk] = self.ev(v)
            return DictValue(d)
        if t is ast.Slice:
            return SliceV(*[None if p is None else self._ev(p) for p in (node.lower, node.upper, node.step)])
        if t in (ast.ListComp, ast.GeneratorExp):
            return self.comprehension(node)
        if t is ast.DictComp:
            return self.dict_comprehension(node)
        if t is ast.Lambda:
            fdef = ast.FunctionDef(name="<lambda>", args=node.args, body=[ast.Return(value=node.body)], decorator_list=[], returns=None, type_comment=None)
            ast.copy_location(fdef, node)
            ast.copy_location(fdef.body[0], node)
            return FuncV(fdef, closure=self.env, qual=f"{self.qual}.<lambda>")
        return Unknown(f"node {t.__name__}")

    def elements_of(self, v):
        """the elements of a sequence value whose length is a constant: X[a:b] with constant bounds -> [X[a], ..., X[b - 1]]"""
        u = unfn(v) if is_rat(v) else None
        if u is not None and u[0] == "idx" and len(u[1]) == 2:
            us = unfn(u[1][1])
            if us is not None and us[0] == "slice" and len(us[1]) == 3 and sym_name(us[1][2]) == "None":
                lo = 0 if sym_name(us[1][0]) == "None" else const_int(us[1][0])
                hi = const_int(us[1][1])
                if lo is not None and hi is not None and 0 <= lo <= hi <= lo + 64:
                    return [F.fn("idx", u[1][0], F.const(k)) for k in range(lo, hi)]
        return None

    def enclosing_binds(self, name):
        """is the name bound by a function that encloses the evaluated one (a closure variable the evaluator may have lost track of)?"""
        q = self.qual or ""
        parts = q.split(".")
        for k in range(len(parts) - 1, 0, -1):
            outer = self.W.mod.funcs.get(".".join(parts[:k]))
            if outer is not None and name in local_names(outer):
                return True
        return False

    def canon(self, d):
        """the class reached through the instance or through a class method's first parameter: self.__class__.X, cls.X  ->  OP4.X"""
        if d is None:
            return None
        cls = self.W.cls
        for pre in ("self.__class__", "cls.__class__"):
            if d == pre or d.startswith(pre + "."):
                return cls + d[len(pre):]
        if (d == "cls" or d.startswith("cls.")) and sym_name(self.env.get("cls")) == "cls":
            return cls + d[3:]
        return d

    @staticmethod
    def key_of(v):
        """the Python constant a value is when used as a dictionary key (str / int / bool / None / tuples of them), else the marker `...`"""
        if isinstance(v, tuple):
            ks = tuple(OP4Eval.key_of(x) for x in v)
            return ... if any(k is ... for k in ks) else ks
        if isinstance(v, Txt):
            c = v.concrete()
            return c if c is not None else ...
        if not is_rat(v):
            return ...
        sc = strconst(v)
        if sc is not None:
            return sc
        if sym_name(v) in ("True", "False"):
            return sym_name(v) == "True"
        if sym_name(v) == "None":
            return None
        k = const_int(v)
        return k if k is not None else ...

    def dict_of_pairs(self, pairs):
        """((key, value), ...) with constant keys -> DictValue (later pairs win, as in dict()), else None"""
        d = {}
        for pr in pairs:
            if not isinstance(pr, tuple) or len(pr) != 2:
                return None
            k = self.key_of(pr[0])
            if k is ... or k is None:
                return None
            d[k] = pr[1]
        return DictValue(d)

    @staticmethod
    def const_range(v):
        """range(a[, b[, c]]) with constant arguments and at most 64 elements -> the tuple of its elements, else None"""
        u = unfn(v) if is_rat(v) else None
        if u is None or u[0] != "call:range" or not 1 <= len(u[1]) <= 3:
            return None
        ks = [const_int(x) if is_rat(x) else None for x in u[1]]
        if any(k is None for k in ks) or (len(ks) == 3 and ks[2] == 0):
            return None
        r = range(*ks)
        return tuple(F.const(k) for k in r) if len(r) <= 64 else None

    def dict_comprehension(self, node):
        """{k: v for target in table}: over a literal table with constant keys -> DictValue"""
        if len(node.generators) != 1 or node.generators[0].is_async:
            return Unknown("dictionary comprehension with several generators")
        pairs = self.comprehension(ast.ListComp(elt=ast.Tuple(elts=[node.key, node.value], ctx=ast.Load()), generators=node.generators))
        if is_unknown(pairs):
            return pairs
        dv = self.dict_of_pairs(pairs) if isinstance(pairs, tuple) else None
        return dv if dv is not None else Unknown("dictionary comprehension whose keys are not constants")

    def comprehension(self, node):
        """[elt for target in iterable]: a tuple when the iterable is one (literal table), else one generic element (SeqV)"""
        if len(node.generators) != 1 or node.generators[0].is_async:
            return Unknown("comprehension with several generators")
        g = node.generators[0]
        itv = self.ev(g.iter)
        if is_unknown(itv):
            return itv
        if self.const_range(itv) is not None:
            itv = self.const_range(itv)          # a range with constant bounds: its elements one by one
        names = [x.id for x in ast.walk(g.target) if isinstance(x, ast.Name)]
        saved = {k: self.env[k] for k in names if k in self.env}
        try:
            if isinstance(itv, tuple):
                out = []
                for x in itv:
                    self._assign(g.target, x, node)
                    keep = True
                    for c in g.ifs:
                        r = self.decide(c)
                        if r is None:
                            return Unknown("undecided comprehension filter")
                        if not r:
                            keep = False
                            break
                    if keep:
                        out.append(self.ev(node.elt))
                return tuple(out)
            if is_rat(itv) and not g.ifs:
                elem, count = self.generic_elem(itv, g.target)
                self._assign(g.target, elem, node)
                v = self.ev(node.elt)
                if is_unknown(v):
                    return v
                return SeqV(v, count, itv)
            return Unknown("comprehension over a non-sequence value")
        finally:
            for k in names:
                if k in saved:
                    self.env[k] = saved[k]
                else:
                    self.env.pop(k, None)

    def generic_elem(self, itv, target):
        """a generic element of the sequence value `itv` and the number of elements: element k of base[lo:hi] is base[lo + k]; an element of
        range(..) is bounded by it; anything else is a fresh symbol"""
        W = self.W
        W.nframes += 1
        elems = self.fresh_elems(target, W.nframes)
        u = unfn(itv)
        count = self.len_of(itv)
        if u is not None and u[0] == "call:range" and is_rat(elems):
            a = u[1]
            if len(a) == 1:
                W.bound(elems, 0, a[0] - 1)
                count = a[0]
            elif len(a) == 2:
                W.bound(elems, a[0], a[1] - 1)
                count = a[1] - a[0]
        elif u is not None and u[0] == "idx" and len(u[1]) == 2 and is_rat(elems):
            us = unfn(u[1][1])
            if us is not None and us[0] == "slice" and len(us[1]) == 3 and sym_name(us[1][2]) == "None":
                lo = F.const(0) if sym_name(us[1][0]) == "None" else us[1][0]
                if sym_name(us[1][1]) != "None":
                    W.bound(elems, 0, us[1][1] - lo - 1)
                return F.fn("idx", u[1][0], lo + elems), count
        return elems, count

    def fstring(self, node):
        out = []
        for v in node.values:
            if isinstance(v, ast.Constant):
                out.append(Lit(str(v.value)))
                continue
            x = self._ev(v.value)
            if is_unknown(x):
                return x
            spec = None
            if v.format_spec is not None:
                spec = self.fstring(v.format_spec)
                if is_unknown(spec):
                    return spec
            conv = {ord("r"): "r", ord("s"): "s", ord("a"): "a"}.get(v.conversion)
            if isinstance(x, tuple):
                x = wrap(x)
            f = make_field(x, spec, conv)
            if is_unknown(f):
                return f
            out.append(f)
        return Txt(out)

    def cmp_value(self, op, a, b, node):
        if is_unknown(a) or is_unknown(b):
            return a if is_unknown(a) else b
        self.W.compares.append((node, op, a, b, self.qual))
        if is_rat(a) and is_rat(b):
            return F.fn("cmp:" + op, a, b)
        # text against text / constant
        ta, tb = as_txt(a), as_txt(b)
        if ta is not None and tb is not None and op in ("Eq", "NotEq"):
            ca, cb = ta.concrete(), tb.concrete()
            if ca is not None and cb is not None:
                return boolv((ca == cb) == (op == "Eq"))
            if (ta.nonempty() is True and not tb.p) or (tb.nonempty() is True and not ta.p):
                return boolv(op == "NotEq")
            if ta.same(tb):
                return boolv(op == "Eq")
            return Unknown("comparison of texts")
        if isinstance(b, PosV) and const_int(a) is not None and op in ("Lt", "LtE", "Gt", "GtE", "Eq", "NotEq"):
            a, b, op = b, a, {"Lt": "Gt", "LtE": "GtE", "Gt": "Lt", "GtE": "LtE"}.get(op, op)
        if isinstance(a, PosV) and const_int(b) is not None:
            k = const_int(b)
            lo = a.minabs
            r = {"Gt": True if lo > k else None, "GtE": True if lo >= k else None, "Lt": False if lo >= k else None, "LtE": False if lo > k else None,
                 "Eq": False if lo > k else None, "NotEq": True if lo > k else None}.get(op)
            if r is not None:
                return boolv(r)
            return Unknown("comparison of a text position")
        if isinstance(a, tuple) and isinstance(b, tuple) and op in ("Eq", "NotEq"):
            if len(a) != len(b):
                return boolv(op == "NotEq")
            try:
                same = all(is_rat(x) and is_rat(y) and x.equals(y) for x, y in zip(a, b))
            except Unsupported:
                same = False
            if same:
                return boolv(op == "Eq")
            return Unknown("comparison of tuples")
        if op in ("Is", "IsNot") and (sym_name(a) == "None" or sym_name(b) == "None"):
            other = b if sym_name(a) == "None" else a
            if not is_rat(other):
                return boolv(op == "IsNot")
        if op in ("In", "NotIn") and isinstance(b, DictValue) and isinstance(a, tuple):
            r = self._has_key(b, a)
            if r is not None:
                return boolv(r == (op == "In"))
            parts = [self._key_eq(a, k) for k in b.d]
            v = parts[0] if len(parts) == 1 else F.fn("bool:Or", *parts)
            return v if op == "In" else F.fn("not", v)
        if op in ("In", "NotIn") and isinstance(b, DictValue) and is_rat(a):
            r = self._has_key(b, a)
            if r is not None:
                return boolv(r == (op == "In"))
            parts = [self._key_eq(a, k) for k in b.d]
            v = parts[0] if len(parts) == 1 else F.fn("bool:Or", *parts)
            return v if op == "In" else F.fn("not", v)
        if op in ("In", "NotIn") and isinstance(b, tuple) and is_rat(a) and b and all(is_rat(x) and (strconst(x) is not None or x.is_const()) for x in b):
            # x in ("a", "b"): the disjunction of the equalities (each decided by the scenario)
            parts = [F.fn("cmp:Eq", a, x) for x in b]
            rs = [self.truth(p_) for p_ in parts]
            if any(r is True for r in rs):
                return boolv(op == "In")
            if all(r is False for r in rs):
                return boolv(op == "NotIn")
            v = parts[0] if len(parts) == 1 else F.fn("bool:Or", *parts)
            return v if op == "In" else F.fn("not", v)
        if op in ("In", "NotIn"):
            try:
                return F.fn("cmp:" + op, wrap(a), wrap(b))
            except Unsupported:
                pass
        return Unknown(f"comparison {op} of {type(a).__name__} and {type(b).__name__}")

    def attr_of(self, base, attr, node):
        W = self.W
        if is_unknown(base):
            return base
        if isinstance(base, SliceV):
            if attr in ("start", "stop", "step"):
                v = {"start": base.lo, "stop": base.hi, "step": base.step}[attr]
                return NONE if v is None else v
        if isinstance(base, TypedArr):
            if attr == "size":
                return self.len_of(base.arr)
            if attr == "nbytes":
                return self.len_of(base.arr) * CODE_SIZE[base.code]
            return Unknown(f"attribute {attr} of a typed array")
        if isinstance(base, StructV):
            if attr in ("pack", "unpack", "unpack_from"):
                return BoundV(base, attr)
            if attr == "size":
                r = parse_struct(base.fmt)
                if not is_unknown(r):
                    tot = F.const(0)
                    for code, cnt in r[1]:
                        tot = tot + (cnt if cnt is not None else F.const(1)) * CODE_SIZE[code]
                    return tot
            return Unknown(f"attribute {attr} of a struct")
        if isinstance(base, FuncV):
            return Unknown(f"attribute {attr} of a function")
        if isinstance(base, NTup) and attr in base.fields:
            return base[base.fields.index(attr)]
        if isinstance(base, DictValue):
            if attr in base.d:
                return base.d[attr]
            return Unknown(f"attribute {attr} of a record that has no such field")
        if isinstance(base, tuple):
            return Unknown(f"attribute {attr} of a tuple")
        if isinstance(base, (Txt, PackV, BytesV, DtypeV, PosV)):
            return Unknown(f"attribute {attr} of {type(base).__name__}")
        if is_rat(base) and sym_name(base) == W.cls and (f"{W.cls}.{attr}" in W.table or attr in W.class_consts):
            return self._ev(ast.Attribute(value=ast.Name(id=W.cls, ctx=ast.Load()), attr=attr, ctx=ast.Load()))
        if is_rat(base):
            if attr == "shape":
                a = atom_id(base)
                if a is not None and a in W.shape_of:
                    return W.shape_of[a]
            if attr == "T":
                return F.fn("call:.transpose", base)
            return F.fn("attr:" + attr, base)
        return Unknown(f"attribute {attr}")

    def index_value(self, sl):
        """value of an index expression (ast) -> Rat / SliceV / tuple / PosV"""
        if isinstance(sl, ast.Slice):
            return SliceV(*[None if p is None else self._ev(p) for p in (sl.lower, sl.upper, sl.step)])
        if isinstance(sl, ast.Tuple):
            return tuple(self.index_value(e) for e in sl.elts)
        return self._ev(sl)

    def subscript_of(self, base, sl, node):
        if is_unknown(base):
            return base
        ix = self.index_value(sl)
        return self.subscript_val(base, ix, node, isinstance(sl, ast.List))

    def subscript_val(self, base, ix, node, is_list=False):
        """base[ix] on values"""
        if is_unknown(base):
            return base
        if is_unknown(ix):
            return ix
        if isinstance(base, Txt) or (is_rat(base) and strconst(base) is not None and isinstance(ix, SliceV)):
            base = as_txt(base)
            if isinstance(ix, SliceV):
                if ix.step is not None and sym_name(ix.step) != "None":
                    return Unknown("text slice with a step")
                bd = []
                for p in (ix.lo, ix.hi):
                    if p is None or (is_rat(p) and sym_name(p) == "None"):
                        bd.append(None)
                    elif isinstance(p, PosV):
                        bd.append(p)
                    elif const_int(p) is not None:
                        bd.append(const_int(p))
                    elif is_unknown(p):
                        return p
                    else:
                        # len(text) - k  counts from the end
                        k = None
                        for t0, lv in self.W.txt_lens:
                            if (t0 is base or t0.same(base)) and is_rat(p) and (p - lv).is_const() and (p - lv).const_value().denominator == 1:
                                k = int((p - lv).const_value())
                        if k is None or k > 0:
                            return Unknown(f"text slice bound {p!r}")
                        bd.append(k if k < 0 else None)
                return base.slice(bd[0], bd[1])
            k = const_int(ix) if is_rat(ix) else None
            if k is not None:
                c = base.concrete()
                if c is not None:
                    try:
                        return F.sym(repr(c[k]))
                    except IndexError:
                        return Unknown("text index out of range")
                return base.slice(k, k + 1) if k >= 0 else Unknown("negative text index")
            return Unknown("text index")
        if isinstance(base, tuple):
            if isinstance(ix, SliceV):
                bd = []
                for p in (ix.lo, ix.hi, ix.step):
                    if p is None or (is_rat(p) and sym_name(p) == "None"):
                        bd.append(None)
                    elif const_int(p) is not None:
                        bd.append(const_int(p))
                    else:
                        return Unknown("tuple slice bound")
                return base[slice(*bd)]
            k = const_int(ix) if is_rat(ix) else None
            if k is None and is_rat(ix) and self.is_boolean(ix):
                # table[flag]: False / True index a two-entry table as 0 / 1
                r = self.truth(ix)
                if r is None:
                    self.W.undecided.append((node, ix, self.qual))
                    return Unknown(f"table indexed by the undecided flag {ix!r}")
                k = int(r)
            if k is not None:
                try:
                    return base[k]
                except IndexError:
                    return Unknown("tuple index out of range")
            return Unknown("tuple index")
        if isinstance(base, BytesV):
            if isinstance(ix, SliceV) and (ix.step is None or sym_name(ix.step) == "None"):
                bd = [None if (p_ is None or (is_rat(p_) and sym_name(p_) == "None")) else p_ for p_ in (ix.lo, ix.hi)]
                if any(p_ is not None and not is_rat(p_) for p_ in bd):
                    return Unknown("slice bounds of the bytes read")
                if any(p_ is not None and p_.is_const() and p_.const_value() < 0 for p_ in bd):
                    bd = [p_ if (p_ is None or not (p_.is_const() and p_.const_value() < 0)) else base.n + p_ for p_ in bd]
                return self.bytes_slice(base, bd[0], bd[1])
            return Unknown("index into the bytes read")
        if isinstance(base, DictValue):
            s = strconst(ix) if is_rat(ix) else None
            key = s if s is not None else (const_int(ix) if is_rat(ix) else None)
            if key is None and is_rat(ix) and self.is_boolean(ix):
                r = self.truth(ix)
                if r is None:
                    self.W.undecided.append((node, ix, self.qual))
                    return Unknown(f"table indexed by the undecided flag {ix!r}")
                key = r
            if key is not None:
                if key in base.d:
                    return base.d[key]
                return Unknown("dictionary key")
            if is_rat(ix) or (isinstance(ix, tuple) and all(is_rat(x) for x in ix)):
                # a key that is not a constant: the entry whose key it equals in this scenario
                hits = [k for k in base.d if self.truth(self._key_eq(ix, k)) is True]
                rest = [k for k in base.d if self.truth(self._key_eq(ix, k)) is None]
                if len(hits) == 1 and not rest:
                    return base.d[hits[0]]
            return Unknown("dictionary key")
        if is_rat(base):
            ub = unfn(base)
            if ub is not None and ub[0] == "attr:shape" and is_rat(ix) and const_int(ix) == 0 and ub[1] and is_rat(ub[1][0]):
                return self.len_of(ub[1][0])          # X.shape[0] is len(X)
            try:
                if is_list and isinstance(ix, tuple) and all(is_rat(x) for x in ix):
                    return F.fn("idx", base, F.fn("list", *ix))          # X[[i, j]]: the elements i, j (not the entry X[i, j])
                return F.fn("idx", base, wrap(ix))
            except Unsupported as e:
                return lost(e)
        return Unknown(f"subscript of {type(base).__name__}")

    # ------------------------------------------------------------------------------------------------ calls
    def _args(self, node):
        pos = []
        for a in node.args:
            if isinstance(a, ast.Starred):
                v = self.ev(a.value)
                if isinstance(v, tuple):
                    pos.extend(v)          # *(a, b, c): the elements themselves
                    continue
                pos.append(v if is_unknown(v) else Star(v))
            else:
                pos.append(self.ev(a))
        kw = {}
        for k in node.keywords:
            if k.arg is None:
                v = self.ev(k.value)
                if isinstance(v, DictValue) and all(isinstance(x, str) for x in v.d):
                    kw.update(v.d)          # **{"a": 1, "b": 2}: the entries themselves
                else:
                    kw["**"] = v
            else:
                kw[k.arg] = self.ev(k.value)
        return pos, kw

    def opaque_call(self, name, pos, kw, node, callee=None):
        self.W.calls.append((callee if callee is not None else name, pos, kw, node, tuple(self.W.frames)))
        try:
            args = [wrap(a) for a in pos] + [F.fn("kw:" + k, wrap(v)) for k, v in sorted(kw.items())]
            if callee is not None and is_rat(callee):
                return F.fn("callv", callee, *args)
            return F.fn("call:" + name, *args)
        except Unsupported as e:
            for a in list(pos) + list(kw.values()):
                if is_bad(a):
                    return a
            return Unknown(f"call {name}: {e}")

    def _call(self, node):
        W = self.W
        f = node.func
        name = self.canon(dotted(f))
        callee = None
        recv = None
        method = None
        if isinstance(f, ast.Name):
            if f.id in self.env:
                callee = self.env[f.id]
            elif f.id in W.table and not W.is_opaque(f.id):
                callee = FuncV(W.table[f.id])
        elif isinstance(f, ast.Attribute):
            if name is not None and name in self.env:
                callee = self.env[name]
            elif name is not None and name in W.table and not W.is_opaque(name):
                callee = FuncV(W.table[name])
            else:
                root = name.split(".")[0] if name else None
                pre = self.canon(dotted(f.value))
                is_const = (isinstance(f.value, ast.Name) and f.value.id in W.consts and f.value.id not in self.locals) or \
                    (isinstance(f.value, ast.Attribute) and f.value.attr in W.class_consts and dotted(f.value.value) in ("self", W.cls))
                unbound = root is not None and self.fn is not None and root not in self.env and root not in W.pinned and root not in ("self", W.cls) \
                    and root not in W.table and root not in W.consts \
                    and root not in import_names(self.fn) \
                    and (root in self.locals or (root not in W.module_names and not hasattr(builtins, root)))
                if name is None or root in self.env or root in W.pinned or root == "self" or pre in self.env or pre in W.pinned or is_const or unbound:
                    recv = self._ev(f.value)
                    method = f.attr
                    if is_unknown(recv):
                        self._args(node)
                        if not is_bad(recv) and method in ("write", "writelines", "tofile", "read", "readline", "seek", "pack", "unpack"):
                            W.gap(node, f"`.{method}` on a value the evaluator could not determine: what it does is dropped", self.qual)
                        return recv
        else:
            callee = self._ev(f)
        if isinstance(callee, FuncV):
            pos, kw = self._args(node)
            return self.call_func(callee, pos, kw, node)
        if isinstance(callee, BoundV):
            pos, kw = self._args(node)
            return self.struct_call(callee.st, callee.which, pos, node)
        if isinstance(callee, (GetterV, PartialV)):
            pos, kw = self._args(node)
            return self.call_value(callee, pos, kw, node)
        if callee is not None and is_unknown(callee):
            self._args(node)
            if not is_bad(callee):
                W.gap(node, f"call of `{ast.unparse(node.func)[:40]}`, a value the evaluator could not determine: what it does is dropped", self.qual)
            return callee
        pos, kw = self._args(node)
        if callee is not None:
            if is_rat(callee):
                uc = unfn(callee)
                if uc is not None and uc[0].startswith("attr:") and len(uc[1]) == 1 and is_rat(uc[1][0]):
                    # a bound method kept in a name (`emit = f.write`): the call is the method call
                    return self.method_call(uc[1][0], uc[0][5:], pos, kw, node)
                return self.opaque_call("<value>", pos, kw, node, callee=callee)
            return Unknown(f"call of {type(callee).__name__}")
        if method is not None:
            return self.method_call(recv, method, pos, kw, node)
        return self.builtin_call(name or "?", pos, kw, node)

    def _key_eq(self, v, k):
        if isinstance(k, tuple):
            if not isinstance(v, tuple) or len(v) != len(k) or not all(is_rat(x) for x in v):
                return FALSE
            parts = []
            for x, y in zip(v, k):
                p_ = self._key_eq(x, y)
                r = self.truth(p_)
                parts.append(boolv(r) if r is not None else p_)
            return parts[0] if len(parts) == 1 else F.fn("bool:And", *parts)
        if isinstance(v, tuple):
            return FALSE
        if isinstance(k, bool) and self.is_boolean(v):
            r = self.truth(v)
            return boolv(r == k) if r is not None else (v if k else F.fn("not", v))
        kv = F.sym(repr(k)) if isinstance(k, str) else (boolv(k) if isinstance(k, bool) else (F.const(k) if isinstance(k, (int, float)) else NONE))
        return F.fn("cmp:Eq", v, kv)

    def _has_key(self, dv, v):
        """v in dv.keys(): True / False / None"""
        if isinstance(v, tuple):
            rs = [self.truth(self._key_eq(v, k)) for k in dv.d]
            if any(r is True for r in rs):
                return True
            return False if all(r is False for r in rs) else None
        if not is_rat(v):
            return None
        s = strconst(v)
        key = s if s is not None else const_int(v)
        if key is not None:
            return key in dv.d
        rs = [self.truth(self._key_eq(v, k)) for k in dv.d]
        if any(r is True for r in rs):
            return True
        return False if all(r is False for r in rs) else None

    def call_getter(self, g, pos, kw, node):
        if len(pos) != 1 or kw:
            return Unknown("call of an operator getter")
        if g.kind == "item":
            return self.subscript_val(pos[0], g.arg, node)
        if g.kind == "attr":
            return self.attr_of(pos[0], g.arg, node)
        name, a, k = g.arg
        return self.method_call(pos[0], name, a, k, node)

    def call_value(self, callee, pos, kw, node):
        """call of a callable value with evaluated arguments (map / sorted keys / callbacks)"""
        if isinstance(callee, FuncV):
            return self.call_func(callee, pos, kw, node)
        if isinstance(callee, GetterV):
            return self.call_getter(callee, pos, kw, node)
        if isinstance(callee, PartialV):
            both = dict(callee.kw)
            both.update(kw)
            return self.call_value(callee.callee, list(callee.pos) + list(pos), both, node)
        if isinstance(callee, BoundV):
            return self.struct_call(callee.st, callee.which, pos, node)
        if is_rat(callee):
            uc = unfn(callee)
            if uc is not None and uc[0].startswith("attr:") and len(uc[1]) == 1 and is_rat(uc[1][0]):
                return self.method_call(uc[1][0], uc[0][5:], pos, kw, node)
            if sym_name(callee) is not None and sym_name(callee) not in ("None", "True", "False"):
                return self.builtin_call(sym_name(callee), pos, kw, node)
            return self.opaque_call("<value>", pos, kw, node, callee=callee)
        return callee if is_unknown(callee) else Unknown(f"call of {type(callee).__name__}")

    def call_func(self, fv, pos, kw, node):
        W = self.W
        fn = fv.fn
        if self.depth >= MAX_DEPTH:
            return Unknown(f"call depth at {fv.qual}")
        if is_generator(fn):
            return Unknown(f"generator {fv.qual} used outside a for loop")
        env = self.bind_params(fv, pos, kw)
        if is_unknown(env):
            return env
        sub = OP4Eval(fn, W, env=env, qual=fv.qual, depth=self.depth + 1)
        sub.run(fn.body)
        self._merge_state(sub)
        if sub.raised:
            self.raised = True
            self.done = True
            return Unknown(f"{fv.qual} raises")
        v = sub.returns[-1][0] if sub.returns else None
        for av, apos, _ac in sub.alts:
            if not same_value(av, v) or apos != sub._pos():
                return Unknown(f"the paths through {fv.qual} return different values")
        return NONE if v is None else v

    def _merge_state(self, sub):
        for k, v in sub.env.items():
            if k.startswith("self."):
                self.env[k] = v

    def bind_params(self, fv, pos, kw):
        fn = fv.fn
        a = fn.args
        params = [x.arg for x in a.posonlyargs + a.args]
        env = {}
        if fv.closure is not None:
            env.update(fv.closure)
        for k, v in self.env.items():
            if k.startswith("self."):
                env[k] = v
        q = fv.qual or ""
        is_method = q.count(".") == 1 and q.split(".")[0] in self.W.chain
        if params and params[0] in ("self", "cls") and is_method:
            env[params[0]] = F.sym(params[0])
            params = params[1:]
        if a.vararg or a.kwarg or "**" in kw or any(isinstance(x, Star) for x in pos):
            return Unknown(f"call of {q} with *args / **kwargs")
        if len(pos) > len(params):
            return Unknown(f"too many arguments for {q}")
        for p_, x in zip(params, pos):
            env[p_] = x
        kwonly = [x.arg for x in a.kwonlyargs]
        for k, v in kw.items():
            if k not in params and k not in kwonly:
                return Unknown(f"unexpected keyword {k} for {q}")
            env[k] = v
        dflt = dict(zip(params[::-1], (a.defaults or [])[::-1]))
        for p_ in params:
            if p_ not in env or (p_ in (fv.closure or {}) and p_ not in kw and params.index(p_) >= len(pos)):
                if p_ in dflt:
                    env[p_] = self.ev(dflt[p_])
                elif p_ not in env:
                    return Unknown(f"missing argument {p_} for {q}")
        for p_, d in zip(kwonly, a.kw_defaults):
            if p_ not in env and d is not None:
                env[p_] = self.ev(d)
        return env

    def struct_call(self, st, which, pos, node):
        if which == "pack":
            r = pack_items(st.fmt, pos, node)
            if is_unknown(r):
                return r
            return PackV(r[0], r[1], st.fmt)
        by = pos[0] if pos else None
        if which == "unpack_from":
            off = pos[1] if len(pos) > 1 else F.const(0)
            size = self.attr_of(st, "size", node)
            if not isinstance(by, BytesV) or not is_rat(off) or not is_rat(size):
                return by if is_unknown(by) else Unknown("unpack_from of a value that is not the bytes read")
            by = self.bytes_slice(by, off, off + size)
        return self.unpack(st.fmt, by)

    def bytes_slice(self, by, lo, hi):
        """by[lo:hi] for bytes read from the stream: whole items between two byte offsets (a cut inside an item is a misread)"""
        items, at = [], F.const(0)
        lo = F.const(0) if lo is None else lo
        started, items_prev = False, None
        for it in by.items:
            nb = it.nbytes()
            if hi is not None and (hi - at).is_zero():
                break
            if not started:
                d = lo - at
                if d.is_zero():
                    started = True
                elif d.is_const() and d.const_value() < 0:
                    return Bad(f"a slice starting at byte {lo!r} cuts the item {items_prev!r}")
                elif not d.is_const():
                    return Unknown(f"slice of the bytes read at the offset {lo!r}")
            items_prev = it
            if started:
                if hi is not None:
                    r = hi - at - nb
                    if r.is_const() and r.const_value() < 0:
                        return Bad(f"a slice ending at byte {hi!r} cuts the item {it!r} ({nb!r} bytes from byte {at!r})")
                    if not r.is_const() and not r.is_zero():
                        return Unknown(f"slice of the bytes read up to the offset {hi!r}")
                items.append(it)
            at = at + nb
        if not started and not (lo - at).is_zero():
            d = lo - at
            if d.is_const() and d.const_value() < 0:
                return Bad(f"a slice starting at byte {lo!r} cuts the item {by.items[-1]!r}")
        n = F.const(0)
        for it in items:
            n = n + it.nbytes()
        return BytesV(items, n)

    def unpack(self, fmt, by):
        if is_unknown(by):
            return by
        r = parse_struct(fmt)
        if is_unknown(r):
            return r
        if isinstance(by, BytesV):
            return unpack_items(r[1], by)
        if is_rat(by):
            # opaque bytes: a tuple of opaque components when the number of fields is constant
            n = 0
            for code, cnt in r[1]:
                if code == "x":
                    continue
                k = 1 if (cnt is None or code == "s") else const_int(cnt)
                if k is None:
                    return F.fn("call:unpack", fmt.atom(), by)
                n += k
            base = F.fn("call:unpack", fmt.atom(), by)
            return tuple(F.fn("idx", base, F.const(i)) for i in range(n))
        return Unknown("unpack of a non-bytes value")

    def typed_array(self, x, dt):
        """x converted to the dtype value dt -> TypedArr, or None when the dtype (with its byte order) is not a stated one"""
        if isinstance(x, TypedArr):
            x = x.arr
        if not is_rat(x):
            return None
        if not isinstance(dt, DtypeV):
            t = as_txt(dt, True) if (isinstance(dt, Txt) or (is_rat(dt) and strconst(dt) is not None)) else None
            if t is None:
                return None
            dt = DtypeV(t)
        code = dt.code()
        if code is None:
            return None
        tk = dt.fmt.tokens()
        order = None
        if tk and tk[0][0] == "f":
            order = tk[0][1].v
        elif tk and tk[0][0] == "c" and tk[0][1] in "<>=|":
            order = tk[0][1]
        else:
            return None          # no byte order stated: native - not what a file with a chosen byte order holds
        return TypedArr(x, code, order)

    def packed_of(self, ta):
        return PackV(ta.order, [Item(ta.code, self.len_of(ta.arr), ta.arr, run=True)], None)

    def method_call(self, recv, method, pos, kw, node):
        W = self.W
        if isinstance(recv, StructV) and method in ("pack", "unpack", "unpack_from"):
            return self.struct_call(recv, method, pos, node)
        if isinstance(recv, TypedArr):
            if method == "tobytes" and not pos:
                return self.packed_of(recv)
            if method == "tofile" and len(pos) == 1 and is_rat(pos[0]) and not kw:
                W.emits.append(Emit(pos[0], self.packed_of(recv), tuple(W.frames), node, self.qual))
                return NONE
            if method in ("ravel", "copy", "flatten") and not pos:
                return recv
            if method == "astype" and pos:
                r = self.typed_array(recv, pos[0])
                return r if r is not None else Unknown("astype to a dtype the evaluator cannot read")
            return Unknown(f"method {method} of a typed array")
        if is_rat(recv) and method == "astype" and pos:
            r = self.typed_array(recv, pos[0])
            if r is not None:
                return r
        if is_rat(recv) and method in ("tobytes", "tofile") and W.stream is None and W.lines is None:
            # raw bytes of an array whose dtype / byte order is not stated: not comparable with what a reader of a given byte order expects
            W.gap(node, f"`.{method}()` of an array whose dtype and byte order are not stated", self.qual)
            return Unknown(f"{method} of an array whose dtype and byte order are not stated")
        t = as_txt(recv) if (isinstance(recv, Txt) or (is_rat(recv) and strconst(recv) is not None)) else None
        if t is not None:
            r = self.text_method(t, method, pos, kw, node)
            if r is not NotImplemented:
                return r
        if isinstance(recv, (PackV, BytesV)) and method == "decode":
            if isinstance(recv, BytesV) and len(recv.items) == 1 and recv.items[0].code == "s":
                return recv.items[0].value
            if isinstance(recv, BytesV):
                return Bad(f"decode() of {recv!r}")
            return Unknown("decode of packed bytes")
        if isinstance(recv, BufV):
            d = dotted(node.func.value) if isinstance(getattr(node, "func", None), ast.Attribute) else None
            if method == "write" and len(pos) == 1 and d is not None and self.env.get(d) is recv and d not in W.pinned:
                x = self.packed_of(pos[0]) if isinstance(pos[0], TypedArr) else pos[0]
                self.env[d] = BufV(recv.binary, recv.parts + (x,)) if not is_unknown(x) else x
                return NONE
            if method in ("getvalue", "getbuffer") and not pos:
                if recv.binary:
                    if all(isinstance(x, PackV) for x in recv.parts):
                        return PackV(None, [it for x in recv.parts for it in x.items], None)
                    return Unknown("buffer holding values that are not packed bytes")
                parts = [as_txt(x) for x in recv.parts]
                return Txt(parts) if all(x is not None for x in parts) else Unknown("buffer holding values that are not texts")
            if method in ("close", "flush"):
                return NONE
            return Unknown(f"method {method} of an in-memory buffer")
        if isinstance(recv, NTup) and method == "_replace" and not pos and set(kw) <= set(recv.fields):
            return NTup.make([kw.get(f_, x) for f_, x in zip(recv.fields, recv)], recv.fields)
        if isinstance(recv, NTup) and method == "_asdict" and not pos and not kw:
            return DictValue(dict(zip(recv.fields, recv)))
        if isinstance(recv, DictValue) and method == "get" and 1 <= len(pos) <= 2 and not kw:
            return self.subscript_val(recv, pos[0], node) if self._has_key(recv, pos[0]) is True else \
                ((pos[1] if len(pos) == 2 else NONE) if self._has_key(recv, pos[0]) is False else Unknown("dictionary look-up with an undecided key"))
        if isinstance(recv, DictValue) and method in ("values", "keys", "items") and not pos and not kw:
            if method == "values":
                return tuple(recv.d.values())
            ks = tuple(F.sym(repr(k)) if isinstance(k, str) else (boolv(k) if isinstance(k, bool) else F.const(k)) for k in recv.d)
            return ks if method == "keys" else tuple(zip(ks, recv.d.values()))
        if isinstance(recv, tuple):
            if method in ("append", "extend") and len(pos) == 1:
                # a list kept in a name grows (lines / packed records collected before they are written)
                d = dotted(node.func.value) if isinstance(getattr(node, "func", None), ast.Attribute) else None
                if d is not None and self.env.get(d) is recv and d not in W.pinned:
                    if method == "append":
                        self.env[d] = recv + (pos[0],)
                    elif isinstance(pos[0], tuple):
                        self.env[d] = recv + pos[0]
                    else:
                        self.env[d] = Unknown("list extended by a sequence of unknown length")
                return NONE
            if method == "sort":
                return NONE
            if method in ("index", "count") and len(pos) == 1 and not kw:
                ks, k0 = [self.key_of(x) for x in recv], self.key_of(pos[0])
                if k0 is not ... and all(k is not ... for k in ks):
                    if method == "count":
                        return F.const(sum(1 for k in ks if k == k0 and type(k) is type(k0)))
                    hits = [i for i, k in enumerate(ks) if k == k0]
                    return F.const(hits[0]) if hits else Unknown("index() of a value the table does not hold (ValueError)")
            return Unknown(f"method {method} of a tuple")
        if isinstance(recv, PackV) and method == "join" and len(pos) == 1 and isinstance(pos[0], tuple) and not recv.items:
            if all(isinstance(x, PackV) for x in pos[0]):
                return PackV(None, [it for x in pos[0] for it in x.items], None)
            return next((x for x in pos[0] if is_unknown(x)), Unknown("join of values that are not packed bytes"))
        if not is_rat(recv):
            return Unknown(f"method {method} of {type(recv).__name__}")
        if sym_name(recv) == W.cls and f"{W.cls}.{method}" in W.table:
            # a method reached through the class object (type(self).m, a class kept in a name)
            key = f"{W.cls}.{method}"
            if not W.is_opaque(key):
                return self.call_func(FuncV(W.table[key]), pos, kw, node)
            return self.builtin_call(key, pos, kw, node)
        # ---- a Rat receiver
        if method == "write" and len(pos) == 1:
            W.emits.append(Emit(recv, self.packed_of(pos[0]) if isinstance(pos[0], TypedArr) else pos[0], tuple(W.frames), node, self.qual))
            return NONE
        if method == "writelines" and len(pos) == 1 and isinstance(pos[0], (tuple, SeqV)):
            for x in (pos[0] if isinstance(pos[0], tuple) else (pos[0].elem,)):
                W.emits.append(Emit(recv, x, tuple(W.frames), node, self.qual))
            return NONE
        if method == "readline" and not pos and W.lines is not None:
            return self.next_line(recv)
        if method == "read" and len(pos) == 1 and W.stream is not None:
            return W.stream.read(pos[0])
        if method == "seek" and W.stream is not None:
            # seek(n, 1) with n >= 0 skips the next n bytes: the same as a read whose result is dropped
            whence = pos[1] if len(pos) == 2 else kw.get("whence")
            rel = whence is not None and is_rat(whence) and (const_int(whence) == 1 or sym_name(whence) in ("os.SEEK_CUR", "io.SEEK_CUR", "SEEK_CUR"))
            if rel and pos and is_rat(pos[0]) and self.rng(pos[0])[0] is not None and self.rng(pos[0])[0] >= 0:
                r = W.stream.read(pos[0])
                return r if is_unknown(r) else F.fn("call:.tell", recv)
            W.stream.lost = True
            return Unknown("seek to a position the evaluator does not follow")
        if method in ("encode", "decode") and not pos:
            return recv
        if method == "sum" and not pos:
            return F.fn("call:sum", recv)
        if method == "nonzero" and not pos:
            return F.fn("call:np.nonzero", recv)
        if method in ("transpose",) and not pos:
            return F.fn("call:.transpose", recv)
        if method in ("any", "all") and not pos:
            return F.fn("call:np." + method, recv)
        if method == "format":
            return Unknown("format of a non-constant template")
        if method in ("ljust", "rjust", "center") and len(pos) == 1 and is_rat(pos[0]):
            # only strings / bytes have these methods: the receiver printed in a field of that width
            return Txt([Fld(recv, "s", pos[0], None, {"ljust": "<", "rjust": ">", "center": "^"}[method], "")])
        self.W.calls.append(("." + method, [recv] + list(pos), kw, node, tuple(W.frames)))
        try:
            args = [recv] + [wrap(a) for a in pos] + [F.fn("kw:" + k, wrap(v)) for k, v in sorted(kw.items())]
            return F.fn("call:." + method, *args)
        except Unsupported as e:
            for a in pos:
                if is_bad(a):
                    return a
            return Unknown(f"method {method}: {e}")

    def next_line(self, recv):
        W = self.W
        # data lines (lines of formatted reals) are read in blocks by the reader's block routine: skipped here
        while W.lines_i < len(W.lines) and getattr(W.lines[W.lines_i], "is_data", False):
            W.lines_i += 1
        if W.lines_i >= len(W.lines):
            return F.fn("call:.readline", recv, F.const(W.lines_i))
        ln = W.lines[W.lines_i]
        W.lines_i += 1
        return ln.txt

    def text_method(self, t, method, pos, kw, node):
        def sarg(i, default=None):
            if i >= len(pos):
                return default
            s = strconst(pos[i]) if is_rat(pos[i]) else None
            return s
        c = t.concrete()
        if c is not None:
            t = Txt([Lit(c)])
        if method in ("strip", "rstrip", "lstrip"):
            chars = sarg(0)
            if pos and chars is None:
                return Unknown("strip characters")
            return t.strip_ws(left=method != "rstrip", right=method != "lstrip", chars=chars)
        if method in ("upper", "lower"):
            r = t.map_lit(str.upper if method == "upper" else str.lower, method)
            return r if r is not None else Unknown(f"{method} of {t!r}")
        if method in ("encode", "decode"):
            return t
        if method == "replace" and len(pos) >= 2:
            a, b = sarg(0), sarg(1)
            if a is None or b is None:
                return Unknown("replace arguments")
            if c is not None:
                return Txt([Lit(c.replace(a, b))])
            if len(a) == 1 and len(b) == 1 and a.isalpha() and b.isalpha():
                r = t.map_lit(lambda s: s.replace(a, b), "replace_alpha")
                if r is not None:
                    return r
            return Unknown(f"replace on {t!r}")
        if method in ("startswith", "endswith") and len(pos) == 1:
            a = sarg(0)
            if a is None:
                return Unknown(f"{method} argument")
            r = t.startswith(a) if method == "startswith" else t.endswith(a)
            return boolv(r) if r is not None else Unknown(f"{method}({a!r}) of {t!r}")
        if method in ("removeprefix", "removesuffix") and len(pos) == 1 and not kw:
            # the text without the given head / tail when it has it, unchanged when it provably has not
            a = sarg(0)
            if a is None:
                return Unknown(f"{method} argument")
            if c is not None:
                return Txt([Lit(getattr(c, method)(a))]) if hasattr(c, method) else Unknown(method)
            r = t.startswith(a) if method == "removeprefix" else t.endswith(a)
            if r is None:
                return Unknown(f"{method}({a!r}) of {t!r}")
            if not r or not a:
                return t
            return t.slice(len(a), None) if method == "removeprefix" else t.slice(None, -len(a))
        if method in ("find", "index") and len(pos) == 1:
            a = sarg(0)
            if a is None:
                return Unknown("find argument")
            r = t.find(a)
            if r is None:
                return Unknown(f"find({a!r}) in {t!r}")
            if r == -1:
                return F.const(-1) if method == "find" else Unknown(f"index({a!r}) of a text that does not hold it")
            return F.const(r.minabs) if c is not None else r
        if method in ("ljust", "rjust", "center") and len(pos) == 1 and is_rat(pos[0]):
            al = {"ljust": "<", "rjust": ">", "center": "^"}[method]
            if c is None and len(t.p) == 1 and isinstance(t.p[0], Fld) and t.p[0].width is None:
                x = t.p[0]             # one value printed without a width: the same value in a field of that width
                return Txt([Fld(x.v, x.conv, pos[0], x.prec, al, x.flags)])
            return Txt([Fld(t if c is None else Txt([Lit(c)]), "s", pos[0], None, al, "")])
        if method == "split" and not pos and not kw:
            r = t.split_ws(rng=self.rng)
            return r if r is not None else Unknown(f"split() of {t!r}")
        if method == "split":
            a = sarg(0)
            if a is None:
                return Unknown("split separator")
            r = t.split(a)
            return r if r is not None else Unknown(f"split({a!r}) of {t!r}")
        if method == "partition" and len(pos) == 1:
            a = sarg(0)
            if a is not None and c is not None:
                return tuple(Txt([Lit(x)]) for x in c.partition(a))
            if a:
                r = t.split(a)
                if r is not None and len(r) == 1:
                    return (t, Txt(), Txt())
                if r is not None:
                    tail = []
                    for k, x in enumerate(r[1:]):
                        if k:
                            tail.append(Lit(a))
                        tail.append(x)
                    return (r[0], Txt([Lit(a)]), Txt(tail))
            return Unknown("partition")
        if method == "format":
            if any(is_unknown(x) for x in pos) or any(is_unknown(x) for x in kw.values()):
                return next(x for x in list(pos) + list(kw.values()) if is_unknown(x))
            return brace_format(t, pos, kw)
        if method == "join" and len(pos) == 1 and isinstance(pos[0], tuple):
            parts = []
            for k, x in enumerate(pos[0]):
                tx = as_txt(x)
                if tx is None:
                    return x if is_unknown(x) else Unknown("join of non-text values")
                if k:
                    parts.append(t)
                parts.append(tx)
            return Txt(parts)
        if method == "join" and len(pos) == 1 and isinstance(pos[0], SeqV):
            # the pieces of a sequence of unknown length: one generic piece stands for all of them
            tx = as_txt(pos[0].elem)
            if tx is None or t.p:
                return Unknown("join of a generic sequence")
            return tx
        if method == "join":
            return Unknown("join")
        if method in ("isidentifier", "isdigit", "isalpha"):
            if c is not None:
                return boolv(getattr(c, method)())
            return Unknown(method)
        return NotImplemented

    LIB_SHORT = (("numpy", "np"), ("scipy.sparse", "sp"))

    def lib_name(self, name):
        """the dotted name of a library function whatever the module calls the library: `it.accumulate` / `accumulate` (from itertools import
        accumulate) -> itertools.accumulate; numpy.x -> np.x, scipy.sparse.x -> sp.x (the spellings the rules use)"""
        W = self.W
        root = name.split(".")[0]
        if root in self.env or root in W.pinned or root in W.table or (root in self.locals and root not in (import_names(self.fn) if self.fn is not None else ())):
            return name
        al = dict(W.alias)
        if self.fn is not None and root in import_names(self.fn):
            for x in ast.walk(self.fn):
                if isinstance(x, ast.Import):
                    al.update({a.asname: a.name for a in x.names if a.asname})
                elif isinstance(x, ast.ImportFrom) and x.module and not x.level:
                    al.update({(a.asname or a.name): x.module + "." + a.name for a in x.names if a.name != "*"})
        full = al.get(root)
        if full is not None:
            name = full + name[len(root):]
        for long, short in self.LIB_SHORT:
            if name == long or name.startswith(long + "."):
                name = short + name[len(long):]
        return name

    def builtin_call(self, name, pos, kw, node):
        W = self.W
        if any(is_bad(x) for x in pos):
            return next(x for x in pos if is_bad(x))
        n = len(pos)
        name = self.lib_name(name)
        if name == "itertools.accumulate" and 1 <= n <= 2 and isinstance(pos[0], tuple) and set(kw) <= {"func", "initial"} and not (n == 2 and "func" in kw):
            # running totals of a table: (x0, x0 + x1, ...), with `initial` put in front
            func = pos[1] if n == 2 else kw.get("func")
            if func is not None and is_rat(func) and sym_name(func) == "None":
                func = None
            acc = kw.get("initial")
            if acc is not None and is_rat(acc) and sym_name(acc) == "None":
                acc = None
            out = [] if acc is None else [acc]
            for x in pos[0]:
                acc = x if acc is None else (self.binop_values(ast.Add(), acc, x, node) if func is None else self.call_value(func, [acc, x], {}, node))
                out.append(acc)
            return tuple(out)
        if name == "itertools.repeat" and n == 2 and not kw and is_rat(pos[1]) and const_int(pos[1]) is not None and 0 <= const_int(pos[1]) <= 64:
            return (pos[0],) * const_int(pos[1])
        if name in ("itertools.chain",) and not kw and all(isinstance(x, tuple) for x in pos):
            return tuple(y for x in pos for y in x)
        if name == "itertools.chain.from_iterable" and n == 1 and not kw and isinstance(pos[0], tuple) and all(isinstance(x, tuple) for x in pos[0]):
            return tuple(y for x in pos[0] for y in x)
        if name == "itertools.pairwise" and n == 1 and not kw and isinstance(pos[0], tuple):
            return tuple(zip(pos[0][:-1], pos[0][1:]))
        if name == "next" and 1 <= n <= 2 and not kw and isinstance(pos[0], tuple) and isinstance(node, ast.Call) and node.args and \
                (isinstance(node.args[0], ast.GeneratorExp) or (isinstance(node.args[0], ast.Call) and dotted(node.args[0].func) in ("map", "zip", "filter", "reversed", "enumerate"))):
            # next() of an iterator made on the spot (nothing else can have advanced it): its first element, or the default when it is empty
            if pos[0]:
                return pos[0][0]
            if n == 2:
                return pos[1]
            return Unknown("next() of an empty iterator without a default (StopIteration)")
        if name == "slice" and 1 <= n <= 3:
            vals = [None if (is_rat(x) and sym_name(x) == "None") else x for x in pos]
            if n == 1:
                return SliceV(None, vals[0])
            return SliceV(*vals)
        if name == "int" and n == 1:
            x = pos[0]
            t = as_txt(x)
            if t is not None:
                return t.as_int()
            if is_rat(x):
                if x.is_const():
                    return F.const(int(x.const_value()))
                if not x.d.is_const():
                    # int(a / b) with a >= 0 and b > 0 is a // b
                    num, den = F.Rat(x.n), F.Rat(x.d)
                    ln, ld = self.rng(num)[0], self.rng(den)[0]
                    if ln is not None and ld is not None and ((ln >= 0 and ld > 0)):
                        return self._intop(ast.FloorDiv(), num, den)
                return F.fn("call:int", x)
            return x if is_unknown(x) else Unknown("int of a non-text")
        if name == "str" and n == 1 and not kw:
            t = as_txt(pos[0])
            if t is not None:
                return t
            if is_rat(pos[0]) and not strish(pos[0]):
                return Txt([Fld(pos[0])])          # str(number): the default rendering
        if name == "format" and n in (1, 2) and not kw and (is_rat(pos[0]) or isinstance(pos[0], Txt)):
            spec = as_txt(pos[1]) if n == 2 else Txt()
            if spec is not None:
                f = make_field(pos[0], spec if spec.p else None)
                if not is_unknown(f):
                    return f
        if name == "len" and n == 1:
            x = pos[0]
            if isinstance(x, tuple):
                return F.const(len(x))
            if isinstance(x, BytesV):
                return x.n
            if isinstance(x, SeqV):
                return x.count if is_rat(x.count) else Unknown("length of a generic sequence")
            t = as_txt(x)
            if t is not None:
                k = t.fixed_len()
                if k is not None:
                    return F.const(k)
                for t0, lv in W.txt_lens:
                    if t0 is t or t0.same(t):
                        return lv
                # fixed part + one symbol per piece of unknown width (bounded below by its minimum)
                tot = F.const(0)
                for i, p in enumerate(t.p):
                    w = len(p.s) if isinstance(p, Lit) else p.nchars()
                    if w is not None:
                        tot = tot + w
                    else:
                        W.fresh += 1
                        s = F.sym(f"<len{W.fresh}>")
                        W.bound(s, p.min_chars(), None)
                        tot = tot + s
                W.txt_lens.append((t, tot))
                return tot
            if is_rat(x):
                return self.len_of(x)
            return x if is_unknown(x) else Unknown("len")
        if name in ("max", "min") and n >= 2 and not kw and all(is_rat(x) for x in pos):
            # the argument that is the largest / smallest whatever the inputs, when the intervals tell
            for i, x in enumerate(pos):
                if all(j == i or self.cmp_truth("GtE" if name == "max" else "LtE", x, y) is True for j, y in enumerate(pos)):
                    return x
        if name == "abs" and n == 1 and is_rat(pos[0]):
            lo, hi = self.rng(pos[0])
            if lo is not None and lo >= 0:
                return pos[0]
            if hi is not None and hi <= 0:
                return -pos[0]
            return F.fn("abs", pos[0])
        if name == "type" and n == 1 and not kw and is_rat(pos[0]) and sym_name(pos[0]) in ("self", "cls", W.cls):
            return F.sym(W.cls)
        if name in ("math.floor", "np.floor") and n == 1 and is_rat(pos[0]) and not pos[0].d.is_const():
            return self._intop(ast.FloorDiv(), F.Rat(pos[0].n), F.Rat(pos[0].d))
        if name in ("np.frombuffer", "numpy.frombuffer") and n >= 1 and isinstance(pos[0], BytesV):
            dt = pos[1] if n >= 2 else kw.get("dtype")
            if dt is not None and not isinstance(dt, DtypeV):
                t = as_txt(dt, True) if (isinstance(dt, Txt) or (is_rat(dt) and strconst(dt) is not None)) else None
                dt = DtypeV(t) if t is not None else None
            code = dt.code() if isinstance(dt, DtypeV) else None
            if code is None:
                return Unknown("np.frombuffer dtype")
            cnt = pos[2] if n >= 3 else kw.get("count")
            if cnt is None or (is_rat(cnt) and const_int(cnt) == -1):
                cnt = pos[0].n / CODE_SIZE[code]
            return unpack_items([(code, cnt)], pos[0]) if is_rat(cnt) else Unknown("np.frombuffer count")
        if name == "bool" and n == 1 and not kw:
            r = self.truth(pos[0])
            if r is not None:
                return boolv(r)
            if is_rat(pos[0]) and self.is_boolean(pos[0]):
                return pos[0]
        if name == "enumerate" and 1 <= n <= 2 and isinstance(pos[0], tuple) and set(kw) <= {"start"}:
            s0 = pos[1] if n == 2 else kw.get("start", F.const(0))
            if is_rat(s0):
                return tuple((s0 + k, x) for k, x in enumerate(pos[0]))
        if name == "zip" and n >= 1 and all(isinstance(x, tuple) for x in pos) and not kw:
            return tuple(zip(*pos))
        if name in ("reversed",) and n == 1 and isinstance(pos[0], tuple):
            return tuple(reversed(pos[0]))
        if name in ("np.flatnonzero", "numpy.flatnonzero") and n == 1 and is_rat(pos[0]):
            return F.fn("idx", F.fn("call:np.nonzero", pos[0]), F.const(0))
        if name in ("functools.partial", "partial") and n >= 1 and "**" not in kw and not any(isinstance(x, Star) for x in pos):
            if isinstance(pos[0], (FuncV, PartialV, GetterV, BoundV)) or is_rat(pos[0]):
                return PartialV(pos[0], pos[1:], kw)
        if name in ("io.BytesIO", "io.StringIO", "BytesIO", "StringIO") and n == 0 and not kw:
            return BufV(name.endswith("BytesIO"))
        if name == "operator.itemgetter" and n == 1 and not kw:
            return GetterV("item", pos[0])
        if name == "operator.attrgetter" and n == 1 and not kw and is_rat(pos[0]) and strconst(pos[0]) is not None:
            return GetterV("attr", strconst(pos[0]))
        if name == "operator.methodcaller" and n >= 1 and is_rat(pos[0]) and strconst(pos[0]) is not None:
            return GetterV("method", (strconst(pos[0]), list(pos[1:]), dict(kw)))
        if name in ("operator.add", "operator.sub", "operator.mul", "operator.floordiv", "operator.mod", "operator.lshift", "operator.rshift",
                    "operator.and_", "operator.or_") and n == 2 and not kw:
            op = {"add": ast.Add, "sub": ast.Sub, "mul": ast.Mult, "floordiv": ast.FloorDiv, "mod": ast.Mod, "lshift": ast.LShift, "rshift": ast.RShift,
                  "and_": ast.BitAnd, "or_": ast.BitOr}[name.split(".")[1]]()
            return self.binop_values(op, pos[0], pos[1], node)
        if name.split(".")[-1] == "SimpleNamespace" and n == 0 and "**" not in kw:
            return DictValue(dict(kw))
        if name == "dict" and n == 0 and "**" not in kw:
            return DictValue(dict(kw))
        if name == "dict" and n == 1 and isinstance(pos[0], DictValue) and "**" not in kw:
            return DictValue({**pos[0].d, **kw})
        if name == "dict" and n == 1 and isinstance(pos[0], tuple) and "**" not in kw:
            dv = self.dict_of_pairs(pos[0])          # dict(pairs) / dict(zip(keys, values)) with constant keys
            if dv is not None:
                dv.d.update(kw)
                return dv
        if name in ("tuple", "list") and n == 1 and not kw and isinstance(pos[0], DictValue):
            return self.method_call(pos[0], "keys", [], {}, node)          # iterating a dictionary gives its keys
        if name in ("tuple", "list") and n == 1 and not kw and self.const_range(pos[0]) is not None:
            return self.const_range(pos[0])
        if name in ("max", "min") and n == 1 and not kw and isinstance(pos[0], tuple) and len(pos[0]) >= 2 and all(is_rat(x) for x in pos[0]):
            return self.builtin_call(name, list(pos[0]), {}, node)
        if name == "sorted" and n == 1 and not kw and isinstance(pos[0], tuple) and all(is_rat(x) and x.is_const() for x in pos[0]):
            return tuple(sorted(pos[0], key=lambda x: x.const_value()))
        if name in ("any", "all") and n == 1 and not kw and isinstance(pos[0], tuple):
            rs = [self.truth(x) for x in pos[0]]
            hit = name == "any"
            if any(r is hit for r in rs):
                return boolv(hit)
            if all(r is not None for r in rs):
                return boolv(not hit)
            # not decided: left as an opaque application of the values (below)
        if name == "itertools.starmap" and n == 2 and not kw and isinstance(pos[1], tuple) and all(isinstance(x, tuple) for x in pos[1]):
            return tuple(self.call_value(pos[0], list(x), {}, node) for x in pos[1])
        if name in W.records and "**" not in kw and not any(isinstance(x, Star) for x in pos):
            kind_, fields, dflt = W.records[name]
            vals = dict(zip(fields, pos))
            if len(pos) > len(fields) or set(kw) - set(fields) or set(kw) & set(vals):
                return Unknown(f"arguments of the record {name}")
            vals.update(kw)
            for f_ in fields:
                if f_ not in vals:
                    if f_ not in dflt:
                        return Unknown(f"field {f_} of the record {name} is not given")
                    vals[f_] = self.ev(dflt[f_])
            return NTup.make([vals[f_] for f_ in fields], fields) if kind_ == "tuple" else DictValue(vals)
        if name == "map" and n >= 2 and all(isinstance(x, tuple) for x in pos[1:]) and not kw:
            return tuple(self.call_value(pos[0], list(xs), {}, node) for xs in zip(*pos[1:]))
        if name == "filter" and n == 2 and isinstance(pos[1], tuple) and not kw:
            keep = []
            for x in pos[1]:
                r = self.truth(x if (is_rat(pos[0]) and sym_name(pos[0]) == "None") else self.call_value(pos[0], [x], {}, node))
                if r is None:
                    return Unknown("filter with an undecided predicate")
                if r:
                    keep.append(x)
            return tuple(keep)
        if name == "divmod" and n == 2 and is_rat(pos[0]) and is_rat(pos[1]):
            q = self._intop(ast.FloorDiv(), pos[0], pos[1])
            r = self._intop(ast.Mod(), pos[0], pos[1])
            return (q, r)
        if name in ("struct.Struct",) and n == 1:
            t = as_txt(pos[0], True)
            return StructV(t) if t is not None else Unknown("struct format")
        if name in ("struct.pack", "struct.unpack", "struct.Struct", "struct.calcsize") and n >= 1 and is_rat(pos[0]) and pos[0].is_const():
            why = f"{name} with a number where the format string belongs"
            W.crash(node, why + " (TypeError)", self.qual)
            return Bad(why)
        if name == "struct.pack" and n >= 1:
            t = as_txt(pos[0], True)
            if t is None:
                return Unknown("struct format")
            if any(is_unknown(x) for x in pos[1:]):
                return next(x for x in pos[1:] if is_unknown(x))
            r = pack_items(t, pos[1:], node)
            return r if is_unknown(r) else PackV(r[0], r[1], t)
        if name == "struct.unpack" and n == 2:
            t = as_txt(pos[0], True)
            if t is None:
                return Unknown("struct format")
            return self.unpack(t, pos[1])
        if name == "struct.unpack_from" and n >= 2:
            t = as_txt(pos[0], True)
            if t is None:
                return Unknown("struct format")
            return self.struct_call(StructV(t), "unpack_from", pos[1:], node)
        if name in ("np.asarray", "np.array", "np.ascontiguousarray", "np.asanyarray", "np.require") and n >= 1 and (n >= 2 or "dtype" in kw):
            r = self.typed_array(pos[0], pos[1] if n >= 2 else kw["dtype"])
            if r is not None:
                return r
        if name in ("bytes", "bytearray", "memoryview") and n == 1 and isinstance(pos[0], TypedArr):
            return self.packed_of(pos[0])
        if name == "struct.calcsize" and n == 1:
            t = as_txt(pos[0], True)
            if t is not None:
                return self.attr_of(StructV(t), "size", node)
        if name == "np.dtype" and n == 1:
            t = as_txt(pos[0], True)
            if t is not None:
                return DtypeV(t)
        if name == "np.fromfile" and n >= 3 and W.stream is not None:
            dt = pos[1]
            code = dt.code() if isinstance(dt, DtypeV) else None
            if code is None or not is_rat(pos[2]):
                return Unknown("np.fromfile dtype / count")
            by = W.stream.read(pos[2] * CODE_SIZE[code])
            if is_unknown(by):
                return by
            return unpack_items([(code, pos[2])], by)
        if name in ("sum", "math.fsum") and 1 <= n <= 2 and not kw and isinstance(pos[0], tuple) and all(is_rat(x) for x in pos[0]) and all(is_rat(x) for x in pos[1:]):
            tot = pos[1] if n == 2 else F.const(0)          # sum of a literal table: the terms added up
            for x in pos[0]:
                tot = self.binop_values(ast.Add(), tot, x, node)
            return tot
        if name in ("sum", "np.sum") and n >= 1 and is_rat(pos[0]):
            return F.fn("call:sum", pos[0])
        if name == "np.nonzero" and n == 1 and is_rat(pos[0]):
            return F.fn("call:np.nonzero", pos[0])
        if name in ("np.any", "any", "np.all", "all") and n == 1 and is_rat(pos[0]):
            return F.fn("call:np." + name.split(".")[-1], pos[0])
        if name in ("np.transpose",) and n == 1 and is_rat(pos[0]):
            return F.fn("call:.transpose", pos[0])
        if name in ("np.shape", "numpy.shape") and n == 1:
            return self.attr_of(pos[0], "shape", node)
        if name in ("float",) and n == 1 and is_rat(pos[0]):
            return pos[0]
        if name in ("tuple", "list") and n == 1 and isinstance(pos[0], tuple):
            return pos[0]
        if name in ("tuple", "list") and n == 0:
            return ()
        if name in ("bytes", "bytearray") and n == 1 and isinstance(pos[0], (PackV, BytesV)):
            return pos[0]
        if name in ("bytes", "bytearray") and n == 0:
            return PackV(None, [], None)
        if name == "range" and 1 <= n <= 3 and all(is_rat(x) for x in pos):
            return F.fn("call:range", *pos)
        if name in ("getattr", "setattr") and n >= 2:
            t = as_txt(pos[1])
            nm = t.concrete() if t is not None else None
            if nm is None or not nm.isidentifier():
                return Unknown(f"{name} with a name that is not a constant")
            bn = sym_name(pos[0]) if is_rat(pos[0]) else None
            if name == "setattr":
                if n != 3 or bn is None:
                    return Unknown("setattr on a value")
                d = bn + "." + nm
                if d not in W.pinned:
                    self.env[d] = pos[2]
                return NONE
            if bn in ("self", W.cls):
                # the attribute as the expression `self.name` / `OP4.name` would give it (methods, class constants, state)
                return self._ev(ast.Attribute(value=ast.Name(id=bn, ctx=ast.Load()), attr=nm, ctx=ast.Load()))
            return self.attr_of(pos[0], nm, node)
        if name == "print":
            if "file" in kw and is_rat(kw["file"]) and sym_name(kw["file"]) != "None":
                # print(a, b, sep=.., end=.., file=f) writes str(a) + sep + str(b) + end to f
                sep = strconst(kw["sep"]) if "sep" in kw and is_rat(kw["sep"]) else (" " if "sep" not in kw else None)
                end = strconst(kw["end"]) if "end" in kw and is_rat(kw["end"]) else ("\n" if "end" not in kw else None)
                parts = [as_txt(x, True) for x in pos]
                if sep is None or end is None or any(p_ is None for p_ in parts) or set(kw) - {"file", "sep", "end", "flush"}:
                    return Unknown("print to a file with arguments that are not texts")
                out = []
                for k, p_ in enumerate(parts):
                    if k:
                        out.append(Lit(sep))
                    out.append(p_)
                out.append(Lit(end))
                W.emits.append(Emit(kw["file"], Txt(out), tuple(W.frames), node, self.qual))
            return NONE
        root = name.split(".")[0]
        if self.fn is not None and root in W.module_names and root not in W.imports and name not in W.table and not W.is_opaque(name) \
                and root not in self.env and root not in ("self", W.cls):
            # an object the module itself defines (a class, a partial, a table of callables) that the evaluator does not model: what the call
            # does or returns is unknown - an opaque application would be taken for a library function of its arguments
            W.gap(node, f"call of the module-level object `{name}` is not modelled", self.qual)
            return Unknown(f"call of the module-level object `{name}` is not modelled")
        return self.opaque_call(name, pos, kw, node)

    def len_of(self, x):
        """len() of an array value: slices, ravel / asarray wrappers, scatter updates and the float view of a complex array are resolved"""
        u = unfn(x)
        if u is not None:
            name, a = u
            if name in ("call:.ravel", "call:np.asarray", "call:np.array", "call:.copy", "call:np.atleast_1d") and a and is_rat(a[0]):
                return self.len_of(a[0])
            if name == "upd" and a and is_rat(a[0]):
                return self.len_of(a[0])
            if name == "asreal" and a and is_rat(a[0]):
                return self.len_of(a[0]) * self.W.mult
            if name == "call:np.zeros" and a and is_rat(a[0]):
                return a[0]
            if name == "call:.read" and len(a) == 2 and is_rat(a[1]) and sym_name(a[1]) != "None":
                return a[1]          # the scenario is a complete file: a read of n bytes returns n bytes
            if name == "idx" and len(a) == 2 and is_rat(a[1]):
                us = unfn(a[1])
                if us is not None and us[0] == "slice" and len(us[1]) == 3 and sym_name(us[1][2]) == "None" and sym_name(us[1][1]) != "None":
                    lo = F.const(0) if sym_name(us[1][0]) == "None" else us[1][0]
                    return us[1][1] - lo
        return F.fn("len", x)

    # ------------------------------------------------------------------------------------------------ statements
    def run(self, stmts):
        for st in stmts:
            if self.done or self.loopctl:
                break
            self.stmt(st)

    def stmt(self, st):
        W = self.W
        if self.done or self.loopctl:
            return
        t = type(st)
        if t is ast.Expr:
            if isinstance(st.value, ast.Yield):
                v = self.ev(st.value.value) if st.value.value is not None else NONE
                if self.on_yield is not None:
                    self.on_yield(v)
                return
            if isinstance(st.value, ast.Constant):
                return
            self.ev(st.value)
            return
        if t in (ast.FunctionDef, ast.AsyncFunctionDef):
            self.env[st.name] = FuncV(st, closure=self.env, qual=getattr(st, "_vqual", st.name))
            return
        if t is ast.Return:
            v = self.ev(st.value) if st.value is not None else None
            self.returns.append((v, st))
            self.done = True
            return
        if t is ast.Raise:
            W.raises.append((st, self.qual))
            self.raised = True
            self.done = True
            return
        if t is ast.Assign:
            v = self.ev(st.value)
            for tg in st.targets:
                self._assign(tg, v, st)
            return
        if t is ast.AnnAssign:
            if st.value is not None:
                self._assign(st.target, self.ev(st.value), st)
            return
        if t is ast.AugAssign:
            import copy
            ld = copy.copy(st.target)
            ld.ctx = ast.Load()
            cur = self.ev(ld)
            v = self.ev(st.value)
            self._assign(st.target, self.binop_values(st.op, cur, v, st), st, aug=True)
            return
        if t is ast.If:
            tv = self.ev(st.test)
            c = self.truth(tv)
            if c is None and is_bad(tv):
                self._kill_assigned(st, tv)
                return
            if c is True:
                self.run(st.body)
            elif c is False:
                self.run(st.orelse)
            else:
                self.fork_if(st, tv)
            return
        if t is ast.For:
            self.do_for(st)
            return
        if t is ast.While and self.counter_loop(st):
            return
        if t is ast.While:
            # the test the loop goes on under: its own test and the leading `if ...: break` guards of its body (`while True: if c >= cols: break`)
            guards = []
            for s0 in st.body:
                if isinstance(s0, ast.If) and not s0.orelse and len(s0.body) == 1 and isinstance(s0.body[0], ast.Break):
                    guards.append(s0.test)
                else:
                    break

            def loop_test():
                parts = [self.ev(st.test)] + [negate(self.ev(g)) for g in guards]
                if guards:
                    live = [p for p in parts if not (is_rat(p) and (p.is_const() and p.const_value() != 0 or sym_name(p) == "True"))]
                    if len(live) == 1:
                        return live[0]
                    if len(live) > 1 and all(is_rat(p) for p in live):
                        return F.fn("bool:And", *live)
                return parts[0]
            tv = loop_test()
            rec = [st, tv, None, self.qual]
            W.whiles.append(rec)
            fr = Frame(st, tv, None, "while")
            W.frames.append(fr)
            try:
                self.run(st.body)
            finally:
                W.frames.pop()
            if not self.done and self.loopctl != "break":
                n = len(W.compares)
                rec[2] = loop_test()               # the test as the next iteration would see it
                del W.compares[n:]
            self.loopctl = None
            return
        if t is ast.With:
            for it in st.items:
                v = self.ev(it.context_expr)
                if it.optional_vars is not None:
                    self._assign(it.optional_vars, v, st)
            self.run(st.body)
            return
        if t is ast.Try:
            self.in_try += 1
            try:
                self.run(st.body)
            except PyRaise as e:
                for h in st.handlers:
                    names = []
                    if h.type is not None:
                        names = [dotted(x) for x in (h.type.elts if isinstance(h.type, ast.Tuple) else [h.type])]
                    if h.type is None or e.kind in names or "Exception" in names or "BaseException" in names:
                        self.in_try -= 1
                        if h.name:
                            self.env[h.name] = F.sym(f"<exception {e.kind}>")
                        try:
                            self.run(h.body)
                        finally:
                            self.in_try += 1
                        break
                else:
                    self.in_try -= 1
                    raise
            finally:
                self.in_try -= 1
            if not self.done and not self.loopctl:
                self.run(st.orelse)
            saved = (self.done, self.loopctl)
            self.done, self.loopctl = False, None
            self.run(st.finalbody)
            self.done, self.loopctl = saved[0] or self.done, saved[1] or self.loopctl
            return
        if t is ast.Break:
            self.loopctl = "break"
            return
        if t is ast.Continue:
            self.loopctl = "continue"
            return
        if t is ast.Match:
            self.do_match(st)
            return
        if t in (ast.Pass, ast.Import, ast.ImportFrom, ast.Assert):
            return          # no effect on the values followed
        if t is ast.Delete:
            for tg in st.targets:
                if isinstance(tg, ast.Name) and tg.id not in W.pinned:
                    self.env.pop(tg.id, None)
            return
        # anything else (global / nonlocal, class definitions, async statements, ...): not lowered - whatever it binds is unknown from here on
        W.gap(st, f"statement `{t.__name__}` is not lowered", self.qual)
        self._kill_assigned(st, f"bound by a `{t.__name__}` statement the evaluator does not lower")

    def counter_loop(self, st):
        """`i = a; while i < n: BODY; i += s` is `for i in range(a, n, s): BODY` when nothing else in the body binds i and no `continue` skips the
        increment: evaluated as that for loop (one generic iteration).  Returns False when the loop has another shape"""
        W = self.W
        t = st.test
        if st.orelse or not isinstance(t, ast.Compare) or len(t.ops) != 1 or len(st.body) < 2:
            return False
        a, b, op = t.left, t.comparators[0], t.ops[0]
        if isinstance(op, (ast.Gt, ast.GtE)):
            a, b, op = b, a, (ast.Lt() if isinstance(op, ast.Gt) else ast.LtE())
        if not isinstance(op, (ast.Lt, ast.LtE)) or not isinstance(a, ast.Name):
            return False
        name = a.id
        if name in W.pinned or name not in self.env or any(isinstance(x, ast.Name) and x.id == name for x in ast.walk(b)):
            return False
        last = st.body[-1]
        if not (isinstance(last, ast.AugAssign) and isinstance(last.op, ast.Add) and isinstance(last.target, ast.Name) and last.target.id == name):
            return False
        for s0 in st.body[:-1]:
            for x in ast.walk(s0):
                if isinstance(x, ast.Name) and x.id == name and isinstance(x.ctx, (ast.Store, ast.Del)):
                    return False
                if isinstance(x, (ast.Continue, ast.FunctionDef, ast.Lambda, ast.Global, ast.Nonlocal)):
                    return False
        if any(isinstance(x, ast.Name) and x.id == name for x in ast.walk(last.value)):
            return False
        init = self.env[name]
        step = self.ev(last.value)
        if not is_rat(init) or not is_rat(step):
            return False
        lo_, _hi = self.rng(step)
        if lo_ is None or lo_ <= 0:
            return False
        W.fresh += 1
        n0 = f"<init{W.fresh}>"
        self.env[n0] = init
        args = [ast.Name(id=n0, ctx=ast.Load()), b if isinstance(op, ast.Lt) else ast.BinOp(left=b, op=ast.Add(), right=ast.Constant(value=1))]
        if const_int(step) != 1:
            args.append(last.value)
        loop = ast.For(target=ast.Name(id=name, ctx=ast.Store()), iter=ast.Call(func=ast.Name(id="range", ctx=ast.Load()), args=args, keywords=[]),
                       body=list(st.body[:-1]), orelse=[], type_comment=None)
        ast.copy_location(loop, st)
        ast.fix_missing_locations(loop)
        for x in (loop.target, loop.iter):
            ast.copy_location(x, st)
        self.do_for(loop)
        self.env.pop(n0, None)
        if not self.done:
            bound = self.ev(args[1])
            ok = const_int(step) == 1 and is_rat(bound) and self.truth(F.fn("cmp:LtE", init, bound)) is True
            self.env[name] = bound if ok else Unknown(f"value of the counter `{name}` after its loop")
        return True

    def do_match(self, st):
        """match subject: case ...  ->  the if / elif chain it abbreviates (literal, dotted-name, singleton, `|` and capture / wildcard patterns; the
        subject is evaluated once)"""
        W = self.W
        W.fresh += 1
        tmp = f"<match{W.fresh}>"
        self.env[tmp] = self.ev(st.subject)

        def subj():
            return ast.Name(id=tmp, ctx=ast.Load())

        def test_of(p):
            if isinstance(p, ast.MatchValue):
                return ast.Compare(left=subj(), ops=[ast.Eq()], comparators=[p.value])
            if isinstance(p, ast.MatchSingleton):
                return ast.Compare(left=subj(), ops=[ast.Is()], comparators=[ast.Constant(value=p.value)])
            if isinstance(p, ast.MatchAs) and p.pattern is None:
                return ast.Constant(value=True)
            if isinstance(p, ast.MatchOr):
                parts = [test_of(x) for x in p.patterns]
                return None if any(x is None for x in parts) else ast.BoolOp(op=ast.Or(), values=parts)
            return None
        chain = []
        for case in reversed(st.cases):
            t = test_of(case.pattern)
            capture = case.pattern.name if isinstance(case.pattern, ast.MatchAs) and case.pattern.pattern is None else None
            if t is None or (capture and case.guard is not None):
                W.gap(case.pattern, "match pattern is not lowered", self.qual)
                self._kill_assigned(st, "bound under a match pattern the evaluator does not lower")
                return
            body = list(case.body)
            if capture:
                body = [ast.Assign(targets=[ast.Name(id=capture, ctx=ast.Store())], value=subj(), lineno=case.pattern.lineno)] + body
            if case.guard is not None:
                t = ast.BoolOp(op=ast.And(), values=[t, case.guard])
            node = ast.If(test=t, body=body, orelse=chain)
            ast.copy_location(node, case.pattern)
            ast.fix_missing_locations(node)
            chain = [node]
        if chain:
            self.stmt(chain[0])

    # ---- an `if` whose test is not decided: both arms are evaluated; when they leave the same state (same values, same position in the
    # input) the arms are interchangeable for the rule and evaluation continues, otherwise what they assign becomes Unknown
    def _snap(self):
        W = self.W
        return dict(env=dict(self.env), done=self.done, loopctl=self.loopctl, nret=len(self.returns), raised=self.raised,
                    si=W.stream.i if W.stream is not None else None, li=W.lines_i,
                    logs=[len(x) for x in (W.emits, W.calls, W.compares, W.whiles, W.stores, W.undecided, W.raises, W.misreads)], alts=list(self.alts))

    def _restore(self, sn, logs=True):
        W = self.W
        self.env = dict(sn["env"])
        self.done, self.loopctl, self.raised = sn["done"], sn["loopctl"], sn["raised"]
        del self.returns[sn["nret"]:]
        self.alts = list(sn["alts"])
        if W.stream is not None:
            W.stream.i = sn["si"]
        W.lines_i = sn["li"]
        if logs:
            for x, n in zip((W.emits, W.calls, W.compares, W.whiles, W.stores, W.undecided, W.raises, W.misreads), sn["logs"]):
                del x[n:]

    def _pos(self):
        W = self.W
        return (W.stream.i if W.stream is not None else None, W.lines_i)

    @staticmethod
    def _phi(tv, va, vb):
        """value of a name after `if T: name = va` / `else: name = vb` when one side is the test value itself: `x = T; if x: x = B` is
        `T and B`, `if not x: x = B` is `T or B` (exact in Python: and / or return one of their operands)"""
        if not (is_rat(tv) and is_rat(va) and is_rat(vb)):
            return None
        u = unfn(tv)
        neg, core = (True, u[1][0]) if (u and u[0] == "not" and len(u[1]) == 1) else (False, tv)
        try:
            if vb.equals(core):
                return F.fn("bool:Or", core, va) if neg else F.fn("bool:And", core, va)
            if va.equals(core):
                return F.fn("bool:And", core, vb) if neg else F.fn("bool:Or", core, vb)
        except Unsupported:
            return None
        return None

    def fork_if(self, st, tv=None):
        W = self.W
        why = f"assigned under the undecided test `{ast.unparse(st.test)[:60]}`"
        pre = self._snap()
        self.run(st.body)
        a = dict(env=self.env, done=self.done, loopctl=self.loopctl, raised=self.raised, ret=self.returns[pre["nret"]:], pos=self._pos(), alts=list(self.alts))
        mid = self._snap()
        self._restore(pre, logs=False)
        self.run(st.orelse)
        b = dict(env=self.env, done=self.done, loopctl=self.loopctl, raised=self.raised, ret=self.returns[pre["nret"]:], pos=self._pos(), alts=list(self.alts))
        b_moved = len(W.emits) > mid["logs"][0] or any(not isinstance(c[0], str) for c in W.calls[mid["logs"][1]:])
        # drop what the second arm logged (the first arm's trace stands for both when they merge)
        for x, n in zip((W.emits, W.calls, W.compares, W.whiles, W.stores, W.undecided, W.raises, W.misreads), mid["logs"]):
            del x[n:]
        ok = a["loopctl"] == b["loopctl"] and a["raised"] == b["raised"] and a["alts"] == b["alts"]
        if a["done"] == b["done"] and a["pos"] != b["pos"]:
            ok = False
        if ok and a["done"] and b["done"]:
            ra = a["ret"][-1][0] if a["ret"] else None
            rb = b["ret"][-1][0] if b["ret"] else None
            if not same_value(ra, rb):
                ok = False
        elif ok and a["done"] != b["done"]:
            # one arm returns, the other falls through: remember the early return, go on with the arm that continues
            d, c = (a, b) if a["done"] else (b, a)
            if d["raised"]:
                ok = False
            else:
                self.env = dict(c["env"])
                for k in set(d["env"]) | set(c["env"]):
                    if k.startswith("self.") and not same_value(d["env"].get(k), c["env"].get(k)):
                        self.env[k] = Unknown(why)
                self.done, self.loopctl, self.raised = False, c["loopctl"], False
                del self.returns[pre["nret"]:]
                cond = None
                if tv is not None and is_rat(tv):
                    cond = tv if d is a else negate(tv)
                self.alts = list(c["alts"]) + [(d["ret"][-1][0] if d["ret"] else None, d["pos"], cond)]
                if W.stream is not None:
                    W.stream.i = c["pos"][0]
                W.lines_i = c["pos"][1]
                W.forks.append((st, self.qual))
                return
        if ok:
            env = {}
            for k in set(a["env"]) | set(b["env"]):
                va, vb = a["env"].get(k), b["env"].get(k)
                if va is vb or same_value(va, vb):
                    env[k] = vb          # (an Unknown neither arm touched keeps its own reason)
                else:
                    phi = self._phi(tv, va, vb)
                    env[k] = phi if phi is not None else Unknown(why)
            self.env = env
            W.forks.append((st, self.qual))
            return
        # neither merged nor split: what the two arms wrote, read or called is dropped - if there was anything, the trace is incomplete
        moved = b_moved or a["raised"] != b["raised"] or a["pos"] != b["pos"] or a["pos"] != (pre["si"], pre["li"]) or mid["logs"][0] > pre["logs"][0] \
            or any(not isinstance(c[0], str) for c in W.calls[pre["logs"][1]:mid["logs"][1]])
        self._restore(pre, logs=True)
        W.undecided.append((st, None, self.qual))
        if moved:
            W.gap(st, f"writes / reads / calls under the undecided test `{ast.unparse(st.test)[:60]}` are dropped", self.qual)
        self._kill_assigned(st, why)

    def _kill_assigned(self, st, why):
        for n in ast.walk(st):
            tg = []
            if isinstance(n, ast.Assign):
                tg = n.targets
            elif isinstance(n, (ast.AugAssign, ast.AnnAssign)):
                tg = [n.target]
            elif isinstance(n, ast.For):
                tg = [n.target]
            elif isinstance(n, ast.NamedExpr):
                tg = [n.target]
            for t in tg:
                for x in ast.walk(t):
                    if isinstance(x, ast.Name) and isinstance(x.ctx, ast.Store):
                        if x.id not in self.W.pinned:
                            self.env[x.id] = why if is_unknown(why) else Unknown(why)
                    elif isinstance(x, ast.Attribute) and isinstance(x.ctx, ast.Store):
                        d = dotted(x)
                        if d and d not in self.W.pinned:
                            self.env[d] = why if is_unknown(why) else Unknown(why)

    def fresh_elems(self, target, frame_no):
        k = [0]

        def mk(t):
            if isinstance(t, (ast.Tuple, ast.List)):
                return tuple(mk(e) for e in t.elts)
            s = F.sym(f"<el{frame_no}.{k[0]}>")
            k[0] += 1
            return s
        return mk(target)

    def do_for(self, st):
        W = self.W
        it = st.iter
        if isinstance(it, ast.Call):
            fv = None
            nm = dotted(it.func)
            if isinstance(it.func, ast.Name) and isinstance(self.env.get(it.func.id), FuncV):
                fv = self.env[it.func.id]
            elif nm is not None and nm not in self.env and nm in W.table and not W.is_opaque(nm):
                fv = FuncV(W.table[nm])
            if fv is not None and is_generator(fv.fn) and self.depth < MAX_DEPTH:
                pos, kw = self._args(it)
                env = self.bind_params(fv, pos, kw)
                if is_unknown(env):
                    self._kill_assigned(st, env.why)
                    return
                sub = OP4Eval(fv.fn, W, env=env, qual=fv.qual, depth=self.depth + 1)

                def on_yield(v, sub=sub):
                    self._assign(st.target, v, st)
                    self.run(st.body)
                    if self.loopctl == "break" or self.done:
                        sub.done = True
                    self.loopctl = None
                sub.on_yield = on_yield
                sub.run(fv.fn.body)
                self._merge_state(sub)
                return
        itv = self.ev(it)
        if isinstance(itv, tuple) and len(itv) <= 64 and not any(is_unknown(x) for x in itv):
            # a literal table: one pass per row
            for x in itv:
                self._assign(st.target, x, st)
                self.run(st.body)
                if self.done or self.loopctl == "break":
                    break
                self.loopctl = None
            else:
                self.loopctl = None
                if not self.done:
                    self.run(st.orelse)
            self.loopctl = None
            return
        W.nframes += 1
        elems = self.fresh_elems(st.target, W.nframes)
        fr = Frame(st, itv, elems, "for")
        # a range: the element is bounded by it
        u = unfn(itv) if is_rat(itv) else None
        if u is not None and u[0] == "call:range" and is_rat(elems):
            a = u[1]
            fr.index = elems
            if len(a) == 1:
                W.bound(elems, 0, a[0] - 1)
                ul = unfn(a[0])
                if ul is not None and ul[0] == "len" and len(ul[1]) == 1:
                    fr.rows_of = ul[1][0]
            elif len(a) == 2:
                W.bound(elems, a[0], a[1] - 1)
        pair = elems
        first = None
        if u is not None and u[0] == "call:enumerate" and 1 <= len(u[1]) <= 2 and isinstance(elems, tuple) and len(elems) == 2 and is_rat(elems[0]):
            # enumerate(X[, start]): the counter is start + k, the element is element k of X
            start = F.const(0)
            if len(u[1]) == 2:
                us = unfn(u[1][1])
                start = us[1][0] if (us is not None and us[0] == "kw:start" and us[1]) else u[1][1]
            inner = u[1][0]
            fr.index = elems[0]
            ln = self.len_of(inner) if is_rat(inner) else None
            W.bound(elems[0], 0, ln - 1 if is_rat(ln) else None)
            first = elems[0] + start if is_rat(start) else Unknown("enumerate start")
            u, pair = unfn(inner), elems[1]
        if u is not None and u[0].endswith("_sparse_col_stats") and isinstance(pair, tuple) and len(pair) == 2 and all(is_rat(x) for x in pair) and W.shape_of:
            # rows of the (start, length) table of the non-zero strings of a column
            rows = next(iter(W.shape_of.values()))[0]
            W.bound(pair[0], 0, rows - 1)
            W.bound(pair[1], 1, rows)
        val = elems
        if u is not None and u[0] == "call:.transpose" and len(u[1]) == 1 and is_rat(u[1][0]) and is_rat(pair):
            # the rows of X.T are the columns of X: element k is X[:, k]
            k = fr.index
            if k is None:
                W.fresh += 1
                k = fr.index = F.sym(f"<ix{W.fresh}>")
            sh = W.shape_of.get(atom_id(u[1][0]))
            if sh is not None:
                W.bound(k, 0, sh[1] - 1)
            col = F.fn("idx", u[1][0], F.fn("tuple", F.fn("slice", NONE, NONE, NONE), k))
            val = (first, col) if first is not None else col
        elif first is not None:
            val = (first, elems[1])
        if u is not None and u[0] == "idx" and len(u[1]) == 2 and is_rat(elems):
            # element k of base[lo:hi] is base[lo + k]
            us = unfn(u[1][1])
            if us is not None and us[0] == "slice" and len(us[1]) == 3 and sym_name(us[1][2]) == "None":
                lo = F.const(0) if sym_name(us[1][0]) == "None" else us[1][0]
                if sym_name(us[1][1]) != "None":
                    W.bound(elems, 0, us[1][1] - lo - 1)
                val = F.fn("idx", u[1][0], lo + elems)
        W.frames.append(fr)
        try:
            self._assign(st.target, val, st)
            self.run(st.body)
        finally:
            W.frames.pop()
        self.loopctl = None

    def _assign(self, target, v, st, aug=False):
        W = self.W
        if isinstance(target, ast.Name):
            if target.id not in W.pinned:
                self.env[target.id] = v
            return
        if isinstance(target, ast.Attribute):
            d = dotted(target)
            if target.attr == "dtype" and isinstance(target.value, ast.Name) and is_rat(v) and sym_name(v) in ("float", "np.float64") \
                    and is_rat(self.env.get(target.value.id)):
                # X.dtype = float : the array is viewed as reals from here on (a complex array shows two reals per entry)
                self.env[target.value.id] = F.fn("asreal", self.env[target.value.id])
                return
            if d and d not in W.pinned:
                self.env[d] = v
            return
        if isinstance(target, ast.Starred):
            self._assign(target.value, Unknown("starred target"), st)
            return
        if isinstance(target, (ast.Tuple, ast.List)):
            n = len(target.elts)
            stars = [k for k, t in enumerate(target.elts) if isinstance(t, ast.Starred)]
            if isinstance(v, SeqV) and not stars:
                v = Unknown("unpacking of a sequence of unknown length")
            if len(stars) == 1 and isinstance(v, tuple):
                # a, *rest, z = values : the starred name takes what the others leave (a list)
                k = stars[0]
                after = n - k - 1
                if len(v) < n - 1:
                    why = Bad(f"unpacking {len(v)} values into at least {n - 1} names")
                    for t in target.elts:
                        self._assign(t.value if isinstance(t, ast.Starred) else t, why, st)
                    return
                for t, x in zip(target.elts[:k], v[:k]):
                    self._assign(t, x, st)
                self._assign(target.elts[k].value, tuple(v[k:len(v) - after]), st)
                for t, x in zip(target.elts[k + 1:], v[len(v) - after:]):
                    self._assign(t, x, st)
            elif stars:
                why = v if is_unknown(v) else Unknown("starred target of a value that is not a tuple")
                for t in target.elts:
                    self._assign(t.value if isinstance(t, ast.Starred) else t, why, st)
            elif isinstance(v, tuple) and len(v) == n:
                for t, x in zip(target.elts, v):
                    self._assign(t, x, st)
            elif is_rat(v):
                if self.in_try and (v.is_const() or sym_name(v) in ("True", "False", "None")):
                    raise PyRaise("TypeError")
                # X[[i, j, ...]] unpacked into as many names: the names are X[i], X[j], ...
                u = unfn(v)
                picks = None
                if u is not None and u[0] == "idx" and len(u[1]) == 2:
                    ul = unfn(u[1][1])
                    if ul is not None and ul[0] == "list" and len(ul[1]) == n:
                        picks = [F.fn("idx", u[1][0], x) for x in ul[1]]
                vals = [picks[k] if picks is not None else F.fn("idx", v, F.const(k)) for k in range(n)]
                if picks is None and u is not None and u[0] == "idx" and len(u[1]) == 2 and is_rat(u[1][1]):
                    # `a, b = X[k]` inside `for k in range(len(X))`: the names are the generic row of X, as `for a, b in X` would bind them
                    for fr in reversed(W.frames):
                        if fr.kind == "for" and fr.rows_of is not None and is_rat(fr.elems) and u[1][1].equals(fr.elems) and u[1][0].equals(fr.rows_of):
                            fr.row_elems = tuple(vals)
                            ux = unfn(fr.rows_of)
                            if ux is not None and ux[0].endswith("_sparse_col_stats") and n == 2 and W.shape_of:
                                rows = next(iter(W.shape_of.values()))[0]
                                W.bound(vals[0], 0, rows - 1)
                                W.bound(vals[1], 1, rows)
                            break
                for k, t in enumerate(target.elts):
                    self._assign(t, vals[k], st)
            else:
                why = v if is_unknown(v) else (Bad(f"unpacking {len(v)} values into {n} names") if isinstance(v, tuple) else Unknown("tuple unpacking of a non-tuple"))
                for t in target.elts:
                    self._assign(t, why, st)
            return
        if isinstance(target, ast.Subscript):
            base = self.ev(target.value)
            ix = self.ev_index(target.slice)
            W.stores.append((base, ix, v, st))
            d = dotted(target.value)
            if d is not None and d not in W.pinned:
                try:
                    self.env[d] = F.fn("upd", wrap(base), wrap(ix), wrap(v))
                except Unsupported as e:
                    self.env[d] = lost(e)
            return

    def ev_index(self, sl):
        try:
            return self.index_value(sl)
        except Unsupported as e:
            return lost(e)


# ------------------------------------------------------------------------------------------------------------------ lines and items
class Line:
    def __init__(self, txt, frames, node, qual):
        self.txt, self.frames, self.node, self.qual = txt, frames, node, qual
        fl = [p for p in txt.p if isinstance(p, Fld)]
        self.is_data = bool(fl) and all(f.kind() == "float" for f in fl)
        # the integers of the line in order: integer fields and integers spelled out in the literal text
        self.ints = []
        if not self.is_data:
            import re
            for p in txt.p:
                if isinstance(p, Fld):
                    if p.kind() in ("int", "any"):
                        self.ints.append(p)
                else:
                    for m in re.finditer(r"(?<![\w.+-])[+-]?\d+(?![\w.])", p.s):
                        self.ints.append(Fld(F.const(int(m.group(0))), "d"))

    def __repr__(self):
        return f"Line[{len(self.frames)}]{'*' if self.is_data else ''}{self.txt!r}"


def lines_of(emits, recv=None):
    """the text a writer emitted, cut into lines.  Each line keeps the loop frames of its first piece.  Returns (lines, problems)"""
    lines, problems = [], []
    cur, cur_fr, cur_node, cur_q = [], None, None, None
    for e in emits:
        if recv is not None and not (is_rat(e.recv) and e.recv.equals(recv)):
            continue
        t = as_txt(e.value)
        if t is None:
            problems.append(e)
            continue
        for p in t.p:
            if cur_fr is None:
                cur_fr, cur_node, cur_q = e.frames, e.node, e.qual
            if isinstance(p, Lit) and "\n" in p.s:
                segs = p.s.split("\n")
                for k, s in enumerate(segs):
                    if k < len(segs) - 1:
                        cur.append(Lit(s + "\n"))
                        lines.append(Line(Txt(cur), cur_fr, cur_node, cur_q))
                        cur, cur_fr = [], None
                        if k + 1 < len(segs) - 1 or segs[-1]:
                            cur_fr, cur_node, cur_q = e.frames, e.node, e.qual
                    elif s:
                        cur.append(Lit(s))
            else:
                cur.append(p)
    if cur:
        lines.append(Line(Txt(cur), cur_fr, cur_node, cur_q))
    return lines, problems


def items_of(emits, recv=None):
    """the struct items a binary writer emitted: [(Item, frames, node)], problems"""
    out, problems = [], []
    for e in emits:
        if recv is not None and not (is_rat(e.recv) and e.recv.equals(recv)):
            continue
        if isinstance(e.value, PackV):
            for it in e.value.items:
                out.append((it, e.frames, e.node, e.value))
        else:
            problems.append(e)
    return out, problems


# ------------------------------------------------------------------------------------------------------------------ scenarios
ROWS, COLS = F.sym("ROWS"), F.sym("COLS")
FILE = F.sym("FILE")
OPAQUE_CORE = {"_sparse_col_stats", "_sparse_sort", "_is_symmetric", "_check_name", "_ensure_dp", "_check_write_names", "_get_ascii_block"}
OPAQUE = {"_sparse_col_stats", "_sparse_sort", "_is_symmetric", "_check_name", "_ensure_dp", "_check_write_names", "_get_ascii_block",
          "_put_ascii_values", "_put_ascii_values_c", "_put_ascii_values_sparse", "_put_ascii_values_sparse_c", "_put_binary_values",
          "_put_binary_values_c", "_put_binary_values_sparse", "_put_binary_values_sparse_c", "_init_dense_real", "_init_dense_complex",
          "_init_sparse", "_dense_matrix", "_sparse_matrix"}


def std_oracle(kind="ndarray", cplx=True, truths=None):
    """scenario oracle for opaque predicates.  truths: {plain symbol name: bool} (e.g. patternlist: False)"""
    truths = truths or {}

    def oracle(v, ev):
        n = sym_name(v)
        if n is not None:
            return truths.get(n)
        u = unfn(v)
        if not u:
            return None
        name, a = u
        if name == "call:isinstance" and len(a) == 2:
            x, t = a
            ux = unfn(x)
            istuple = bool(ux and ux[0] == "tuple")
            tn = sym_name(t)
            if tn == "tuple":
                return istuple
            if tn in ("np.ndarray", "numpy.ndarray"):
                return (not istuple) and kind == "ndarray"
            ut = unfn(t)
            if ut and ut[0] == "tuple":
                names = {sym_name(z) for z in ut[1]}
                if names <= {"list", "tuple"}:
                    return istuple
            return truths.get("isinstance:" + (tn or "?"))
        if name == "call:np.iscomplexobj":
            return cplx
        if name in ("call:np.any",):
            return True
        if name == "call:sp.issparse":
            return truths.get("issparse")
        if name in ("cmp:Eq", "cmp:NotEq") and len(a) == 2:
            # a plain symbol against a string constant: scenario table  {"sparse": "dense"}
            for x, y in ((a[0], a[1]), (a[1], a[0])):
                if sym_name(x) is not None and strconst(y) is not None and ("=" + sym_name(x)) in truths:
                    r = truths["=" + sym_name(x)] == strconst(y)
                    return r if name == "cmp:Eq" else not r
        return None
    return oracle


def init_state(ctx):
    """self.* attributes after OP4.__init__ (constant-folded by value: `_expdigits`, `_rows4bigmat`, `_rowsCutoff`)"""
    W = World(ctx)
    W.opaque |= OPAQUE
    fn = W.table.get("self.__init__") or func_of(ctx, "OP4.__init__")
    ev = OP4Eval(fn, W, env={}, qual="OP4.__init__")
    ev.run(fn.body)
    ctx._c04_init_world = W
    return {k: v for k, v in ev.env.items() if k.startswith("self.")}, fn


def base_world(ctx, state=None, kind="ndarray", cplx=True, rows=(1, None), cols=(1, 99999998), truths=None, split_rows=True):
    W = World(ctx)
    W.opaque |= OPAQUE
    W.bound(ROWS, rows[0], rows[1], split=split_rows)
    W.bound(COLS, cols[0], cols[1], split=split_rows)
    W.bound(F.sym("digits"), 0, None)          # a number of digits
    W.value_oracle = std_oracle(kind, cplx, truths)
    W.mult = F.const(2 if cplx else 1)
    W.kind, W.cplx = kind, cplx
    st = dict(state or {})
    W.pinned["self._fileh"] = FILE
    W.state = {k: v for k, v in st.items() if k not in W.pinned}
    if kind == "ndarray":
        W.matrix = F.sym("matrix")
        W.shape_of[atom_id(W.matrix)] = (ROWS, COLS)
    else:
        m0 = F.sym("m0")
        W.matrix = (m0, F.sym("mi"), F.sym("mj"), F.sym("mv"))
        W.shape_of[atom_id(m0)] = (ROWS, COLS)
    return W


def bind_positional(fn, values, ev=None):
    """{parameter name: value} for the values given in signature order (self / cls skipped): the rules name their own symbols, whatever the
    parameters are called; parameters left over get their defaults"""
    a = fn.args
    params = [x.arg for x in a.posonlyargs + a.args]
    env = {}
    if params and params[0] in ("self", "cls"):
        env[params[0]] = F.sym(params[0])
        params = params[1:]
    vals = list(values)
    if len(vals) > len(params):
        raise Unsupported(f"{fn.name}: {len(params)} parameters for {len(vals)} values")
    env.update(zip(params, vals))
    dflt = dict(zip(params[::-1], (a.defaults or [])[::-1]))
    for p_ in params[len(vals):]:
        if p_ in dflt and ev is not None:
            env[p_] = ev.ev(dflt[p_])
    return env


def run_func(W, fn, values, qual=None, state=True):
    """evaluate a function on the given argument values (positional, in signature order)"""
    e = dict(W.state) if state else {}
    probe = OP4Eval(None, W, env=dict(e))
    e.update(bind_positional(fn, values, probe))
    ev = OP4Eval(fn, W, env=e, qual=qual or getattr(fn, "_vqual", fn.name))
    ev.run(fn.body)
    return ev


def run_method(W, key, env, qual=None):
    """`env`: the argument values in signature order (a dict: only the order of its values matters)"""
    return run_func(W, W.table[key], list(env.values()), qual)


def explore(make, run, limit=24):
    """regime exploration: `make(bounds)` builds a World with the given {atom id: (lo, hi)} overrides, `run(W)` evaluates; a NeedSplit splits the
    regime of that atom at the root and both (three) parts are evaluated.  Returns [(bounds overrides, W, result)]"""
    out = []
    work = [{}]
    n = 0
    while work:
        b = work.pop(0)
        n += 1
        if n > limit:
            raise Unsupported("too many regimes")
        W = make(b)
        try:
            r = run(W)
        except NeedSplit as e:
            lo, hi = W.bounds[e.aid]
            x0 = e.x0
            parts = []
            import math
            fl = math.floor(x0)
            if x0 == fl:
                parts = [(lo, fl - 1), (fl, fl), (fl + 1, hi)]
            else:
                parts = [(lo, fl), (fl + 1, hi)]
            for p_lo, p_hi in parts:
                if (p_lo is not None and p_hi is not None and p_lo > p_hi):
                    continue
                nb = dict(b)
                nb[e.aid] = (p_lo, p_hi)
                work.append(nb)
            continue
        out.append((b, W, r))
    return out


def reader_state(ctx, state, bit64=False):
    """self.* attributes a binary read starts with: OP4.__init__ then `_op4open_read` for a binary file with 32-bit (or 64-bit) integers"""
    W = World(ctx)
    W.opaque |= OPAQUE | {"_decode_format"}
    W.pinned["self._ascii"] = FALSE
    W.pinned["self._bit64"] = boolv(bit64)
    W.pinned["self._endian"] = F.sym("self._endian")
    W.pinned["self._fileh"] = FILE
    fn = W.table["self._op4open_read"]
    W.state = dict(state)
    ev = run_func(W, fn, [F.sym("filename")], "OP4._op4open_read")
    out = {k: v for k, v in ev.env.items() if k.startswith("self.")}
    out["self._ascii"], out["self._bit64"], out["self._endian"] = FALSE, boolv(bit64), F.sym("self._endian")
    return out


def loader_world(ctx, rstate, wW, binary, truths=None, extra_bounds=None):
    """World for evaluating a loader on what the writer run `wW` emitted"""
    t = {"patternlist": False, "listonly": False, "sparsefunc": False}
    t.update(truths or {})
    W = World(ctx)
    W.opaque |= OPAQUE | {"_skipop4_ascii", "_skipop4_binary"}
    W.value_oracle = std_oracle(wW.kind, wW.cplx, t)
    W.mult = wW.mult
    W.kind, W.cplx = wW.kind, wW.cplx
    W.bounds = dict(wW.bounds)
    W.splittable = set(wW.splittable)
    W.small = dict(wW.small)
    for a, b in (extra_bounds or {}).items():
        W.bounds[a] = b
    W.pinned["self._fileh"] = FILE
    W.state = {k: v for k, v in rstate.items() if k not in W.pinned}
    if binary:
        items, _ = items_of(wW.emits, F.sym("f"))
        W.stream = Stream([it for it, _f, _n, _p in items])
    else:
        lines, _ = lines_of(wW.emits, F.sym("f"))
        W.lines = lines
    return W
