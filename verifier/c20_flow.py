"""Value-level machinery of the C20 rules (helper module of verifier/c20.py).

 * `World` + `Ev`   an AutoEvaluator that knows the scipy distribution functions of pyyeti/stats.py in one canonical form, follows calls to
                    module-level helpers, nested functions, closures and lambdas (functions are values: they can be passed as arguments),
                    understands the "apply f element-wise to the broadcast operands" construct in its four spellings (list comprehension over
                    `np.broadcast`, for/append loop, index loop over `.flat`, a `_fill_broadcast(func, *operands)` helper), records every
                    `brentq` call with the residual it is handed (named function + args=, closure, lambda) and enumerates the paths through
                    undecided tests (early returns, inverted conditions, conditional expressions);
 * `literals`       sign information carried by a test *value* (`f(b) < 0`, `not (f(b) < 0)`, `0 <= f(a)`, `x >= 0 or loops == 30`);
 * `Bracket`        abstract execution of the function holding a `brentq` call: which points have had the sign of the residual tested when the
                    root finder is reached (if / early return / while / while True + break / for-range + break, values not names).

Nothing here looks at how a statement is spelled: names are resolved through the module's imports and the environment, temporaries are substituted.
"""
from __future__ import annotations

import ast
from fractions import Fraction

from . import e2_formula as F
from .core import Unsupported
from .e1_srcmodel import dotted, walk_no_nested
from .e2_eval import AutoEvaluator, Unknown, _assigned_names, is_unknown, need
from .sem import place, unfn

STATS = "pyyeti/stats.py"

# positional signature of the scipy callables the module uses (shape parameters after the quantile / count argument)
SIG = {
    "scipy.stats.norm.ppf": ("q",), "scipy.stats.norm.cdf": ("x",), "scipy.stats.norm.isf": ("q",), "scipy.stats.norm.sf": ("x",),
    "scipy.stats.nct.ppf": ("q", "df", "nc"), "scipy.stats.nct.isf": ("q", "df", "nc"),
    "scipy.stats.chi2.ppf": ("q", "df"), "scipy.stats.chi2.isf": ("q", "df"),
    "scipy.stats.binom.sf": ("k", "n", "p"), "scipy.stats.binom.cdf": ("k", "n", "p"), "scipy.stats.binom.ppf": ("q", "n", "p"),
    "scipy.stats.binom.isf": ("q", "n", "p"),
    "scipy.special.betainc": ("a", "b", "x"),
}
BRENTQ_SIG = ["f", "a", "b", "args", "xtol", "rtol", "maxiter", "full_output", "disp"]
ROUNDERS = {"numpy.ceil": "ceil", "math.ceil": "ceil", "numpy.floor": "floor", "math.floor": "floor", "numpy.rint": "rint", "numpy.round": "round",
            "numpy.around": "round", "round": "round", "numpy.trunc": "trunc", "math.trunc": "trunc", "numpy.fix": "trunc"}
WRAPPERS = {"int", "each", "ceil", "floor", "rint", "round", "trunc"}
INT_TYPES = {"int", "numpy.int64", "numpy.int32", "numpy.int_", "numpy.intp", "numpy.integer"}
RELS = ("le0", "ge0")


def imports(mod):
    tab = {}
    for st in mod.tree.body:
        if isinstance(st, ast.Import):
            for a in st.names:
                tab[a.asname or a.name.split(".")[0]] = a.name if a.asname else a.name.split(".")[0]
        elif isinstance(st, ast.ImportFrom) and st.module:
            for a in st.names:
                tab[a.asname or a.name] = f"{st.module}.{a.name}"
    return tab


def resolve(d, tab):
    if d is None:
        return None
    head, _, rest = d.partition(".")
    full = tab.get(head)
    if full is None:
        return d
    return full + ("." + rest if rest else "")


def rat(v):
    return v is not None and not is_unknown(v) and not isinstance(v, tuple)


def symname(v):
    """name of a value that is exactly one symbol, else None"""
    if not rat(v):
        return None
    try:
        if not v.d.is_const() or v.d.const_value() != 1 or len(v.n.t) != 1:
            return None
        (m, c), = v.n.t.items()
        if c != 1 or len(m) != 1 or m[0][1] != 1:
            return None
        d = F.atom_desc(m[0][0])
    except Exception:  # noqa
        return None
    return d[1] if d[0] == "s" else None


def _atom_args(d):
    out = []
    for k in d[2]:
        if not isinstance(k, str):
            out.append(F.Rat(F._poly_from_key(k[1]), F._poly_from_key(k[2])))
    return out


def walk_atoms(v, seen=None):
    """every atom description reachable from a value (through the arguments of opaque applications, exp, sqrt ...)"""
    if not rat(v):
        return
    for p in (v.n, v.d):
        for a in p.atoms():
            d = F.atom_desc(a)
            yield d
            if d[0] == "fn":
                for x in _atom_args(d):
                    yield from walk_atoms(x)
            elif d[0] in ("exp", "sin", "cos", "sqrt"):
                yield from walk_atoms(F.Rat(F._poly_from_key(d[1])))


def fn_atoms(v, name):
    """argument lists of every application `name(...)` inside a value"""
    return [_atom_args(d) for d in walk_atoms(v) if d[0] == "fn" and d[1] == name]


def symbols(v):
    return {d[1] for d in walk_atoms(v) if d[0] == "s"}


def opaque_calls(v):
    return sorted({d[1] for d in walk_atoms(v) if d[0] == "fn" and d[1].startswith("call:")})


def peel(v):
    """int(ceil(each(x))) -> (['int', 'ceil', 'each'], x)"""
    names = []
    while True:
        u = unfn(v)
        if u and u[0] in WRAPPERS and len(u[1]) == 1 and isinstance(u[1][0], F.Rat):
            names.append(u[0])
            v = u[1][0]
        else:
            return names, v


def same(a, b):
    if not rat(a) or not rat(b):
        return False
    try:
        return a.equals(b)
    except Unsupported:
        return False


# ---------------------------------------------------------------------------------------------------------------------------------
class World:
    """what one rule evaluation shares between its evaluators: import table, module functions and constants, function values, oracle,
    records of brentq calls / helper applications / decisions"""

    def __init__(self, ctx, extra=None, opaque=()):
        self.ctx = ctx
        self.mod = ctx.src.mod(STATS)
        self.tab = imports(self.mod)
        self.modfuncs = {q: f for q, f in self.mod.funcs.items() if "." not in q and "#" not in q}
        self.extra = extra
        self.opaque = set(opaque)
        self.fvals = {}            # symbol name -> (FunctionDef | Lambda, defining evaluator)
        self.base = None           # oracle of the rule: (test, ev) -> True / False / None
        self.enumerating = False
        self.prefix = []
        self.taken = []            # (value chosen, value of the test, test node)
        self.brentq = []
        self.apps = []             # (callee symbol name, positional values, result, call node)
        self.rootsyms = {}
        self.arm = None
        self.modenv = {}
        ev = Ev(self)
        for st in self.mod.tree.body:
            if isinstance(st, (ast.Assign, ast.AnnAssign)) and all(isinstance(t, ast.Name) for t in (st.targets if isinstance(st, ast.Assign) else [st.target])):
                if getattr(st, "value", None) is not None:
                    ev.stmt(st)
        self.modenv = {k: v for k, v in ev.env.items() if not k.startswith("<")}

    # ---- oracle
    def decide_base(self, test, ev):
        if self.base is None:
            return None
        r = self.base(test, ev)
        if r is not None:
            return r
        if isinstance(test, ast.UnaryOp) and isinstance(test.op, ast.Not):
            r = self.decide_base(test.operand, ev)
            return None if r is None else (not r)
        if isinstance(test, ast.BoolOp):
            rs = [self.decide_base(v, ev) for v in test.values]
            if isinstance(test.op, ast.And):
                if any(r is False for r in rs):
                    return False
                return True if all(r is True for r in rs) else None
            if any(r is True for r in rs):
                return True
            return False if all(r is False for r in rs) else None
        if isinstance(test, ast.Compare) and len(test.ops) == 1 and isinstance(test.ops[0], (ast.NotEq, ast.NotIn)):
            pos = ast.Compare(left=test.left, ops=[ast.Eq() if isinstance(test.ops[0], ast.NotEq) else ast.In()], comparators=test.comparators)
            r = self.base(pos, ev)
            return None if r is None else (not r)
        return None

    def cond(self, test, ev):
        r = self.decide_base(test, ev)
        if r is not None or not self.enumerating:
            return r
        k = len(self.taken)
        val = self.prefix[k] if k < len(self.prefix) else True
        self.taken.append(None)          # reserve the slot: evaluating the test may itself meet tests
        self.taken[k] = (val, ev.ev(test), test)
        return val

    # ---- functions as values
    def register(self, node, ev, name):
        key = f"<fn {name}@{getattr(node, 'lineno', 0)}:{getattr(node, 'col_offset', 0)}>"
        self.fvals[key] = (node, ev)
        return F.sym(key)

    def function(self, nm):
        if nm is None:
            return None
        if nm in self.fvals:
            return self.fvals[nm]
        if nm in self.modfuncs and nm not in self.opaque:
            return self.modfuncs[nm], None
        return None

    def callee_name(self, func, ev):
        if isinstance(func, ast.Lambda):
            return symname(ev.ev(func))
        d = dotted(func)
        if d is None:
            return None
        head, _, rest = d.partition(".")
        if head in ev.env:
            s = symname(ev.env[head])
            if s is None:
                return None
            d = s + ("." + rest if rest else "")
        elif head in self.modenv:
            s = symname(self.modenv[head])
            if s is None:
                return None
            d = s + ("." + rest if rest else "")
        return d

    def apply(self, fnode, defev, pos, kw, caller, name, node=None, record=True):
        if caller.depth >= 8:
            return Unknown("call depth")
        a = fnode.args
        cl = dict(defev.env) if defev is not None else {}
        env = dict(cl)
        params = [x.arg for x in a.posonlyargs + a.args]
        pos = list(pos)
        allpos = list(pos)
        if len(pos) > len(params):
            if a.vararg is None:
                return Unknown(f"{name}: too many positional arguments")
            env[a.vararg.arg] = tuple(pos[len(params):])
            pos = pos[:len(params)]
        elif a.vararg is not None:
            env[a.vararg.arg] = ()
        bound = set()
        for p_, v in zip(params, pos):
            env[p_] = v
            bound.add(p_)
        kwonly = [x.arg for x in a.kwonlyargs]
        for k, v in kw.items():
            if k in bound or (k not in params and k not in kwonly):
                return Unknown(f"{name}: keyword {k}")
            env[k] = v
            bound.add(k)
        dev = Ev(self, env=cl)
        for p_, d in zip(params[::-1], (a.defaults or [])[::-1]):
            if p_ not in bound:
                env[p_] = dev.ev(d)
                bound.add(p_)
        for p_, d in zip(kwonly, a.kw_defaults):
            if p_ not in bound and d is not None:
                env[p_] = dev.ev(d)
                bound.add(p_)
        if any(p_ not in bound for p_ in params + kwonly):
            return Unknown(f"{name}: missing argument")
        sub = Ev(self, env=env, fnode=fnode, depth=caller.depth + 1)
        if isinstance(fnode, ast.Lambda):
            v = sub.ev(fnode.body)
        else:
            sub.run(fnode.body)
            v = sub.returns[-1][0] if sub.returns else None
        if sub.raised:
            caller.raised = True
            caller.done = True
            return Unknown(f"{name} raises")
        if v is None:
            v = F.sym("None")
        if record:
            self.apps.append((name, allpos, v, node))
        return v

    # ---- calls
    def call(self, node, ev):
        func = node.func
        if isinstance(func, ast.Attribute):
            at = func.attr
            if at == "append" and isinstance(func.value, ast.Name) and ev.appends is not None and len(node.args) == 1 and not node.keywords:
                cur = ev.env.get(func.value.id)
                if isinstance(cur, tuple) and len(cur) == 0:
                    ev.appends.setdefault(func.value.id, []).append((ev.ev(node.args[0]), node))
                    return F.sym("None")
            if at in ("any", "all") and not node.args and not node.keywords:
                return F.fn(at, need(ev.ev(func.value)))
            if at == "item" and not node.args and not node.keywords:
                return ev.ev(func.value)
            if at == "astype" and len(node.args) == 1 and not node.keywords:
                recv = ev.ev(func.value)
                if resolve(dotted(node.args[0]), self.tab) in INT_TYPES:
                    return F.fn("int", need(recv))
                return recv
        nm = self.callee_name(func, ev)
        if nm is None:
            return NotImplemented
        if self.extra is not None:
            r = self.extra(nm, node, ev)
            if r is not NotImplemented:
                return r
        f = self.function(nm)
        if f is not None:
            pos, kw = ev.args(node)
            return self.apply(f[0], f[1], pos, kw, ev, nm, node)
        return self.lib(resolve(nm, self.tab), node, ev)

    def lib(self, d, node, ev):
        """scipy distribution functions become opaque applications in a canonical form (sf -> 1 - cdf, isf(q) -> ppf(1 - q), the regularised
        incomplete beta function with integer-shaped arguments -> the binomial cdf it equals)"""
        one = lambda: need(ev.args(node)[0][0])      # noqa
        if d in ("numpy.asarray", "numpy.atleast_1d", "numpy.array", "float", "numpy.float64", "numpy.asanyarray"):
            return ev.args(node)[0][0]
        if d == "int":
            return F.fn("int", one())
        if d in ("numpy.sqrt", "math.sqrt"):
            return F.sqrt(one())
        if d in ("numpy.exp", "math.exp"):
            return F.exp(one())
        if d in ("numpy.abs", "numpy.absolute", "numpy.fabs", "abs", "math.fabs"):
            return F.fn("abs", one())
        if d in ("numpy.any", "numpy.all"):
            return F.fn(d.rsplit(".", 1)[1], one())
        if d in ("any", "all") and len(node.args) == 1:
            return F.fn(d, one())
        if d in ROUNDERS and len(node.args) == 1:
            return F.fn(ROUNDERS[d], one())
        if d in ("numpy.empty", "numpy.zeros", "numpy.empty_like", "numpy.zeros_like", "numpy.ones", "numpy.ones_like", "numpy.full", "numpy.full_like",
                 "numpy.ndarray"):
            return F.sym(f"<buffer@{node.lineno}>")
        if d == "numpy.broadcast":
            pos, kw = ev.args(node)
            return F.fn("broadcast", *[need(x) for x in pos])
        if d == "enumerate" and len(node.args) == 1:
            return F.fn("enumerate", one())
        if d == "numpy.clip":
            pos, kw = ev.args(node)
            v = place(pos, kw, ["a", "a_min", "a_max"])
            return F.fn("clip", need(v["a"]), need(v.get("a_min", F.sym("None"))), need(v.get("a_max", F.sym("None"))))
        if d in ("numpy.minimum", "numpy.maximum", "numpy.fmin", "numpy.fmax", "min", "max") and len(node.args) == 2 and not node.keywords:
            pos, kw = ev.args(node)
            x, y = sorted((need(pos[0]), need(pos[1])), key=repr)
            return F.fn("min" if d.endswith(("min", "minimum")) else "max", x, y)
        if d == "scipy.optimize.brentq":
            return self._brentq(node, ev)
        if d not in SIG:
            return NotImplemented
        names = SIG[d]
        pos, kw = ev.args(node)
        if len(pos) > len(names):
            raise Unsupported(f"{d}: too many positional arguments")
        vals = {}
        for nm, v in zip(names, pos):
            vals[nm] = need(v, nm)
        for k, v in kw.items():
            if k not in names or k in vals:
                raise Unsupported(f"{d}: keyword {k}")
            vals[k] = need(v, k)
        if set(vals) != set(names):
            raise Unsupported(f"{d}: arguments {sorted(vals)}")
        dist, meth = d.rsplit(".", 1)
        dist = dist.rsplit(".", 1)[1] if "." in dist else dist
        if d == "scipy.special.betainc":
            # I_x(a, b) = P(X >= a), X ~ Binomial(a + b - 1, x)  =>  1 - I_x(s + 1, n - s) = cdf(s; n, x)
            return 1 - F.fn("binom.cdf", vals["a"] - 1, vals["a"] + vals["b"] - 1, vals["x"])
        if meth == "sf":
            return 1 - F.fn(f"{dist}.cdf", *[vals[n] for n in names])
        if meth == "isf":
            return F.fn(f"{dist}.ppf", *[(1 - vals[n]) if n == "q" else vals[n] for n in names])
        return F.fn(f"{dist}.{meth}", *[vals[n] for n in names])

    def _brentq(self, node, ev):
        pos, kw = ev.args(node)
        vals = place(pos, kw, BRENTQ_SIG)
        key = id(node)
        if key not in self.rootsyms:
            self.rootsyms[key] = f"ROOT{len(self.rootsyms)}"
        X = F.sym(self.rootsyms[key])
        fname = symname(vals.get("f"))
        f = self.function(fname)
        argv = vals.get("args", ())
        if not isinstance(argv, tuple):
            argv = (argv,)
        g = Unknown("the residual handed to brentq is not a function defined in pyyeti/stats.py")
        if f is not None:
            g = self.apply(f[0], f[1], [X] + list(argv), {}, ev, fname, node, record=False)
        self.brentq.append(dict(node=node, X=X, Xname=self.rootsyms[key], g=g, a=vals.get("a"), b=vals.get("b"), vals=vals, fname=fname, argv=argv,
                                ev=ev, arm=self.arm))
        return X

    def subscript(self, node, ev):
        if isinstance(node.slice, ast.Tuple) and not node.slice.elts:      # x[()] : the scalar of a 0-d array
            return ev._ev(node.value)
        return NotImplemented


class Ev(AutoEvaluator):
    def __init__(self, W, env=None, fnode=None, depth=0):
        super().__init__(None, env=env, cond=W.cond, src=W.ctx.src, subscript=W.subscript)
        self.W = W
        self.fnode = fnode
        self.depth = depth
        self.entry_env = dict(self.env)
        self.raised = False
        self.appends = None
        self.flats = None

    def child(self):
        c = Ev(self.W, env=dict(self.env), fnode=self.fnode, depth=self.depth)
        c.entry_env = self.entry_env
        return c

    def args(self, node):
        pos = []
        for a in node.args:
            if isinstance(a, ast.Starred):
                v = self.ev(a.value)
                if not isinstance(v, tuple):
                    raise Unsupported(f"*{ast.unparse(a.value)} is not a tuple of known length")
                pos.extend(v)
            else:
                pos.append(self.ev(a))
        kw = {}
        for k in node.keywords:
            if k.arg is None:
                raise Unsupported("**kwargs")
            kw[k.arg] = self.ev(k.value)
        return pos, kw

    def _ev(self, node):
        if isinstance(node, ast.Name) and node.id not in self.env and node.id in self.W.modenv:
            return self.W.modenv[node.id]
        if isinstance(node, ast.Lambda):
            return self.W.register(node, self, "lambda")
        if isinstance(node, (ast.ListComp, ast.GeneratorExp)):
            return self._comprehension(node)
        return super()._ev(node)

    def _call(self, node):
        r = self.W.call(node, self)
        if r is not NotImplemented:
            return r
        return super()._call(node)

    def _operands(self, it):
        """value of an iterable -> (broadcast operands, enumerated?)"""
        u = unfn(it)
        if u and u[0] == "broadcast":
            return u[1], False
        if u and u[0] == "enumerate" and len(u[1]) == 1:
            u2 = unfn(u[1][0])
            if u2 and u2[0] == "broadcast":
                return u2[1], True
        return None, False

    def _bind_element(self, target, ops, enumerated, st):
        if enumerated:
            if not (isinstance(target, (ast.Tuple, ast.List)) and len(target.elts) == 2):
                raise Unsupported("enumerate target")
            self._assign(target.elts[0], F.sym("<i>"), st)
            target = target.elts[1]
        self._assign(target, tuple(ops), st)

    def _comprehension(self, node):
        if len(node.generators) != 1 or node.generators[0].ifs or node.generators[0].is_async:
            return Unknown("comprehension shape")
        g = node.generators[0]
        ops, enumerated = self._operands(self.ev(g.iter))
        if ops is None:
            return Unknown(f"comprehension over {ast.unparse(g.iter)}: not the elements of np.broadcast(...)")
        c = self.child()
        c._bind_element(g.target, ops, enumerated, node)
        v = c.ev(node.elt)
        if c.raised:
            self.raised = self.done = True
        if not rat(v):
            return v if is_unknown(v) else Unknown("tuple-valued comprehension element")
        return F.fn("each", v)

    def _for_each(self, st):
        ops, enumerated = self._operands(self.ev(st.iter))
        if ops is None or st.orelse:
            return False
        self._bind_element(st.target, ops, enumerated, st)
        saved = self.appends, self.flats
        self.appends, self.flats = {}, {}
        self.run(st.body)
        apps, flats = self.appends, self.flats
        self.appends, self.flats = saved
        top_calls = {id(s.value) for s in st.body if isinstance(s, ast.Expr)}
        top_stmts = {id(s) for s in st.body}
        for name, vals in apps.items():
            ok = len(vals) == 1 and id(vals[0][1]) in top_calls and rat(vals[0][0])
            self.env[name] = F.fn("each", vals[0][0]) if ok else Unknown(f"{name}.append inside the loop")
        for name, vals in flats.items():
            ok = len(vals) == 1 and id(vals[0][2]) in top_stmts and rat(vals[0][1]) and enumerated and same(vals[0][0], F.sym("<i>")) \
                and (symname(self.env.get(name)) or "").startswith("<buffer@")
            self.env[name] = F.fn("each", vals[0][1]) if ok else Unknown(f"{name}.flat[...] store inside the loop")
        return True

    def stmt(self, st):
        if self.done:
            return
        if isinstance(st, (ast.FunctionDef, ast.AsyncFunctionDef)):
            self.env[st.name] = self.W.register(st, self, st.name)
            return
        if isinstance(st, ast.Raise):
            self.done = self.raised = True
            return
        if isinstance(st, ast.For):
            try:
                if self._for_each(st):
                    return
            except Unsupported:
                pass
        return super().stmt(st)

    def _assign(self, target, v, st, aug=False):
        if isinstance(target, ast.Attribute) and target.attr == "flat" and isinstance(target.value, ast.Name):
            u = unfn(v)
            is_buffer = (symname(self.env.get(target.value.id)) or "").startswith("<buffer@")
            self.env[target.value.id] = v if (u and u[0] == "each" and is_buffer) else Unknown(f"{target.value.id}.flat = <not an element-wise list into a new array>")
            return
        if isinstance(target, ast.Subscript) and isinstance(target.value, ast.Attribute) and target.value.attr == "flat" \
                and isinstance(target.value.value, ast.Name) and self.flats is not None:
            self.flats.setdefault(target.value.value.id, []).append((self.ev(target.slice), v, st))
            return
        return super()._assign(target, v, st, aug)


class Path:
    def __init__(self, ev, decisions, brentq, apps):
        self.ev, self.decisions, self.brentq, self.apps = ev, decisions, brentq, apps

    @property
    def returns(self):
        return (not self.ev.raised) and bool(self.ev.returns)

    @property
    def value(self):
        return self.ev.returns[-1][0]

    @property
    def node(self):
        return self.ev.returns[-1][1]


def enumerate_paths(W, runner, limit=96):
    """run `runner` once for every combination of outcomes of the tests the rule's oracle leaves open"""
    out = []
    stack = [[]]
    was = W.enumerating
    W.enumerating = True
    try:
        while stack:
            W.prefix = stack.pop()
            W.taken = []
            nb, na = len(W.brentq), len(W.apps)
            ev = runner()
            taken = [t for t in W.taken if t is not None]
            out.append(Path(ev, taken, W.brentq[nb:], W.apps[na:]))
            for k in range(len(W.prefix), len(taken)):
                stack.append([t[0] for t in taken[:k]] + [not taken[k][0]])
            if len(out) > limit:
                raise Unsupported("too many paths")
    finally:
        W.enumerating = was
        W.prefix, W.taken = [], []
    return out


# ---------------------------------------------------------------------------------------------------------------------------------
_NEG = {"Lt": "GtE", "LtE": "Gt", "Gt": "LtE", "GtE": "Lt", "Eq": "NotEq", "NotEq": "Eq"}


def literals(v, truth=True):
    """value of a test -> alternatives (a disjunction) of conjunctions of literals.
    literal: ('rel', G, 'le0' | 'ge0')  meaning  G <= 0 / G >= 0   |   ('other', value, truth)"""
    u = unfn(v) if rat(v) else None
    if u:
        name, args = u
        if name == "not" and len(args) == 1 and isinstance(args[0], F.Rat):
            return literals(args[0], not truth)
        if name in ("bool:And", "bool:Or") and all(isinstance(a, F.Rat) for a in args):
            parts = [literals(a, truth) for a in args]
            if (name == "bool:And") == truth:
                alts = [[]]
                for p in parts:
                    alts = [x + y for x in alts for y in p]
                    if len(alts) > 64:
                        raise Unsupported("test too large")
                return alts
            return [a for p in parts for a in p]
        if name.startswith("cmp:") and len(args) == 2 and all(isinstance(a, F.Rat) for a in args):
            op = name[4:]
            if not truth:
                op = _NEG.get(op, "?")
            if op in ("Lt", "LtE"):
                return [[("rel", args[0] - args[1], "le0")]]
            if op in ("Gt", "GtE"):
                return [[("rel", args[0] - args[1], "ge0")]]
    return [[("other", v, truth)]]


def flip(rel):
    return "ge0" if rel == "le0" else "le0"


class State:
    def __init__(self, env, facts=None, defs=None):
        self.env = dict(env)
        self.facts = list(facts or [])       # (value, 'le0' | 'ge0'):  residual(value) <= 0 / >= 0
        self.defs = dict(defs or {})         # name -> frozenset of defining statements that reach here
        self.via_counter = False

    def copy(self):
        s = State(self.env, self.facts, self.defs)
        return s

    def has(self, v, rel):
        return rat(v) and any(r == rel and same(x, v) for x, r in self.facts)

    def add(self, v, rel):
        if not self.has(v, rel):
            self.facts.append((v, rel))


class Bracket:
    """abstract execution of the function that holds one brentq call: at the call, for which values has the sign of the residual been tested?

    The residual is the *value* g(X) the root finder is handed (with its parameters substituted); a test contributes a fact about a point v when
    one side of the comparison minus the other equals +-g(v) - however the probe is spelled.  Loops are executed on fresh symbols for the names
    they assign until the sign facts about those names are stable.  Iteration caps are not modelled: an exit that only a counter comparison (or the
    exhaustion of a `range`) guards is left out when the loop has another exit that carries a sign fact."""

    def __init__(self, W, rec, holder, entry_env):
        self.W, self.rec, self.holder = W, rec, holder
        self.g, self.Xname = rec["g"], rec["Xname"]
        self.culprits = {}
        self.observed = []
        self.frames = []
        self.fresh = 0
        self.counters = self._counter_names(holder)
        self.counter_syms = set()
        self.probes = {}         # id(call node) -> (node, result value, first argument value)
        self.entry = State(entry_env)

    @staticmethod
    def _counter_names(holder):
        """names that are only ever set to a constant, stepped by a constant or bound by `for .. in range(..)`"""
        ok, bad = set(), set()
        for n in walk_no_nested(holder):
            if isinstance(n, ast.Assign):
                for t in n.targets:
                    for x in ast.walk(t):
                        if isinstance(x, ast.Name):
                            (ok if (len(n.targets) == 1 and isinstance(t, ast.Name) and isinstance(n.value, ast.Constant)) else bad).add(x.id)
            elif isinstance(n, ast.AugAssign) and isinstance(n.target, ast.Name):
                (ok if isinstance(n.value, ast.Constant) else bad).add(n.target.id)
            elif isinstance(n, ast.For):
                is_range = isinstance(n.iter, ast.Call) and dotted(n.iter.func) == "range"
                for x in ast.walk(n.target):
                    if isinstance(x, ast.Name):
                        (ok if is_range and isinstance(n.target, ast.Name) else bad).add(x.id)
        return ok - bad

    # ---- residual facts
    def at(self, v):
        return self.g.subs({self.Xname: v})

    def point_of(self, st, G):
        """G == +-g(v) for a value v the state knows -> (v, sign)"""
        cands = [v for v in st.env.values() if rat(v)] + [p[2] for p in self.probes.values() if rat(p[2])]
        seen = []
        for v in cands:
            if any(same(v, s) for s in seen):
                continue
            seen.append(v)
            try:
                gv = self.at(v)
            except Unsupported:
                continue
            if same(G, gv):
                return v, 1
            if same(G, -gv):
                return v, -1
        return None

    def is_counter_value(self, v):
        return rat(v) and symbols(v) <= self.counter_syms and not opaque_calls(v)

    def assume(self, st, value, truth):
        """-> [(facts, counter_only)] one entry per alternative under which `value` has the truth value `truth`"""
        out = []
        for alt in literals(value, truth):
            facts, counter_only = [], True
            for lit in alt:
                if lit[0] == "rel":
                    m = self.point_of(st, lit[1])
                    if m is not None:
                        facts.append((m[0], lit[2] if m[1] > 0 else flip(lit[2])))
                        counter_only = False
                    elif not self.is_counter_value(lit[1]):
                        counter_only = False
                elif not self.is_counter_value(lit[1]):
                    counter_only = False
            out.append((facts, counter_only))
        return out

    def narrowed(self, st, alts, exit_only):
        s = st.copy()
        use = alts
        if exit_only:
            real = [a for a in alts if not a[1]]
            if real:
                use = real
            else:
                s.via_counter = True
        common = None
        for facts, _ in use:
            if common is None:
                common = list(facts)
            else:
                common = [f for f in common if any(f[1] == r and same(f[0], v) for v, r in facts)]
        for v, r in common or []:
            s.add(v, r)
        return s

    # ---- evaluation of one statement / expression in a state
    def ev(self, st):
        e = Ev(self.W, env=st.env, fnode=self.holder)
        return e

    def value(self, st, node):
        na = len(self.W.apps)
        v = self.ev(st).ev(node)
        for name, pos, res, cn in self.W.apps[na:]:
            if name == self.rec["fname"] and cn is not None and pos:
                self.probes[id(cn)] = (cn, res, pos[0])
        return v

    # ---- control flow
    def join(self, states):
        states = [s for s in states if s is not None]
        if not states:
            return None
        if len(states) == 1:
            return states[0]
        out = State({})
        names = set()
        for s in states:
            names |= set(s.env)
        for nm in sorted(names):
            vals = [s.env.get(nm) for s in states]
            if all(v is vals[0] for v in vals):
                out.env[nm] = vals[0]
            elif any(not rat(v) for v in vals):
                out.env[nm] = Unknown(f"{nm}: differs between the paths that meet here")
            elif all(same(v, vals[0]) for v in vals):
                out.env[nm] = vals[0]
            else:
                self.fresh += 1
                phi = F.sym(f"{nm}@J{self.fresh}")
                out.env[nm] = phi
                for rel in RELS:
                    have = [s.has(s.env[nm], rel) for s in states]
                    if all(have):
                        out.facts.append((phi, rel))
                    elif any(have):
                        for s, h in zip(states, have):
                            if not h:
                                self.culprits.setdefault(nm, set()).update(s.defs.get(nm, ()))
            ds = set()
            for s in states:
                ds |= set(s.defs.get(nm, ()))
            if ds:
                out.defs[nm] = frozenset(ds)
        for v, r in states[0].facts:
            if all(s.has(v, r) for s in states[1:]) and not out.has(v, r):
                out.facts.append((v, r))
        return out

    @staticmethod
    def _exit_only(body):
        return bool(body) and isinstance(body[-1], (ast.Break, ast.Return, ast.Raise)) and not any(isinstance(s, (ast.If, ast.While, ast.For)) for s in body)

    def block(self, stmts, st):
        for s in stmts:
            if st is None:
                return None
            st = self.stmt(s, st)
        return st

    def stmt(self, s, st):
        if isinstance(s, ast.If):
            c = self.W.decide_base(s.test, self.ev(st))
            if c is True:
                return self.block(s.body, st)
            if c is False:
                return self.block(s.orelse, st)
            v = self.value(st, s.test)
            t = self.narrowed(st, self.assume(st, v, True), self._exit_only(s.body))
            f = self.narrowed(st, self.assume(st, v, False), self._exit_only(s.orelse))
            return self.join([self.block(s.body, t), self.block(s.orelse, f)])
        if isinstance(s, (ast.While, ast.For)):
            return self.loop(s, st)
        if isinstance(s, ast.Break):
            if self.frames:
                self.frames[-1]["breaks"].append(st)
            return None
        if isinstance(s, ast.Continue):
            if self.frames:
                self.frames[-1]["continues"].append(st)
            return None
        if isinstance(s, ast.Raise):
            return None
        if not isinstance(s, (ast.FunctionDef, ast.AsyncFunctionDef, ast.ClassDef)) and any(x is self.rec["node"] for x in ast.walk(s)):
            self.observe(s, st)
        if isinstance(s, ast.Return):
            return None
        e = self.ev(st)
        na = len(self.W.apps)
        e.stmt(s)
        for name, pos, res, cn in self.W.apps[na:]:
            if name == self.rec["fname"] and cn is not None and pos:
                self.probes[id(cn)] = (cn, res, pos[0])
        out = State(e.env, st.facts, st.defs)
        for nm in _assigned_names(s):
            out.defs[nm] = frozenset([s])
        if isinstance(s, (ast.FunctionDef, ast.AsyncFunctionDef)):
            out.defs[s.name] = frozenset([s])
        return out

    def observe(self, s, st):
        call = self.rec["node"]
        e = self.ev(st)
        pos, kw = e.args(call)
        vals = place(pos, kw, BRENTQ_SIG)
        names = {}
        for k, nd in list(zip(BRENTQ_SIG, call.args)) + [(k_.arg, k_.value) for k_ in call.keywords]:
            names[k] = nd
        self.observed.append((st, vals.get("a"), vals.get("b"), names.get("a"), names.get("b")))

    def loop(self, s, st):
        if s.orelse:
            raise Unsupported("loop with an else clause")
        carried = sorted(_assigned_names(s))
        tag = f"L{s.lineno}"
        for nm in carried:
            if nm in self.counters:
                self.counter_syms.add(f"{nm}@{tag}")
        always = isinstance(s, ast.While) and isinstance(s.test, ast.Constant) and bool(s.test.value)

        def holds(e, t, x, sg):
            a, b = e.env.get(t), e.env.get(x)
            if not rat(a) or not rat(b):
                return False
            try:
                return same(a, self.at(b) if sg > 0 else -self.at(b))
            except Unsupported:
                return False

        # a carried name that holds the residual at another carried name (fb = f(b), kept up to date by the body) stays tied to it
        REL = {(t, x, sg) for t in carried for x in carried if t != x for sg in (1, -1) if holds(st, t, x, sg)}

        def one_pass(NF, rel_, head_defs):
            head = st.copy()
            for nm in carried:
                head.env[nm] = F.sym(f"{nm}@{tag}")
                if head_defs.get(nm):
                    head.defs[nm] = frozenset(head_defs[nm])
            for t, x, sg in sorted(rel_):
                head.env[t] = self.at(head.env[x]) if sg > 0 else -self.at(head.env[x])
            for nm, rel in NF:
                head.add(head.env[nm], rel)
            frame = {"breaks": [], "continues": []}
            self.frames.append(frame)
            exits = []
            try:
                if isinstance(s, ast.While) and not always:
                    v = self.value(head, s.test)
                    body0 = self.narrowed(head, self.assume(head, v, True), False)
                    exits.append(self.narrowed(head, self.assume(head, v, False), True))
                else:
                    body0 = head
                    if isinstance(s, ast.For):
                        ex = head.copy()
                        ex.via_counter = True       # the iterable is used up
                        exits.append(ex)
                end = self.block(s.body, body0)
            finally:
                self.frames.pop()
            back = [e for e in [end] + frame["continues"] if e is not None]
            return exits + frame["breaks"], back

        def fixpoint(NF, blame):
            head_defs = {nm: set(st.defs.get(nm, ())) for nm in carried}
            rel_ = set(REL)
            for _ in range(12):
                nobs = len(self.observed)
                exits, back = one_pass(NF, rel_, head_defs)
                keep = set()
                for nm, rel in NF:
                    lacking = [e for e in back if not e.has(e.env.get(nm), rel)]
                    if not lacking:
                        keep.add((nm, rel))
                    elif blame:
                        for e in lacking:
                            self.culprits.setdefault(nm, set()).update(e.defs.get(nm, ()))
                keep_rel = {k for k in rel_ if all(holds(e, *k) for e in back)}
                nd = {nm: set(head_defs[nm]) for nm in carried}
                for e in back:
                    for nm in carried:
                        nd[nm] |= set(e.defs.get(nm, ()))
                if keep == NF and nd == head_defs and keep_rel == rel_:
                    return NF, exits
                del self.observed[nobs:]
                NF, head_defs, rel_ = keep, nd, keep_rel
            raise Unsupported("loop facts do not stabilise")

        entry = {(nm, rel) for nm in carried for rel in RELS if st.has(st.env.get(nm), rel)}
        # what the loop body alone would maintain: a fact of that set which the entry lacks is lost because of the definitions reaching the loop
        nobs = len(self.observed)
        saved = {k: set(v) for k, v in self.culprits.items()}
        optimistic, _ = fixpoint({(nm, rel) for nm in carried for rel in RELS}, False)
        del self.observed[nobs:]
        self.culprits = saved
        for nm, rel in optimistic - entry:
            self.culprits.setdefault(nm, set()).update(st.defs.get(nm, ()))
        NF, exits = fixpoint(entry, True)
        real = [e for e in exits if not e.via_counter]
        out = self.join(real or exits)
        if out is not None:
            out.via_counter = False
        return out

    def run(self):
        self.block(self.holder.body, self.entry)
        return self


def const_value(v):
    if rat(v) and v.is_const():
        return Fraction(v.const_value())
    return None
