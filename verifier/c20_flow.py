"""Value-level machinery of the C20 rules (helper module of verifier/c20.py).

 * `World` + `Ev`   an AutoEvaluator that knows the scipy distribution functions of pyyeti/stats.py in one canonical form (positional / keyword /
                    frozen-distribution / scipy.special spellings, callables resolved by value through imports, aliases and module constants),
                    follows calls to module-level helpers, nested functions, closures, lambdas and functools.partial objects (functions are values:
                    they can be passed as arguments, stored in a table and looked up by a string known by value), understands "apply f element-wise
                    to the broadcast operands and collect the results" as ONE construct (`element`: comprehension, generator + np.fromiter, for/append,
                    `.flat[i]` / `ravel()[i]` stores through any alias of the view with an enumerate / zip(range) / hand-kept / range(len) index, `map`,
                    `itertools.starmap`, `np.vectorize`, helper functions doing any of these), records every `brentq` call with the residual it is
                    handed and enumerates the paths through undecided tests (early returns, inverted conditions, conditional expressions, `match`,
                    break / continue);
 * `literals`       sign information carried by a test *value* (`f(b) < 0`, `not (f(b) < 0)`, `0 <= f(a)`, `x >= 0 or loops == 30`);
 * `Bracket`        abstract execution of the function holding a `brentq` call (or of a caller of it, helpers with control flow of their own are
                    executed too): which points have had the sign of the residual tested when the root finder is reached (if / conditional
                    expression / early return / while / while True + break / for-range + break / continue, values not names; pass counters are
                    recognised by value: `k += 1`, `k = 1 + k`, a component of a tuple assignment, limits that are literals, constants or parameters).
                    A helper is summarised per call by the list of ways it returns - (sign facts and "is a number" facts about values, returned
                    value) - and the caller goes on once per way (`Bracket.cases`), so `a, b = bracket(..)` / `if b is None: return a` keeps what
                    was established about a and b; statements are first brought into a form in which every such call is the right-hand side of an
                    assignment (`Bracket.normalised`: nested calls, starred results, comprehensions over the broadcast operands);
 * `not_none`, `AfterLoop`, `World.numbers`   which values cannot be None (arithmetic, numbers, new arrays, operands of earlier arithmetic on the
                    path, names whose every definition reaching the exit of a loop that is not executed is such a value).

Nothing here looks at how a statement is spelled: names are resolved through the module's imports and the environment, temporaries are substituted.
"""
from __future__ import annotations

import ast
import copy
from fractions import Fraction

from . import e2_formula as F
from .core import Unsupported
from .e1_srcmodel import dotted, walk_no_nested
from .e2_eval import AutoEvaluator, DictValue, Unknown, _assigned_names, is_unknown, need
from .sem import place, unfn

STATS = "pyyeti/stats.py"

# positional signature of the scipy callables the module uses (shape parameters after the quantile / count argument)
SIG = {
    "scipy.stats.norm.ppf": ("q",), "scipy.stats.norm.cdf": ("x",), "scipy.stats.norm.isf": ("q",), "scipy.stats.norm.sf": ("x",),
    "scipy.stats.nct.ppf": ("q", "df", "nc"), "scipy.stats.nct.isf": ("q", "df", "nc"),
    "scipy.stats.chi2.ppf": ("q", "df"), "scipy.stats.chi2.isf": ("q", "df"),
    "scipy.stats.binom.sf": ("k", "n", "p"), "scipy.stats.binom.cdf": ("k", "n", "p"), "scipy.stats.binom.ppf": ("q", "n", "p"),
    "scipy.stats.binom.isf": ("q", "n", "p"),
    "scipy.special.betainc": ("a", "b", "x"),
}
# other spellings of the same library functions
ALIAS = {"scipy.special.ndtri": "scipy.stats.norm.ppf", "scipy.special.ndtr": "scipy.stats.norm.cdf", "scipy.special.bdtr": "scipy.stats.binom.cdf",
         "scipy.special.bdtrc": "scipy.stats.binom.sf", "scipy.stats.distributions.norm.ppf": "scipy.stats.norm.ppf",
         "scipy.optimize.zeros.brentq": "scipy.optimize.brentq"}
BRENTQ_SIG = ["f", "a", "b", "args", "xtol", "rtol", "maxiter", "full_output", "disp"]
ROUNDERS = {"numpy.ceil": "ceil", "math.ceil": "ceil", "numpy.floor": "floor", "math.floor": "floor", "numpy.rint": "rint", "numpy.round": "round",
            "numpy.around": "round", "round": "round", "numpy.trunc": "trunc", "math.trunc": "trunc", "numpy.fix": "trunc"}
WRAPPERS = {"int", "each", "ceil", "floor", "rint", "round", "trunc"}
INT_TYPES = {"int", "numpy.int64", "numpy.int32", "numpy.int_", "numpy.intp", "numpy.integer"}
RELS = ("le0", "ge0")
FACTS = RELS + ("nn",)           # what a state can know about a value: sign of the residual there; "is a number, not None"


def imports(mod):
    """local name -> dotted library name; imports made inside a function count too (module-level ones win)"""
    tab = {}

    def take(st):
        if isinstance(st, ast.Import):
            for a in st.names:
                tab.setdefault(a.asname or a.name.split(".")[0], a.name if a.asname else a.name.split(".")[0])
        elif isinstance(st, ast.ImportFrom) and st.module and not st.level:
            for a in st.names:
                tab.setdefault(a.asname or a.name, f"{st.module}.{a.name}")

    for st in mod.tree.body:
        take(st)
    for st in ast.walk(mod.tree):
        take(st)
    return tab


def resolve(d, tab):
    if d is None:
        return None
    head, _, rest = d.partition(".")
    full = tab.get(head)
    if full is None:
        return d
    return full + ("." + rest if rest else "")


def rat(v):
    return isinstance(v, F.Rat)


def symname(v):
    """name of a value that is exactly one symbol, else None"""
    if not rat(v):
        return None
    try:
        if not v.d.is_const() or v.d.const_value() != 1 or len(v.n.t) != 1:
            return None
        (m, c), = v.n.t.items()
        if c != 1 or len(m) != 1 or m[0][1] != 1:
            return None
        d = F.atom_desc(m[0][0])
    except Exception:  # noqa
        return None
    return d[1] if d[0] == "s" else None


def _atom_args(d):
    out = []
    for k in d[2]:
        if not isinstance(k, str):
            out.append(F.Rat(F._poly_from_key(k[1]), F._poly_from_key(k[2])))
    return out


def walk_atoms(v, seen=None):
    """every atom description reachable from a value (through the arguments of opaque applications, exp, sqrt ...)"""
    if not rat(v):
        return
    for p in (v.n, v.d):
        for a in p.atoms():
            d = F.atom_desc(a)
            yield d
            if d[0] == "fn":
                for x in _atom_args(d):
                    yield from walk_atoms(x)
            elif d[0] in ("exp", "sin", "cos", "sqrt"):
                yield from walk_atoms(F.Rat(F._poly_from_key(d[1])))


def fn_atoms(v, name):
    """argument lists of every application `name(...)` inside a value"""
    return [_atom_args(d) for d in walk_atoms(v) if d[0] == "fn" and d[1] == name]


def symbols(v):
    return {d[1] for d in walk_atoms(v) if d[0] == "s"}


def opaque_calls(v):
    return sorted({d[1] for d in walk_atoms(v) if d[0] == "fn" and d[1].startswith("call:")})


def peel(v):
    """int(ceil(each(x))) -> (['int', 'ceil', 'each'], x)"""
    names = []
    while True:
        u = unfn(v)
        if u and u[0] in WRAPPERS and len(u[1]) == 1 and isinstance(u[1][0], F.Rat):
            names.append(u[0])
            v = u[1][0]
        else:
            return names, v


def same(a, b):
    if not rat(a) or not rat(b):
        return False
    try:
        return a.equals(b)
    except Unsupported:
        return False


def _single_atom(v):
    """description of the one atom a value consists of (coefficient 1, exponent 1), else None"""
    try:
        if not v.d.is_const() or v.d.const_value() != 1 or len(v.n.t) != 1:
            return None
        (m, c), = v.n.t.items()
        if c != 1 or len(m) != 1 or m[0][1] != 1:
            return None
        return F.atom_desc(m[0][0])
    except Exception:  # noqa
        return None


def not_none(v, numbers=()):
    """a value that cannot be `None` on a path on which nothing is raised: a number, a tuple, a new array, a function object, a string, a root
    returned by brentq, the result of arithmetic or of a modelled numeric function (None as an operand raises TypeError).  A bare name the
    function was handed, the result of an unmodelled call, an element or an attribute of something may be None - unless it is one of `numbers`,
    the symbols that have already been an operand of arithmetic on this path."""
    if isinstance(v, tuple):
        return True
    if is_unknown(v):
        return bool(getattr(v, "not_none", False))
    if not rat(v):
        return False
    if v.is_const():
        return True
    d = _single_atom(v)
    if d is None:
        return True                          # a sum / product / quotient
    if d[0] == "s":
        return d[1].startswith(("<", "'", '"', "ROOT")) or d[1] in ("True", "False", "pi", "Ellipsis") or d[1] in numbers
    if d[0] == "fn":
        return not d[1].startswith(("call:", "idx", "attr:", "bool:", "kw:"))
    return True                              # exp, sqrt, ...


class AfterLoop(Unknown):
    """the value a name holds after a loop the evaluator does not follow: unknown, but - as a summary of every definition that can reach the
    loop's exit - known to be a number (never None) when the value before the loop and every assignment inside it are"""

    def __init__(self, why, not_none_=False):
        super().__init__(why)
        self.not_none = not_none_


# ---------------------------------------------------------------------------------------------------------------------------------
# "apply f element-wise over the broadcast operands and collect the results into an array" is ONE construct.  An iterable value has a
# *generic element*: np.broadcast(c, r, p) -> (c, r, p); enumerate(it) -> (<i>, element of it); each(v) (a collected sequence) -> v;
# zip(range(n), it) -> (<i>, element).  A comprehension, a for loop that appends / stores into `.flat[i]`, `map`, `itertools.starmap`,
# `np.vectorize(f)(...)`, `np.fromiter` and helper functions that do any of these all produce each(value of f on the generic element).
INDEX = "<i>"
ELEMENT = "<element>"


def element(v):
    """generic element of an iterable value (a formula, or a tuple of elements), None when the value is not such an iterable"""
    u = unfn(v) if rat(v) else None
    if not u or any(not isinstance(a, F.Rat) for a in u[1]):
        return None
    name, args = u
    if name == "broadcast":
        return tuple(args)
    if name == "each" and len(args) == 1:
        return args[0]
    if name == "enumerate" and len(args) == 1:
        e = element(args[0])
        return None if e is None else (F.sym(INDEX), e)
    if name == "range0" and len(args) == 1:
        # range(len(seq)) / range(b.size): the running index over the elements of seq
        ua = unfn(args[0])
        if ua and ua[0] in ("count", "attr:size") and len(ua[1]) == 1 and isinstance(ua[1][0], F.Rat) and element(ua[1][0]) is not None:
            return F.sym(INDEX)
        return None
    if name == "zip" and args:
        # zip(range(n), it): the running index next to the element
        es = [F.sym(INDEX) if (unfn(a) or ("",))[0] == "range0" else element(a) for a in args]
        if any(e is None for e in es) or all(not isinstance(e, tuple) and symname(e) == INDEX for e in es):
            return None
        return tuple(es)
    return None


def is_buffer(v):
    return (symname(v) or "").startswith("<buffer@")


def flat_view_of(v):
    """value of `X.flat` / `X.ravel()` / `X.reshape(-1)` for a freshly allocated array X -> the symbol of X, else None"""
    u = unfn(v) if rat(v) else None
    if u and u[0] in ("attr:flat", "flatview") and len(u[1]) == 1 and is_buffer(u[1][0]):
        return symname(u[1][0])
    return None


def match_as_if(st):
    """`match s: case 'a': .. case 'b' | 'c': .. case _: ..` (literal patterns only) -> the if / elif chain it abbreviates, else None"""
    def test_of(pat):
        if isinstance(pat, ast.MatchValue):
            return ast.Compare(left=st.subject, ops=[ast.Eq()], comparators=[pat.value])
        if isinstance(pat, ast.MatchSingleton):
            return ast.Compare(left=st.subject, ops=[ast.Is()], comparators=[ast.Constant(value=pat.value)])
        if isinstance(pat, ast.MatchOr) and all(isinstance(q, ast.MatchValue) for q in pat.patterns):
            return ast.Compare(left=st.subject, ops=[ast.In()], comparators=[ast.Tuple(elts=[q.value for q in pat.patterns], ctx=ast.Load())])
        return None

    chain = []
    for case in st.cases:
        if isinstance(case.pattern, ast.MatchAs) and case.pattern.pattern is None and case.pattern.name is None:
            t = ast.Constant(value=True)
        else:
            t = test_of(case.pattern)
        if t is None:
            return None
        if case.guard is not None:
            t = case.guard if isinstance(t, ast.Constant) else ast.BoolOp(op=ast.And(), values=[t, case.guard])
        chain.append((t, case.body))
    tail = []
    for t, body in reversed(chain):
        if isinstance(t, ast.Constant):
            tail = list(body)
        else:
            tail = [ast.fix_missing_locations(ast.copy_location(ast.If(test=ast.copy_location(t, st), body=list(body), orelse=tail), body[0]))]
    if len(tail) == 1 and isinstance(tail[0], ast.If):
        return tail[0]
    return ast.fix_missing_locations(ast.copy_location(ast.If(test=ast.Constant(value=True), body=tail or [ast.Pass()], orelse=[]), st))


# ---------------------------------------------------------------------------------------------------------------------------------
class World:
    """what one rule evaluation shares between its evaluators: import table, module functions and constants, function values, oracle,
    records of brentq calls / helper applications / decisions"""

    def __init__(self, ctx, extra=None, opaque=()):
        self.ctx = ctx
        self.mod = ctx.src.mod(STATS)
        self.tab = imports(self.mod)
        self.modfuncs = {q: f for q, f in self.mod.funcs.items() if "." not in q and "#" not in q}
        self.extra = extra
        self.opaque = set(opaque)
        self.fvals = {}            # symbol name -> (FunctionDef | Lambda, defining evaluator)
        self.base = None           # oracle of the rule: (test, ev) -> True / False / None
        self.enumerating = False
        self.prefix = []
        self.taken = []            # (value chosen, value of the test, test node)
        self.brentq = []
        self.apps = []             # (callee symbol name, positional values, result, call node)
        self.rootsyms = {}
        self.arm = None
        self.numbers = set()       # symbols that were an operand of arithmetic on the path being evaluated: they are not None from there on
        self.modenv = {}
        self._match = {}
        ev = Ev(self)
        for st in self.mod.tree.body:
            if isinstance(st, (ast.Assign, ast.AnnAssign)) and all(isinstance(t, ast.Name) or (isinstance(t, (ast.Tuple, ast.List)) and all(isinstance(x, ast.Name) for x in t.elts))
                                                                  for t in (st.targets if isinstance(st, ast.Assign) else [st.target])):
                if getattr(st, "value", None) is not None:
                    ev.stmt(st)
        self.modenv = {k: v for k, v in ev.env.items() if not k.startswith("<")}

    def note_numbers(self, node, a, b, ev):
        """(binop hook) `x + 1`, `2 * a`, `r - 1` raise TypeError when the operand is None: where the path goes on, it was not"""
        for v in (a, b):
            nm = symname(v)
            if nm is not None and nm != "None":
                self.numbers.add(nm)
        return NotImplemented

    # ---- oracle
    def decide_base(self, test, ev):
        if isinstance(test, ast.Constant) and isinstance(test.value, (bool, int)):
            return bool(test.value)
        if isinstance(test, ast.Name) and test.id in ev.env and const_value(ev.env[test.id]) is not None:
            return const_value(ev.env[test.id]) != 0          # a flag whose value is known here (returned by a helper as True / False)
        if isinstance(test, ast.Compare) and len(test.ops) == 1 and isinstance(test.ops[0], (ast.Is, ast.IsNot, ast.Eq, ast.NotEq)):
            # `x is None` for a name whose value is known (a defaulted parameter that was / was not passed)
            a, b = test.left, test.comparators[0]
            for x, y in ((a, b), (b, a)):
                if isinstance(y, ast.Constant) and y.value is None and isinstance(x, ast.Name) and x.id in ev.env:
                    v = ev.env[x.id]
                    r = True if symname(v) == "None" else (False if not_none(v, self.numbers) else None)
                    if r is not None:
                        return r if isinstance(test.ops[0], (ast.Is, ast.Eq)) else not r
        if self.base is None:
            return None
        r = self.base(test, ev)
        if r is not None:
            return r
        if isinstance(test, ast.UnaryOp) and isinstance(test.op, ast.Not):
            r = self.decide_base(test.operand, ev)
            return None if r is None else (not r)
        if isinstance(test, ast.BoolOp):
            rs = [self.decide_base(v, ev) for v in test.values]
            if isinstance(test.op, ast.And):
                if any(r is False for r in rs):
                    return False
                return True if all(r is True for r in rs) else None
            if any(r is True for r in rs):
                return True
            return False if all(r is False for r in rs) else None
        if isinstance(test, ast.Compare) and len(test.ops) == 1 and isinstance(test.ops[0], (ast.NotEq, ast.NotIn)):
            pos = ast.Compare(left=test.left, ops=[ast.Eq() if isinstance(test.ops[0], ast.NotEq) else ast.In()], comparators=test.comparators)
            r = self.base(pos, ev)
            return None if r is None else (not r)
        return None

    def cond(self, test, ev):
        r = self.decide_base(test, ev)
        if r is not None or not self.enumerating:
            return r
        k = len(self.taken)
        val = self.prefix[k] if k < len(self.prefix) else True
        self.taken.append(None)          # reserve the slot: evaluating the test may itself meet tests
        self.taken[k] = (val, ev.ev(test), test)
        return val

    def match_if(self, st):
        if id(st) not in self._match:
            self._match[id(st)] = (match_as_if(st), st)
        return self._match[id(st)][0]

    # ---- functions as values
    def register(self, node, ev, name):
        key = f"<fn {name}@{getattr(node, 'lineno', 0)}:{getattr(node, 'col_offset', 0)}>"
        self.fvals[key] = (node, ev)
        return F.sym(key)

    def function(self, nm):
        if nm is None:
            return None
        if nm in self.fvals:
            return self.fvals[nm]
        if nm in self.modfuncs and nm not in self.opaque:
            return self.modfuncs[nm], None
        return None

    def callee_name(self, func, ev):
        if isinstance(func, ast.Lambda):
            return symname(ev.ev(func))
        d = dotted(func)
        if d is None:
            return None
        head, _, rest = d.partition(".")
        if head in ev.env:
            s = symname(ev.env[head])
            if s is None:
                return None
            d = s + ("." + rest if rest else "")
        elif head in self.modenv:
            s = symname(self.modenv[head])
            if s is None:
                return None
            d = s + ("." + rest if rest else "")
        return d

    def bind(self, fnode, defev, pos, kw, name):
        """environment of a call: the defining scope's names, parameters bound by position, keyword and default"""
        a = fnode.args
        cl = dict(defev.env) if defev is not None else {}
        env = dict(cl)
        params = [x.arg for x in a.posonlyargs + a.args]
        pos = list(pos)
        if len(pos) > len(params):
            if a.vararg is None:
                return Unknown(f"{name}: too many positional arguments")
            env[a.vararg.arg] = tuple(pos[len(params):])
            pos = pos[:len(params)]
        elif a.vararg is not None:
            env[a.vararg.arg] = ()
        bound = set()
        for p_, v in zip(params, pos):
            env[p_] = v
            bound.add(p_)
        kwonly = [x.arg for x in a.kwonlyargs]
        for k, v in kw.items():
            if k in bound or (k not in params and k not in kwonly):
                return Unknown(f"{name}: keyword {k}")
            env[k] = v
            bound.add(k)
        dev = Ev(self, env=cl)
        for p_, d in zip(params[::-1], (a.defaults or [])[::-1]):
            if p_ not in bound:
                env[p_] = dev.ev(d)
                bound.add(p_)
        for p_, d in zip(kwonly, a.kw_defaults):
            if p_ not in bound and d is not None:
                env[p_] = dev.ev(d)
                bound.add(p_)
        if any(p_ not in bound for p_ in params + kwonly):
            return Unknown(f"{name}: missing argument")
        return env

    def apply(self, fnode, defev, pos, kw, caller, name, node=None, record=True):
        if caller.depth >= 8:
            return Unknown("call depth")
        allpos = list(pos)
        env = self.bind(fnode, defev, pos, kw, name)
        if is_unknown(env):
            return env
        sub = Ev(self, env=env, fnode=fnode, depth=caller.depth + 1)
        sub.parent = caller
        if isinstance(fnode, ast.Lambda):
            v = sub.ev(fnode.body)
        else:
            sub.run(fnode.body)
            v = sub.returns[-1][0] if sub.returns else None
        if sub.raised:
            caller.raised = True
            caller.done = True
            return Unknown(f"{name} raises")
        if v is None:
            v = F.sym("None")
        if record:
            self.apps.append((name, allpos, v, node))
        return v

    # ---- calls
    def synth(self, func, ev, bind, starred=False, keywords=()):
        """value of `func(<bound values>)`: the call is built as a node over placeholder names and evaluated like any other call, so a
        function that is applied by `map`, `starmap`, `np.vectorize` ... goes through exactly the machinery of a direct call"""
        c = ev.child()
        args = []
        for k, v in enumerate(bind):
            nm = f"<arg{k}>"
            c.env[nm] = v
            x = ast.Name(id=nm, ctx=ast.Load())
            args.append(ast.Starred(value=x, ctx=ast.Load()) if starred else x)
        if not isinstance(func, ast.AST):
            c.env["<callee>"] = func
            func = ast.Name(id="<callee>", ctx=ast.Load())
        call = ast.fix_missing_locations(ast.copy_location(ast.Call(func=func, args=args, keywords=list(keywords)), ev.at or func))
        v = c.ev(call)
        if c.raised:
            ev.raised = ev.done = True
        return v

    def call(self, node, ev):
        func = node.func
        ev.at = node
        if isinstance(func, ast.Attribute):
            at = func.attr
            if at == "append" and isinstance(func.value, ast.Name) and ev.appends is not None and len(node.args) == 1 and not node.keywords:
                cur = ev.env.get(func.value.id)
                if isinstance(cur, tuple) and len(cur) == 0:
                    ev.appends.setdefault(func.value.id, []).append((ev.ev(node.args[0]), node))
                    return F.sym("None")
            if at in ("any", "all") and not node.args and not node.keywords:
                return F.fn(at, need(ev.ev(func.value)))
            if at in ("max", "min") and not node.args and not node.keywords:
                return F.fn("a" + at, need(ev.ev(func.value)))
            if at == "item" and not node.args and not node.keywords:
                return ev.ev(func.value)
            if at == "get" and isinstance(func.value, ast.Name) and 1 <= len(node.args) <= 2 and not node.keywords:
                base = ev.env.get(func.value.id, self.modenv.get(func.value.id))
                if isinstance(base, DictValue):
                    return self.lookup(base, ev.ev(node.args[0]), ev.ev(node.args[1]) if len(node.args) == 2 else F.sym("None"))
            if at == "astype" and len(node.args) == 1 and not node.keywords:
                recv = ev.ev(func.value)
                if resolve(dotted(node.args[0]), self.tab) in INT_TYPES:
                    return F.fn("int", need(recv))
                return recv
            if at in ("ravel", "reshape") and not node.keywords:
                recv = ev.ev(func.value)
                if is_buffer(recv) and (at == "ravel" or (len(node.args) == 1 and const_value(ev.ev(node.args[0])) == -1)):
                    return F.fn("flatview", recv)          # a view of the new array in flat order
                if element(recv) is not None or is_buffer(recv):
                    return recv                              # the same elements in another shape
        nm = self.callee_name(func, ev)
        if nm is None:
            # the callee as a value: np.vectorize(f), a frozen distribution's method, a function taken from a table
            if isinstance(func, ast.Attribute):
                u = unfn(ev.ev(func.value))
                if u and u[0].startswith("frozen:") and all(isinstance(a, F.Rat) for a in u[1]):
                    pos, kw = ev.args(node)
                    return self.lib(f"scipy.stats.{u[0][7:]}.{func.attr}", node, ev, argv=(list(pos[:1]) + list(u[1]) + list(pos[1:]), kw))
                return NotImplemented
            fv = ev.ev(func)
            u = unfn(fv)
            if u and u[0] == "vectorized" and len(u[1]) == 1 and isinstance(u[1][0], F.Rat) and not any(isinstance(a, ast.Starred) for a in node.args):
                c = ev.child()
                c.env["<callee>"] = u[1][0]
                v = c.ev(ast.copy_location(ast.Call(func=ast.copy_location(ast.Name(id="<callee>", ctx=ast.Load()), node), args=node.args, keywords=node.keywords), node))
                if c.raised:
                    ev.raised = ev.done = True
                return F.fn("each", need(v, "np.vectorize result"))
            nm = symname(fv)
            if nm is None:
                return NotImplemented
        if self.extra is not None:
            r = self.extra(nm, node, ev)
            if r is not NotImplemented:
                return r
        f = self.function(nm)
        if f is not None:
            pos, kw = ev.args(node)
            return self.apply(f[0], f[1], pos, kw, ev, nm, node)
        return self.lib(resolve(nm, self.tab), node, ev)

    def lib(self, d, node, ev, argv=None):
        """library callables.  scipy distribution functions become opaque applications in a canonical form (sf -> 1 - cdf, isf(q) -> ppf(1 - q),
        the regularised incomplete beta function with integer-shaped arguments -> the binomial cdf it equals)"""
        cache = []
        d = ALIAS.get(d, d)

        def args():
            if not cache:
                cache.append(argv if argv is not None else ev.args(node))
            return cache[0]

        nargs = len(node.args) if argv is None else len(argv[0])
        one = lambda: need(args()[0][0])      # noqa
        if d in ("numpy.asarray", "numpy.atleast_1d", "numpy.array", "float", "numpy.float64", "numpy.asanyarray", "numpy.ascontiguousarray"):
            return args()[0][0]
        if d == ELEMENT and nargs == 1:
            el = element(args()[0][0]) if rat(args()[0][0]) else None          # (Bracket.normalised) the generic element of an iterable
            return el if el is not None else Unknown("generic element of something that is not the elements of np.broadcast(...)")
        if d == "numpy.copyto" and nargs == 2 and not node.keywords:
            dst, src_ = args()[0]
            if is_buffer(dst) and rat(src_) and element(src_) is not None and rat(element(src_)):
                ev._fill(symname(dst), src_)
                return F.sym("None")
            return NotImplemented
        if d == "numpy.broadcast_arrays" and not node.keywords:
            return tuple(args()[0])          # element-wise the operands themselves
        if d in ("list", "tuple", "iter", "numpy.fromiter", "numpy.reshape", "numpy.ravel") and nargs >= 1:
            v = args()[0][0]
            if isinstance(v, tuple) or element(v) is not None:
                return v                     # the same elements, collected / reshaped
            return NotImplemented
        if d in ("map", "itertools.starmap") and nargs >= 2 and not node.keywords and argv is None \
                and not any(isinstance(a, ast.Starred) for a in node.args):
            els = [element(ev.ev(a)) for a in node.args[1:]]
            if any(e is None for e in els) or (d != "map" and len(els) != 1):
                return NotImplemented
            v = self.synth(node.args[0], ev, els, starred=(d != "map"))
            return F.fn("each", need(v, "mapped function"))
        if d == "functools.partial" and argv is None and node.args and not any(k.arg is None for k in node.keywords):
            # partial(f, x, k=y) is  lambda *rest: f(x, *rest, k=y)
            rest = ast.Starred(value=ast.Name(id="<rest>", ctx=ast.Load()), ctx=ast.Load())
            lam = ast.Lambda(args=ast.arguments(posonlyargs=[], args=[], vararg=ast.arg(arg="<rest>"), kwonlyargs=[], kw_defaults=[], kwarg=None, defaults=[]),
                             body=ast.Call(func=node.args[0], args=list(node.args[1:]) + [rest], keywords=list(node.keywords)))
            return self.register(ast.fix_missing_locations(ast.copy_location(lam, node)), ev, "partial")
        if d in ("numpy.vectorize", "numpy.frompyfunc") and nargs >= 1:
            fv = args()[0][0]
            if symname(fv) is None:
                return NotImplemented
            return F.fn("vectorized", fv)
        if d == "zip" and nargs >= 1 and not node.keywords:
            vs = args()[0]
            if all(rat(v) and (element(v) is not None or (unfn(v) or ("",))[0] == "range0") for v in vs):
                return F.fn("zip", *vs)
            return NotImplemented
        if d == "range" and nargs == 1:
            return F.fn("range0", one())
        if d == "len" and nargs == 1:
            v = args()[0][0]
            if isinstance(v, tuple):
                return F.const(len(v))
            if rat(v) and element(v) is not None:
                return F.fn("count", v)
            return NotImplemented
        if d == "int":
            return F.fn("int", one())
        if d in UFUNC2 and nargs == 2 and not node.keywords:
            pos, kw = args()
            return UFUNC2[d](need(pos[0]), need(pos[1]))
        if d in UFUNC1 and nargs == 1 and not node.keywords:
            return UFUNC1[d](one())
        if d in ("numpy.sqrt", "math.sqrt"):
            return F.sqrt(one())
        if d in ("numpy.exp", "math.exp"):
            return F.exp(one())
        if d in ("numpy.abs", "numpy.absolute", "numpy.fabs", "abs", "math.fabs"):
            return F.fn("abs", one())
        if d in ("numpy.any", "numpy.all"):
            return F.fn(d.rsplit(".", 1)[1], one())
        if d in ("any", "all") and nargs == 1:
            return F.fn(d, one())
        if d in ("numpy.max", "numpy.amax", "numpy.min", "numpy.amin", "numpy.nanmax", "max", "min") and nargs == 1 and not node.keywords:
            return F.fn("amax" if d.endswith("max") else "amin", one())
        if d in ROUNDERS and nargs == 1:
            return F.fn(ROUNDERS[d], one())
        if d in ("numpy.empty", "numpy.zeros", "numpy.empty_like", "numpy.zeros_like", "numpy.ones", "numpy.ones_like", "numpy.full", "numpy.full_like",
                 "numpy.ndarray"):
            return F.sym(f"<buffer@{node.lineno}>")
        if d == "numpy.broadcast":
            pos, kw = args()
            return F.fn("broadcast", *[need(x) for x in pos])
        if d == "numpy.nditer" and nargs >= 1 and isinstance(args()[0][0], tuple):
            return F.fn("broadcast", *[need(x) for x in args()[0][0]])          # element-wise over the broadcast operands, too
        if d == "enumerate" and nargs == 1 and not node.keywords:
            return F.fn("enumerate", one())
        if d == "numpy.clip":
            pos, kw = args()
            v = place(pos, kw, ["a", "a_min", "a_max"])
            return F.fn("clip", need(v["a"]), need(v.get("a_min", F.sym("None"))), need(v.get("a_max", F.sym("None"))))
        if d in ("numpy.minimum", "numpy.maximum", "numpy.fmin", "numpy.fmax", "min", "max") and nargs == 2 and not node.keywords:
            pos, kw = args()
            x, y = sorted((need(pos[0]), need(pos[1])), key=repr)
            return F.fn("min" if d.endswith(("min", "minimum")) else "max", x, y)
        if d == "scipy.optimize.brentq":
            return self._brentq(node, ev)
        frozen = f"{d}.ppf" in SIG and d.startswith("scipy.stats.")          # norm(), binom(n, p): a frozen distribution
        if d not in SIG and not frozen:
            return NotImplemented
        names = SIG[d] if not frozen else SIG[f"{d}.ppf"][1:]
        pos, kw = args()
        if len(pos) > len(names):
            raise Unsupported(f"{d}: too many positional arguments")
        vals = {}
        for nm, v in zip(names, pos):
            vals[nm] = need(v, nm)
        for k, v in kw.items():
            if k in ("loc", "scale") and d.startswith("scipy.stats.") and const_value(v) == (0 if k == "loc" else 1):
                continue                     # the defaults, spelled out
            if k not in names or k in vals:
                raise Unsupported(f"{d}: keyword {k}")
            vals[k] = need(v, k)
        if set(vals) != set(names):
            raise Unsupported(f"{d}: arguments {sorted(vals)}")
        if frozen:
            return F.fn("frozen:" + d.rsplit(".", 1)[1], *[vals[n] for n in names])
        dist, meth = d.rsplit(".", 1)
        dist = dist.rsplit(".", 1)[1] if "." in dist else dist
        if d == "scipy.special.betainc":
            # I_x(a, b) = P(X >= a), X ~ Binomial(a + b - 1, x)  =>  1 - I_x(s + 1, n - s) = cdf(s; n, x)
            return 1 - F.fn("binom.cdf", vals["a"] - 1, vals["a"] + vals["b"] - 1, vals["x"])
        if meth == "sf":
            return 1 - F.fn(f"{dist}.cdf", *[vals[n] for n in names])
        if meth == "isf":
            return F.fn(f"{dist}.ppf", *[(1 - vals[n]) if n == "q" else vals[n] for n in names])
        return F.fn(f"{dist}.{meth}", *[vals[n] for n in names])

    def _brentq(self, node, ev):
        pos, kw = ev.args(node)
        vals = place(pos, kw, BRENTQ_SIG)
        key = id(node)
        if key not in self.rootsyms:
            self.rootsyms[key] = f"ROOT{len(self.rootsyms)}"
        X = F.sym(self.rootsyms[key])
        fname = symname(vals.get("f"))
        f = self.function(fname)
        argv = vals.get("args", ())
        if not isinstance(argv, tuple):
            argv = (argv,)
        g = Unknown("the residual handed to brentq is not a function defined in pyyeti/stats.py")
        if f is not None:
            g = self.apply(f[0], f[1], [X] + list(argv), {}, ev, fname, node, record=False)
        self.brentq.append(dict(node=node, X=X, Xname=self.rootsyms[key], g=g, a=vals.get("a"), b=vals.get("b"), vals=vals, fname=fname, argv=argv,
                                ev=ev, arm=self.arm))
        return X

    def subscript(self, node, ev):
        if isinstance(node.slice, ast.Tuple) and not node.slice.elts:      # x[()] : the scalar of a 0-d array
            return ev._ev(node.value)
        if isinstance(node.value, (ast.Name, ast.Dict)) and not isinstance(node.slice, (ast.Constant, ast.Slice, ast.Tuple)):
            base = ev.env.get(node.value.id, self.modenv.get(node.value.id)) if isinstance(node.value, ast.Name) else ev.ev(node.value)
            if isinstance(base, DictValue):
                return self.lookup(base, ev.ev(node.slice))
        if isinstance(node.slice, ast.Name) and symname(ev.env.get(node.slice.id)) == INDEX:
            # seq[i] with i the running index over seq: the generic element
            base = ev.ev(node.value)
            el = element(base) if rat(base) else None
            if el is not None and flat_view_of(base) is None:
                return el
        return NotImplemented

    @staticmethod
    def lookup(table, key, default=None):
        """TABLE[key] for a literal table and a key known by value (a string)"""
        k = symname(key)
        if k and k[:1] in "'\"":
            try:
                k = ast.literal_eval(k)
            except (ValueError, SyntaxError):
                return Unknown("table key")
            if k in table.d:
                return table.d[k]
            return default if default is not None else Unknown(f"key {k!r} not in the literal table")
        return Unknown("table key is not known by value")


def _as_load(t):
    n = copy.copy(t)
    n.ctx = ast.Load()
    return n


def _power(a, b):
    if b.is_const() and b.const_value() == Fraction(1, 2):
        return F.sqrt(a)
    if b.is_const() and b.const_value() == Fraction(-1, 2):
        return 1 / F.sqrt(a)
    return a ** b


# arithmetic spelled as numpy functions
UFUNC2 = {"numpy.add": lambda a, b: a + b, "numpy.subtract": lambda a, b: a - b, "numpy.multiply": lambda a, b: a * b,
          "numpy.divide": lambda a, b: a / b, "numpy.true_divide": lambda a, b: a / b, "numpy.power": _power, "numpy.float_power": _power,
          "math.pow": _power, "operator.add": lambda a, b: a + b, "operator.sub": lambda a, b: a - b, "operator.mul": lambda a, b: a * b,
          "operator.truediv": lambda a, b: a / b}
for _nm, _op in (("greater", "Gt"), ("greater_equal", "GtE"), ("less", "Lt"), ("less_equal", "LtE"), ("equal", "Eq"), ("not_equal", "NotEq")):
    UFUNC2["numpy." + _nm] = (lambda op: lambda a, b: F.fn("cmp:" + op, a, b))(_op)
for _nm, _op in (("gt", "Gt"), ("ge", "GtE"), ("lt", "Lt"), ("le", "LtE")):
    UFUNC2["operator." + _nm] = (lambda op: lambda a, b: F.fn("cmp:" + op, a, b))(_op)
UFUNC2["numpy.logical_and"] = lambda a, b: F.fn("bool:And", a, b)
UFUNC2["numpy.logical_or"] = lambda a, b: F.fn("bool:Or", a, b)
UFUNC1 = {"numpy.logical_not": lambda a: F.fn("not", a), "operator.not_": lambda a: F.fn("not", a), "numpy.negative": lambda a: -a, "numpy.square": lambda a: a * a, "numpy.reciprocal": lambda a: 1 / a, "numpy.positive": lambda a: a,
          "operator.neg": lambda a: -a}
READ_ONLY_METHODS = {"astype", "copy", "item", "any", "all", "max", "min", "sum", "mean", "tolist", "ravel", "reshape", "flatten", "squeeze", "view", "transpose"}
NAMED_CONSTS = {"numpy.pi": lambda: F.sym("pi"), "math.pi": lambda: F.sym("pi"), "scipy.pi": lambda: F.sym("pi"), "scipy.constants.pi": lambda: F.sym("pi"),
                "math.tau": lambda: 2 * F.sym("pi")}


def _pasted():
    import math
    pi = lambda: F.sym("pi")      # noqa
    return [(math.pi, pi), (2 * math.pi, lambda: 2 * pi()), (math.sqrt(2 * math.pi), lambda: F.sqrt(2 * pi())), (1 / math.sqrt(2 * math.pi), lambda: 1 / F.sqrt(2 * pi())),
            (math.sqrt(math.pi), lambda: F.sqrt(pi())), (math.sqrt(2), lambda: F.sqrt(F.const(2))), (1 / math.sqrt(2), lambda: 1 / F.sqrt(F.const(2)))]


PASTED = _pasted()


class Ev(AutoEvaluator):
    def __init__(self, W, env=None, fnode=None, depth=0):
        super().__init__(None, env=env, cond=W.cond, src=W.ctx.src, subscript=W.subscript, binop=W.note_numbers)
        self.W = W
        self.fnode = fnode
        self.depth = depth
        self.entry_env = dict(self.env)
        self.raised = False
        self.broke = False          # the path left the enclosing loop through `break`
        self.continued = False
        self.appends = None
        self.flats = None
        self.at = None
        self.parent = None          # the evaluator of the calling function

    def child(self):
        c = Ev(self.W, env=dict(self.env), fnode=self.fnode, depth=self.depth)
        c.entry_env = self.entry_env
        c.at = self.at
        c.parent = self.parent
        return c

    def frames(self):
        """(function, environment at its entry) from this evaluation outwards through the calls that led here"""
        out, e = [], self
        while e is not None:
            if e.fnode is not None and isinstance(e.fnode, (ast.FunctionDef, ast.AsyncFunctionDef)) and not any(f is e.fnode for f, _ in out):
                out.append((e.fnode, e.entry_env))
            e = e.parent
        return out

    def args(self, node):
        pos = []
        for a in node.args:
            if isinstance(a, ast.Starred):
                v = self.ev(a.value)
                if not isinstance(v, tuple):
                    raise Unsupported(f"*{ast.unparse(a.value)} is not a tuple of known length")
                pos.extend(v)
            else:
                pos.append(self.ev(a))
        kw = {}
        for k in node.keywords:
            if k.arg is None:
                raise Unsupported("**kwargs")
            kw[k.arg] = self.ev(k.value)
        return pos, kw

    def _ev(self, node):
        if isinstance(node, ast.Name) and node.id not in self.env and node.id in self.W.modenv:
            return self.W.modenv[node.id]
        if isinstance(node, ast.Constant) and isinstance(node.value, float):
            # a constant computed once and pasted in as a literal: the double nearest to a closed form is that closed form
            for x, make in PASTED:
                if node.value == x:
                    return make()
        if isinstance(node, (ast.Name, ast.Attribute)):
            d = dotted(node)
            if d is not None and d.split(".")[0] not in self.env:
                full = resolve(d, self.W.tab)
                if full in NAMED_CONSTS:
                    return NAMED_CONSTS[full]()
        if isinstance(node, ast.Lambda):
            return self.W.register(node, self, "lambda")
        if isinstance(node, (ast.ListComp, ast.GeneratorExp)):
            return self._comprehension(node)
        return super()._ev(node)

    def _call(self, node):
        r = self.W.call(node, self)
        if r is not NotImplemented:
            return r
        # a call the evaluator has no model of may write into a new array it is handed (np.put(X, ..), X.fill(..)): contents unknown from here on
        for a in list(node.args) + ([node.func.value] if isinstance(node.func, ast.Attribute) else []):
            if isinstance(a, ast.Name) and a.id in self.env:
                v = self.env[a.id]
                buf = symname(v) if is_buffer(v) else flat_view_of(v)
                if buf is not None and not (isinstance(node.func, ast.Attribute) and node.func.attr in READ_ONLY_METHODS):
                    self._fill(buf, Unknown(f"{a.id}: written by {ast.unparse(node.func)}(...)"))
        return super()._call(node)

    def _not_followed(self, st):
        """a loop / branch whose body is not executed: a new array that is stored into in there has unknown contents afterwards (never "still empty")"""
        for x in ast.walk(st):
            tgt = None
            if isinstance(x, (ast.Subscript, ast.Attribute)) and isinstance(x.ctx, ast.Store):
                tgt = x.value
                while isinstance(tgt, (ast.Subscript, ast.Attribute)):
                    tgt = tgt.value
            elif isinstance(x, ast.Call):
                for a in list(x.args) + ([x.func.value] if isinstance(x.func, ast.Attribute) else []):
                    if isinstance(a, ast.Name) and a.id in self.env and not (isinstance(x.func, ast.Attribute) and x.func.attr in READ_ONLY_METHODS):
                        v = self.env[a.id]
                        buf = symname(v) if is_buffer(v) else flat_view_of(v)
                        if buf is not None:
                            self._fill(buf, Unknown(f"{a.id}: passed to {ast.unparse(x.func)}(...) inside a {type(st).__name__} the checker does not follow"))
            if isinstance(tgt, ast.Name) and tgt.id in self.env:
                v = self.env[tgt.id]
                buf = symname(v) if is_buffer(v) else flat_view_of(v)
                if buf is not None:
                    self._fill(buf, Unknown(f"{tgt.id}: stored into inside a {type(st).__name__} the checker does not follow"))

    def _comprehension(self, node):
        if len(node.generators) != 1 or node.generators[0].ifs or node.generators[0].is_async:
            return Unknown("comprehension shape")
        g = node.generators[0]
        it = self.ev(g.iter)
        if isinstance(it, tuple):
            # a literal sequence: element by element
            out = []
            for x in it:
                c = self.child()
                c._assign(g.target, x, node)
                out.append(c.ev(node.elt))
                if c.raised:
                    self.raised = self.done = True
            return tuple(out)
        el = element(it)
        if el is None:
            return Unknown(f"comprehension over {ast.unparse(g.iter)}: not the elements of np.broadcast(...)")
        c = self.child()
        c._assign(g.target, el, node)
        v = c.ev(node.elt)
        if c.raised:
            self.raised = self.done = True
        if not rat(v):
            return v if is_unknown(v) else Unknown("tuple-valued comprehension element")
        return F.fn("each", v)

    def _fill(self, buf, value):
        """the new array `buf` now holds `value`: every name bound to it sees that"""
        for k, v in list(self.env.items()):
            if symname(v) == buf:
                self.env[k] = value

    def _for_each(self, st):
        el = element(self.ev(st.iter))
        if el is None or st.orelse:
            return False
        self._assign(st.target, el, st)
        # a hand-kept running index: a name that is 0 before the loop and stepped by one in each pass
        idx = sorted(nm for nm in _assigned_names(ast.Module(body=st.body, type_ignores=[])) if const_value(self.env.get(nm)) == 0)
        for nm in idx:
            self.env[nm] = F.sym(INDEX)
        saved = self.appends, self.flats
        self.appends, self.flats = {}, {}
        self.run(st.body)
        apps, flats = self.appends, self.flats
        self.appends, self.flats = saved
        if (self.broke or self.continued) and not self.returns and not self.raised:
            self.broke = self.continued = self.done = False
        counted = all(same(self.env.get(nm), F.sym(INDEX) + 1) for nm in idx)
        for nm in idx:
            self.env[nm] = Unknown(f"{nm}: number of elements")
        if not counted:
            # a name that looked like a running index is something else: what the stores were indexed with is unknown
            flats = {buf: [(Unknown("index"), Unknown("index"), st)] for buf in flats}
        for name, vals in apps.items():
            ok = len(vals) == 1 and rat(vals[0][0])
            self.env[name] = F.fn("each", vals[0][0]) if ok else Unknown(f"{name}.append inside the loop")
        for buf, vals in flats.items():
            ok = len(vals) == 1 and rat(vals[0][1]) and same(vals[0][0], F.sym(INDEX))
            self._fill(buf, F.fn("each", vals[0][1]) if ok else Unknown(f"{buf}: element stores inside the loop"))
        return True

    def stmt(self, st):
        if self.done:
            return
        if isinstance(st, (ast.FunctionDef, ast.AsyncFunctionDef)):
            self.env[st.name] = self.W.register(st, self, st.name)
            return
        if isinstance(st, ast.Raise):
            self.done = self.raised = True
            return
        if isinstance(st, ast.Break):
            self.done = self.broke = True
            return
        if isinstance(st, ast.Continue):
            self.done = self.continued = True
            return
        if isinstance(st, ast.Match):
            conv = self.W.match_if(st)
            if conv is not None:
                return self.stmt(conv)
        if isinstance(st, ast.Try):
            # the path on which nothing is raised
            self.run(list(st.body) + list(st.orelse) + list(st.finalbody))
            return
        if isinstance(st, ast.With):
            # a context manager does not change the values computed under it
            for item in st.items:
                v = self.ev(item.context_expr)
                if item.optional_vars is not None:
                    self._assign(item.optional_vars, v, st)
            self.run(st.body)
            return
        if isinstance(st, ast.For):
            try:
                if self._for_each(st):
                    return
            except Unsupported:
                pass
        if isinstance(st, (ast.For, ast.While)) or (isinstance(st, ast.If) and not self.W.enumerating and self.W.decide_base(st.test, self) is None):
            self._not_followed(st)
        if isinstance(st, (ast.For, ast.While)):
            before = dict(self.env)
            super().stmt(st)
            for nm in self._numbers_after(st, before):
                if is_unknown(self.env.get(nm)):
                    self.env[nm] = AfterLoop(self.env[nm].why, True)
            return None
        return super().stmt(st)

    def _numbers_after(self, loop, before):
        """summary of a loop that is not executed: the names that cannot hold None where it is left.  A name qualifies when its value before the
        loop does and every assignment to it inside the loop (evaluated on placeholders for the names the loop changes) gives such a value; the
        largest set of names with that property is found by iteration."""
        carried = sorted(_assigned_names(loop))
        W = self.W
        good = {nm for nm in carried if nm in before and not_none(before[nm], W.numbers)}
        sites = []            # (target node, value node | None)
        for x in walk_no_nested(loop):
            if isinstance(x, ast.Assign):
                sites += [(t, x.value) for t in x.targets]
            elif isinstance(x, ast.AnnAssign) and x.value is not None:
                sites.append((x.target, x.value))
            elif isinstance(x, ast.AugAssign):
                sites.append((x.target, ast.BinOp(left=_as_load(x.target), op=x.op, right=x.value)))
            elif isinstance(x, ast.NamedExpr):
                sites.append((x.target, x.value))
            elif isinstance(x, (ast.For, ast.comprehension)):
                sites.append((x.target, None))
            elif isinstance(x, ast.withitem) and x.optional_vars is not None:
                sites.append((x.optional_vars, None))
        saved = W.enumerating, len(W.brentq), len(W.apps), list(W.taken), set(W.numbers)
        W.enumerating = False
        try:
            while True:
                env = dict(before)
                for nm in carried:
                    env[nm] = F.sym(f"<number {nm}>" if nm in good else f"maybe-None {nm}")
                drop = set()

                def one(target, v):
                    if isinstance(target, ast.Name):
                        if not not_none(v, saved[4]):
                            drop.add(target.id)
                    elif isinstance(target, (ast.Tuple, ast.List)):
                        if isinstance(v, tuple) and len(v) == len(target.elts) and not any(isinstance(t, ast.Starred) for t in target.elts):
                            for t, x in zip(target.elts, v):
                                one(t, x)
                        else:
                            drop.update(t.id for t in ast.walk(target) if isinstance(t, ast.Name))

                for target, value in sites:
                    v = None
                    if value is not None:
                        e = Ev(W, env=dict(env), fnode=self.fnode, depth=self.depth)
                        e.parent = self.parent
                        v = e.ev(ast.fix_missing_locations(ast.copy_location(value, loop)) if not hasattr(value, "lineno") else value)
                    one(target, v)
                if not (drop & good):
                    return good
                good -= drop
        finally:
            W.enumerating = saved[0]
            del W.brentq[saved[1]:]
            del W.apps[saved[2]:]
            W.taken[:] = saved[3]
            W.numbers = saved[4]

    def _assign(self, target, v, st, aug=False):
        if isinstance(target, (ast.Attribute, ast.Subscript)):
            whole = isinstance(target, ast.Attribute) and target.attr == "flat"
            recv = self.ev(target.value)
            buf = symname(recv) if is_buffer(recv) else flat_view_of(recv)
            if isinstance(target, ast.Subscript) and buf is not None:
                sl = target.slice
                if isinstance(sl, ast.Constant) and sl.value is Ellipsis or isinstance(sl, ast.Slice) and sl.lower is None and sl.upper is None and sl.step is None:
                    whole = True              # X[...] = values, X.flat[:] = values
                elif flat_view_of(recv) is not None and self.flats is not None and not aug:
                    self.flats.setdefault(buf, []).append((self.ev(sl), v, st))      # one element, by its flat index
                    return
                else:
                    self._fill(buf, Unknown(f"store into {ast.unparse(target)}"))
                    return
            if whole:
                if buf is None or flat_view_of(recv) is not None and isinstance(target, ast.Attribute):
                    if isinstance(target.value, ast.Name):
                        self.env[target.value.id] = Unknown(f"{ast.unparse(target)} = <not an element-wise list into a new array>")
                    return
                self._fill(buf, v if element(v) is not None and rat(element(v)) and not aug else Unknown(f"{ast.unparse(target)} = <not an element-wise list into a new array>"))
                return
        return super()._assign(target, v, st, aug)


class Path:
    def __init__(self, ev, decisions, brentq, apps):
        self.ev, self.decisions, self.brentq, self.apps = ev, decisions, brentq, apps

    @property
    def returns(self):
        return (not self.ev.raised) and bool(self.ev.returns)

    @property
    def value(self):
        return self.ev.returns[-1][0]

    @property
    def node(self):
        return self.ev.returns[-1][1]


def enumerate_paths(W, runner, limit=96):
    """run `runner` once for every combination of outcomes of the tests the rule's oracle leaves open"""
    out = []
    stack = [[]]
    was = W.enumerating
    W.enumerating = True
    try:
        while stack:
            W.prefix = stack.pop()
            W.taken = []
            W.numbers = set()
            nb, na = len(W.brentq), len(W.apps)
            ev = runner()
            taken = [t for t in W.taken if t is not None]
            out.append(Path(ev, taken, W.brentq[nb:], W.apps[na:]))
            for k in range(len(W.prefix), len(taken)):
                stack.append([t[0] for t in taken[:k]] + [not taken[k][0]])
            if len(out) > limit:
                raise Unsupported("too many paths")
    finally:
        W.enumerating = was
        W.prefix, W.taken = [], []
    return out


# ---------------------------------------------------------------------------------------------------------------------------------
_NEG = {"Lt": "GtE", "LtE": "Gt", "Gt": "LtE", "GtE": "Lt", "Eq": "NotEq", "NotEq": "Eq"}


def literals(v, truth=True):
    """value of a test -> alternatives (a disjunction) of conjunctions of literals.
    literal: ('rel', G, 'le0' | 'ge0')  meaning  G <= 0 / G >= 0   |   ('other', value, truth)"""
    u = unfn(v) if rat(v) else None
    if u:
        name, args = u
        if name == "not" and len(args) == 1 and isinstance(args[0], F.Rat):
            return literals(args[0], not truth)
        if name in ("bool:And", "bool:Or") and all(isinstance(a, F.Rat) for a in args):
            parts = [literals(a, truth) for a in args]
            if (name == "bool:And") == truth:
                alts = [[]]
                for p in parts:
                    alts = [x + y for x in alts for y in p]
                    if len(alts) > 64:
                        raise Unsupported("test too large")
                return alts
            return [a for p in parts for a in p]
        if name.startswith("cmp:") and len(args) == 2 and all(isinstance(a, F.Rat) for a in args):
            op = name[4:]
            if not truth:
                op = _NEG.get(op, "?")
            if op in ("Lt", "LtE"):
                return [[("rel", args[0] - args[1], "le0")]]
            if op in ("Gt", "GtE"):
                return [[("rel", args[0] - args[1], "ge0")]]
    return [[("other", v, truth)]]


def const_truth(v):
    """truth of a comparison of two constants (a limit test whose counter is never stepped: `0 < 30`), else None"""
    u = unfn(v) if rat(v) else None
    if u and u[0].startswith("cmp:") and len(u[1]) == 2 and all(isinstance(a, F.Rat) and a.is_const() for a in u[1]):
        a, b = (Fraction(x.const_value()) for x in u[1])
        op = u[0][4:]
        return {"Lt": a < b, "LtE": a <= b, "Gt": a > b, "GtE": a >= b, "Eq": a == b, "NotEq": a != b}.get(op)
    if rat(v) and v.is_const():
        return v.const_value() != 0
    return None


def flip(rel):
    return "ge0" if rel == "le0" else "le0"


class State:
    def __init__(self, env, facts=None, defs=None):
        self.env = dict(env)
        self.facts = list(facts or [])       # (value, 'le0' | 'ge0'):  residual(value) <= 0 / >= 0
        self.defs = dict(defs or {})         # name -> frozenset of defining statements that reach here
        self.via_counter = False

    def copy(self):
        s = State(self.env, self.facts, self.defs)
        return s

    def has(self, v, rel):
        if rel == "nn" and not_none(v):
            return True
        return rat(v) and any(r == rel and same(x, v) for x, r in self.facts)

    def add(self, v, rel):
        if not self.has(v, rel):
            self.facts.append((v, rel))


class Bracket:
    """abstract execution of the function that holds one brentq call: at the call, for which values has the sign of the residual been tested?

    The residual is the *value* g(X) the root finder is handed (with its parameters substituted); a test contributes a fact about a point v when
    one side of the comparison minus the other equals +-g(v) - however the probe is spelled.  Loops are executed on fresh symbols for the names
    they assign until the sign facts about those names are stable.  Iteration caps are not modelled: an exit that only a counter comparison (or the
    exhaustion of a `range`) guards is left out when the loop has another exit that carries a sign fact."""

    def __init__(self, W, rec, holder, entry_env):
        self.W, self.rec, self.holder = W, rec, holder
        self.g, self.Xname = rec["g"], rec["Xname"]
        self.culprits = {}
        self.observed = []
        self.frames = []
        self.fresh = 0
        self.counters = self._counter_names(holder)
        self.counter_syms = set()
        self.probes = {}         # id(call node) -> (node, result value, first argument value)
        self.ret_frames = []     # returns met while a helper's body is executed: [(state, value)]
        self.desugared = {}
        self.splits = 0
        self.rec_nodes = [rec["node"]]      # the brentq call and its copies in normalised statements
        self.normal = {}                    # id(statement) -> (statements it is executed as | None, names its comprehensions bind, statement)
        self.loop_floor = []     # number of join symbols made before the loops being executed were entered
        self.given = {a.arg for a in ast.walk(W.mod.tree) if isinstance(a, ast.arg)}       # parameter names: values handed in from outside
        self.entry = State(entry_env)

    def _counter_names(self, holder):
        """names that are only ever set to a constant, stepped by a constant (`k += 1`, `k = k + 1`, `k = 1 + k`: decided on the value) or bound
        by `for .. in range(..)`; a tuple assignment counts component by component"""
        ok, bad = set(), set()

        def one(target, value):
            if isinstance(target, (ast.Tuple, ast.List)):
                if isinstance(value, (ast.Tuple, ast.List)) and len(value.elts) == len(target.elts) \
                        and not any(isinstance(x, ast.Starred) for x in list(target.elts) + list(value.elts)):
                    for t, v in zip(target.elts, value.elts):
                        one(t, v)
                else:
                    bad.update(x.id for x in ast.walk(target) if isinstance(x, ast.Name))
                return
            if not isinstance(target, ast.Name):
                return
            nm = target.id
            try:
                v = Ev(self.W, env={nm: F.sym(nm)}).ev(value) if value is not None else None
                steps = rat(v) and not opaque_calls(v) and (v.is_const() or (v - F.sym(nm)).is_const())
            except Unsupported:
                steps = False
            (ok if steps else bad).add(nm)

        for n in walk_no_nested(holder):
            if isinstance(n, ast.Assign):
                for t in n.targets:
                    one(t, n.value)
            elif isinstance(n, ast.AnnAssign) and n.value is not None:
                one(n.target, n.value)
            elif isinstance(n, ast.NamedExpr):
                one(n.target, n.value)
            elif isinstance(n, ast.AugAssign) and isinstance(n.target, ast.Name):
                one(n.target, ast.BinOp(left=ast.Name(id=n.target.id, ctx=ast.Load()), op=n.op, right=n.value))
            elif isinstance(n, ast.For):
                is_range = isinstance(n.iter, ast.Call) and resolve(dotted(n.iter.func), self.W.tab) == "range"
                for x in ast.walk(n.target):
                    if isinstance(x, ast.Name):
                        (ok if is_range and isinstance(n.target, ast.Name) else bad).add(x.id)
        return ok - bad

    # ---- residual facts
    def at(self, v):
        return self.g.subs({self.Xname: v})

    def point_of(self, st, G):
        """G == +-g(v) for a value v the state knows -> (v, sign)"""
        cands = [v for v in st.env.values() if rat(v)] + [p[2] for p in self.probes.values() if rat(p[2])]
        seen = []
        for v in cands:
            if any(same(v, s) for s in seen):
                continue
            seen.append(v)
            try:
                gv = self.at(v)
            except Unsupported:
                continue
            if same(G, gv):
                return v, 1
            if same(G, -gv):
                return v, -1
        return None

    def is_counter_value(self, v):
        """a value that only counts passes: built from loop counters and from names no loop changes (a limit passed in as a parameter)"""
        if not rat(v) or any(d[0] == "fn" and not d[1].startswith(("cmp:", "bool:", "not")) for d in walk_atoms(v)):
            return False
        syms = symbols(v)
        floor = self.loop_floor[0] if self.loop_floor else self.fresh
        fixed = {x for x in syms if "@" not in x or ("@J" in x and int(x.rsplit("@J", 1)[1]) <= floor)}
        # what does not change must be something the function was handed (a parameter); an unbound name is not a limit
        return bool(syms & self.counter_syms) and (syms - fixed) <= self.counter_syms and {x for x in fixed if "@" not in x} <= self.given

    def assume(self, st, value, truth):
        """-> [(facts, counter_only)] one entry per alternative under which `value` has the truth value `truth`"""
        out = []
        for alt in literals(value, truth):
            if any((lit[0] == "other" and const_truth(lit[1]) is not None and const_truth(lit[1]) != lit[2])
                   or (lit[0] == "rel" and const_value(lit[1]) is not None and (const_value(lit[1]) > 0 if lit[2] == "le0" else const_value(lit[1]) < 0))
                   for lit in alt):
                continue          # this way of meeting the test asks a comparison of constants to come out the other way: it cannot happen
            facts, counter_only = [], True
            for lit in alt:
                if lit[0] == "rel":
                    m = self.point_of(st, lit[1])
                    if m is not None:
                        facts.append((m[0], lit[2] if m[1] > 0 else flip(lit[2])))
                        counter_only = False
                    elif not self.is_counter_value(lit[1]):
                        counter_only = False
                elif not self.is_counter_value(lit[1]):
                    counter_only = False
            out.append((facts, counter_only))
        return out

    def narrowed(self, st, alts, exit_only):
        if not alts:
            return None           # no way to get here
        s = st.copy()
        use = alts
        if exit_only:
            real = [a for a in alts if not a[1]]
            if real:
                use = real
            else:
                s.via_counter = True
        common = None
        for facts, _ in use:
            if common is None:
                common = list(facts)
            else:
                common = [f for f in common if any(f[1] == r and same(f[0], v) for v, r in facts)]
        for v, r in common or []:
            s.add(v, r)
        return s

    def decide(self, test, st):
        """three-valued truth of a test in a state: the rule's oracle, and tests for None decided on what the state knows about the value - a
        helper that returns `None` in place of a result it did not need to compute is told apart from the other ways it returns"""
        c = self.W.decide_base(test, self.ev(st))
        if c is not None:
            return c
        if isinstance(test, ast.UnaryOp) and isinstance(test.op, ast.Not):
            c = self.decide(test.operand, st)
            return None if c is None else (not c)
        if isinstance(test, ast.BoolOp):
            cs = [self.decide(v, st) for v in test.values]
            if isinstance(test.op, ast.And):
                return False if any(c is False for c in cs) else (True if all(c is True for c in cs) else None)
            return True if any(c is True for c in cs) else (False if all(c is False for c in cs) else None)
        if isinstance(test, ast.Compare) and len(test.ops) == 1 and isinstance(test.ops[0], (ast.Is, ast.IsNot, ast.Eq, ast.NotEq)):
            a, b = test.left, test.comparators[0]
            for x, y in ((a, b), (b, a)):
                if isinstance(y, ast.Constant) and y.value is None and not isinstance(x, ast.Constant):
                    v = self.value(st, x)
                    c = True if symname(v) == "None" else (False if st.has(v, "nn") else None)
                    if c is not None:
                        return c if isinstance(test.ops[0], (ast.Is, ast.Eq)) else (not c)
            if not any(isinstance(x, (ast.Call, ast.NamedExpr)) for x in ast.walk(test)):
                # `a == b` for two names that hold the same value here (a helper that returns (r, r) when no bracket is needed)
                va, vb = self.value(st, a), self.value(st, b)
                if same(va, vb) and not opaque_calls(va):
                    return isinstance(test.ops[0], (ast.Is, ast.Eq))
        return None

    # ---- evaluation of one statement / expression in a state
    def ev(self, st):
        e = Ev(self.W, env=st.env, fnode=self.holder)
        return e

    def noting(self, st, run):
        """run an evaluation; the symbols it used as operands of arithmetic are numbers in `st` from here on"""
        saved, self.W.numbers = self.W.numbers, {symname(x) for x, r in st.facts if r == "nn" and symname(x)}
        try:
            return run(), [nm for nm in sorted(self.W.numbers)]
        finally:
            self.W.numbers = saved

    def value(self, st, node):
        na = len(self.W.apps)
        v, noted = self.noting(st, lambda: self.ev(st).ev(node))
        for nm in noted:
            st.add(F.sym(nm), "nn")
        for name, pos, res, cn in self.W.apps[na:]:
            if name == self.rec["fname"] and cn is not None and pos:
                self.probes[id(cn)] = (cn, res, pos[0])
        return v

    # ---- control flow
    def join(self, states):
        states = [s for s in states if s is not None]
        if not states:
            return None
        if len(states) == 1:
            return states[0]
        out = State({})
        names = set()
        for s in states:
            names |= set(s.env)
        for nm in sorted(names):
            vals = [s.env.get(nm) for s in states]
            if all(v is vals[0] for v in vals):
                out.env[nm] = vals[0]
            elif any(not rat(v) for v in vals):
                out.env[nm] = Unknown(f"{nm}: differs between the paths that meet here")
            elif all(same(v, vals[0]) for v in vals):
                out.env[nm] = vals[0]
            else:
                self.fresh += 1
                phi = F.sym(f"{nm}@J{self.fresh}")
                out.env[nm] = phi
                for rel in FACTS:
                    have = [s.has(s.env[nm], rel) for s in states]
                    if all(have):
                        out.facts.append((phi, rel))
                    elif any(have) and rel in RELS:
                        for s, h in zip(states, have):
                            if not h:
                                self.culprits.setdefault(nm, set()).update(s.defs.get(nm, ()))
            ds = set()
            for s in states:
                ds |= set(s.defs.get(nm, ()))
            if ds:
                out.defs[nm] = frozenset(ds)
        for v, r in states[0].facts:
            if all(s.has(v, r) for s in states[1:]) and not out.has(v, r):
                out.facts.append((v, r))
        return out

    @staticmethod
    def _exit_only(body):
        return bool(body) and isinstance(body[-1], (ast.Break, ast.Return, ast.Raise)) and not any(isinstance(s, (ast.If, ast.While, ast.For)) for s in body)

    def block(self, stmts, st):
        for k, s in enumerate(stmts):
            if st is None:
                return None
            st = self.stmt(s, st)
            if isinstance(st, list):
                # the ways a helper returned are kept apart for the rest of this block: what it established goes with what it returned
                self.splits += 1
                try:
                    return self.join([self.block(stmts[k + 1:], x) for x in st])
                finally:
                    self.splits -= 1
        return st

    def cases(self, states):
        """keep the states apart (at most four such splits inside one another), or join them"""
        states = [x for x in states if x is not None]
        if len(states) <= 1 or self.splits >= 4:
            return self.join(states)
        return states

    def stmt(self, s, st):
        if isinstance(s, ast.If):
            c = self.decide(s.test, st)
            if c is True:
                return self.block(s.body, st)
            if c is False:
                return self.block(s.orelse, st)
            v = self.value(st, s.test)
            t = self.narrowed(st, self.assume(st, v, True), self._exit_only(s.body))
            f = self.narrowed(st, self.assume(st, v, False), self._exit_only(s.orelse))
            return self.join([self.block(s.body, t), self.block(s.orelse, f)])
        if isinstance(s, (ast.While, ast.For)):
            return self.loop(s, st)
        if isinstance(s, ast.Break):
            if self.frames:
                self.frames[-1]["breaks"].append(st)
            return None
        if isinstance(s, ast.Continue):
            if self.frames:
                self.frames[-1]["continues"].append(st)
            return None
        if isinstance(s, ast.Raise):
            return None
        if isinstance(s, ast.Match):
            conv = self.W.match_if(s)
            if conv is not None:
                return self.stmt(conv, st)
        if isinstance(s, ast.With):
            return self.block(s.body, st)
        if isinstance(s, ast.Try):
            return self.block(list(s.body) + list(s.orelse) + list(s.finalbody), st)
        if isinstance(s, (ast.Return, ast.Assign, ast.AnnAssign, ast.Expr)) and isinstance(s.value, ast.IfExp):
            # `x = A if T else B` is `if T: x = A` / `else: x = B`
            if id(s) not in self.desugared:
                arms = []
                for v in (s.value.body, s.value.orelse):
                    c = copy.copy(s)
                    c.value = v
                    arms.append(c)
                self.desugared[id(s)] = (ast.copy_location(ast.If(test=s.value.test, body=[arms[0]], orelse=[arms[1]]), s), s)
            return self.stmt(self.desugared[id(s)][0], st)
        norm = self.normalised(s, st)
        if norm is not None:
            stmts, bound = norm
            out = self.block(stmts, st)
            if out is not None and bound:
                out = out.copy()
                for nm in bound:            # a comprehension's variables are its own
                    if nm in st.env:
                        out.env[nm] = st.env[nm]
                    else:
                        out.env.pop(nm, None)
            return out
        if not isinstance(s, (ast.FunctionDef, ast.AsyncFunctionDef, ast.ClassDef)) and self.has_call(s):
            self.observe(s, st)
        if isinstance(s, ast.Return):
            if self.ret_frames and s.value is not None:
                out = self.through_helper(s, st)
                if out is not None:
                    # `return helper(...)`: the inner helper's states, seen from here (its local names are not this function's)
                    out = [(State(st.env, rs.facts, st.defs), v, None) for rs, v, _ in out]
                for rs, v, rn in (out if out is not None else [(st, self.value(st, s.value), s.value)]):
                    self.ret_frames[-1].append((rs, v, rn))
            elif self.ret_frames:
                self.ret_frames[-1].append((st, F.sym("None"), None))
            else:
                self.through_helper(s, st)          # `return helper(...)`: what happens inside is part of this execution
            return None
        out = self.through_helper(s, st)
        if out is not None:
            states = []
            for rs, v, rnode in out:
                e = self.ev(State(st.env))
                targets = s.targets if isinstance(s, ast.Assign) else [s.target] if isinstance(s, ast.AnnAssign) else []
                for t in targets:
                    e._assign(t, v, s)
                ns = State(e.env, rs.facts, st.defs)
                for nm in _assigned_names(s):
                    ns.defs[nm] = frozenset([s])
                for t in targets:
                    self._defs_through_return(t, rnode, rs, ns)
                states.append(ns)
            return self.cases(states)
        e = self.ev(st)
        na = len(self.W.apps)
        _, noted = self.noting(st, lambda: e.stmt(s))
        for name, pos, res, cn in self.W.apps[na:]:
            if name == self.rec["fname"] and cn is not None and pos:
                self.probes[id(cn)] = (cn, res, pos[0])
        out = State(e.env, st.facts, st.defs)
        for nm in noted:
            out.add(F.sym(nm), "nn")
        for nm in _assigned_names(s):
            out.defs[nm] = frozenset([s])
        if isinstance(s, (ast.FunctionDef, ast.AsyncFunctionDef)):
            out.defs[s.name] = frozenset([s])
        return out

    def _defs_through_return(self, target, rnode, rs, ns):
        """`x, y = helper()` with `return u, v` in the helper: the statements that define x are those that define u in the helper (where it has
        any: a parameter handed through has none), so that a bracket end is reported with the definition that lacks the test"""
        if isinstance(target, ast.Name) and isinstance(rnode, ast.Name):
            ds = rs.defs.get(rnode.id)
            if ds:
                ns.defs[target.id] = frozenset(ds)
                if rnode.id in self.culprits:
                    self.culprits.setdefault(target.id, set()).update(self.culprits[rnode.id])
        elif isinstance(target, (ast.Tuple, ast.List)) and isinstance(rnode, (ast.Tuple, ast.List)) and len(target.elts) == len(rnode.elts) \
                and not any(isinstance(x, ast.Starred) for x in list(target.elts) + list(rnode.elts)):
            for t, r_ in zip(target.elts, rnode.elts):
                self._defs_through_return(t, r_, rs, ns)

    def has_call(self, node):
        return any(x is r for x in ast.walk(node) for r in self.rec_nodes)

    def followable(self, call, e):
        """the function a call goes to when it is one this execution steps into: a function of the module (or a local one) with tests or loops of
        its own, or one that holds the root-finder call -> (name, (FunctionDef, defining evaluator)) else None"""
        nm = self.W.callee_name(call.func, e)
        f = self.W.function(nm)
        if f is None or nm == self.rec["fname"] or not isinstance(f[0], (ast.FunctionDef, ast.AsyncFunctionDef)) or f[0] is self.holder:
            return None
        if not any(isinstance(x, (ast.If, ast.While, ast.For, ast.Match, ast.IfExp)) for x in walk_no_nested(f[0])) and not self.has_call(f[0]):
            return None
        return nm, f

    def normalised(self, s, st):
        """a statement in which a helper that is stepped into is called somewhere inside an expression - as an argument of another call
        (`solve(*bracket(c, r, p), c, r, p)`), inside the element expression of a comprehension over the broadcast operands - is executed as the
        statements it abbreviates: each such call becomes the right-hand side of an assignment to a temporary, a comprehension first binds its
        variables to the generic element.  Sub-expressions that are evaluated conditionally or later (conditional expression, and / or, lambda)
        are left alone.  -> (statements, names bound by comprehensions) or None when the statement needs no rewriting"""
        if not isinstance(s, (ast.Assign, ast.AnnAssign, ast.AugAssign, ast.Return, ast.Expr)) or s.value is None:
            return None
        if id(s) in self.normal:
            return self.normal[id(s)][0]
        e = self.ev(st)
        pre, bound, n = [], [], [0]

        def temp(value):
            n[0] += 1
            nm = f"<t{s.lineno}.{s.col_offset}.{n[0]}>"
            pre.append(ast.fix_missing_locations(ast.copy_location(ast.Assign(targets=[ast.Name(id=nm, ctx=ast.Store())], value=value), s)))
            return ast.copy_location(ast.Name(id=nm, ctx=ast.Load()), value)

        def wanted(node):
            return any(isinstance(x, ast.Call) and self.followable(x, e) is not None for x in walk_no_nested(node)) \
                or (isinstance(node, ast.Call) and self.followable(node, e) is not None)

        def rebuild(node):
            changed, kw = False, {}
            for field, val in ast.iter_fields(node):
                if isinstance(val, ast.AST):
                    nv = lower(val)
                    changed = changed or nv is not val
                elif isinstance(val, list):
                    nv = [lower(x) if isinstance(x, ast.AST) else x for x in val]
                    changed = changed or any(a is not b for a, b in zip(nv, val))
                else:
                    nv = val
                kw[field] = nv
            if not changed:
                return node
            new = ast.copy_location(type(node)(**kw), node)
            if any(node is r for r in self.rec_nodes):
                self.rec_nodes.append(new)
            return new

        def lower(node, top=False):
            if isinstance(node, (ast.Lambda, ast.IfExp, ast.BoolOp, ast.DictComp, ast.SetComp)):
                return node
            if isinstance(node, (ast.ListComp, ast.GeneratorExp)):
                g = node.generators[0]
                if len(node.generators) != 1 or g.ifs or g.is_async or not (wanted(node.elt) or self.has_call(node.elt)):
                    return node
                it = lower(g.iter)
                target = copy.deepcopy(g.target)
                for x in ast.walk(target):
                    if isinstance(x, ast.Name):
                        bound.append(x.id)
                pick = ast.Call(func=ast.Name(id=ELEMENT, ctx=ast.Load()), args=[it], keywords=[])
                pre.append(ast.fix_missing_locations(ast.copy_location(ast.Assign(targets=[target], value=pick), s)))
                elt = lower(node.elt)
                if not isinstance(elt, ast.Name):
                    elt = temp(elt)
                gen = ast.comprehension(target=ast.Name(id="<_>", ctx=ast.Store()), iter=it, ifs=[], is_async=0)
                return ast.fix_missing_locations(ast.copy_location(type(node)(elt=elt, generators=[gen]), node))
            new = rebuild(node)
            if isinstance(new, ast.Call) and not top and self.followable(new, e) is not None:
                return temp(new)
            return new

        try:
            value = lower(s.value, top=True)
        except Unsupported:
            value = s.value
        if value is s.value or not pre:
            self.normal[id(s)] = (None, s)
            return None
        last = copy.copy(s)
        last.value = value
        self.normal[id(s)] = ((pre + [last], bound), s)
        return self.normal[id(s)][0]

    def through_helper(self, s, st):
        """`x = helper(...)` / `return helper(...)` where the helper is a function of the module (or a local one) with tests or loops of its own:
        the helper's body is executed abstractly too, so a bracket search that was moved into a helper establishes the same sign facts.
        -> [(state at a return of the helper, returned value, returned expression)] - the helper's summary for these argument values, one entry for
        every way it returns: the sign facts it established travel with the value it returned - or None when the statement is not of that form"""
        call = s.value if isinstance(s, (ast.Assign, ast.AnnAssign, ast.Return, ast.Expr)) else None
        if not isinstance(call, ast.Call) or len(self.ret_frames) >= 3:
            return None
        e = self.ev(st)
        hit = self.followable(call, e)
        if hit is None:
            return None
        nm, f = hit
        fnode = f[0]
        try:
            pos, kw = e.args(call)
        except Unsupported:
            return None
        env = self.W.bind(fnode, f[1], pos, kw, nm)
        if is_unknown(env):
            return None
        new = self._counter_names(fnode) - self.counters
        self.counters |= new
        saved = self.frames, self.holder
        self.frames, self.holder = [], fnode
        self.ret_frames.append([])
        try:
            end = self.block(fnode.body, State(env, st.facts, {}))
        finally:
            rets = self.ret_frames.pop()
            self.frames, self.holder = saved
            self.counters -= new
        if end is not None:
            rets.append((end, F.sym("None"), None))
        return rets

    def observe(self, s, st):
        call = next(x for x in ast.walk(s) if any(x is r for r in self.rec_nodes))
        e = self.ev(st)
        pos, kw = e.args(call)
        vals = place(pos, kw, BRENTQ_SIG)
        names = {}
        for k, nd in list(zip(BRENTQ_SIG, call.args)) + [(k_.arg, k_.value) for k_ in call.keywords]:
            names[k] = nd
        self.observed.append((st, vals.get("a"), vals.get("b"), names.get("a"), names.get("b")))

    def loop(self, s, st):
        if s.orelse:
            raise Unsupported("loop with an else clause")
        carried = sorted(_assigned_names(s))
        tag = f"L{s.lineno}"
        for nm in carried:
            if nm in self.counters:
                self.counter_syms.add(f"{nm}@{tag}")
        always = isinstance(s, ast.While) and isinstance(s.test, ast.Constant) and bool(s.test.value)

        def holds(e, t, x, sg):
            a, b = e.env.get(t), e.env.get(x)
            if not rat(a) or not rat(b):
                return False
            try:
                return same(a, self.at(b) if sg > 0 else -self.at(b))
            except Unsupported:
                return False

        # a carried name that holds the residual at another carried name (fb = f(b), kept up to date by the body) stays tied to it
        REL = {(t, x, sg) for t in carried for x in carried if t != x for sg in (1, -1) if holds(st, t, x, sg)}

        def one_pass(NF, rel_, head_defs):
            head = st.copy()
            for nm in carried:
                head.env[nm] = F.sym(f"{nm}@{tag}")
                if head_defs.get(nm):
                    head.defs[nm] = frozenset(head_defs[nm])
            for t, x, sg in sorted(rel_):
                head.env[t] = self.at(head.env[x]) if sg > 0 else -self.at(head.env[x])
            for nm, rel in NF:
                head.add(head.env[nm], rel)
            frame = {"breaks": [], "continues": []}
            self.frames.append(frame)
            exits = []
            try:
                if isinstance(s, ast.While) and not always:
                    v = self.value(head, s.test)
                    body0 = self.narrowed(head, self.assume(head, v, True), False)
                    exits.append(self.narrowed(head, self.assume(head, v, False), True))
                else:
                    body0 = head
                    if isinstance(s, ast.For):
                        ex = head.copy()
                        ex.via_counter = True       # the iterable is used up
                        exits.append(ex)
                        it = self.value(head, s.iter)
                        el = element(it) if rat(it) else None
                        if el is not None:
                            # a loop over the broadcast operands: the loop variables are the generic element, as in a comprehension
                            e = self.ev(head)
                            e._assign(s.target, el, s)
                            body0 = State(e.env, head.facts, head.defs)
                end = self.block(s.body, body0)
            finally:
                self.frames.pop()
            back = [e for e in [end] + frame["continues"] if e is not None]
            return [e for e in exits + frame["breaks"] if e is not None], back

        def fixpoint(NF, blame):
            head_defs = {nm: set(st.defs.get(nm, ())) for nm in carried}
            rel_ = set(REL)
            for _ in range(12):
                nobs = len(self.observed)
                exits, back = one_pass(NF, rel_, head_defs)
                keep = set()
                for nm, rel in NF:
                    lacking = [e for e in back if not e.has(e.env.get(nm), rel)]
                    if not lacking:
                        keep.add((nm, rel))
                    elif blame and rel in RELS:
                        for e in lacking:
                            self.culprits.setdefault(nm, set()).update(e.defs.get(nm, ()))
                keep_rel = {k for k in rel_ if all(holds(e, *k) for e in back)}
                nd = {nm: set(head_defs[nm]) for nm in carried}
                for e in back:
                    for nm in carried:
                        nd[nm] |= set(e.defs.get(nm, ()))
                if keep == NF and nd == head_defs and keep_rel == rel_:
                    return NF, exits
                del self.observed[nobs:]
                NF, head_defs, rel_ = keep, nd, keep_rel
            raise Unsupported("loop facts do not stabilise")

        self.loop_floor.append(self.fresh)
        try:
            return self._loop_facts(s, st, carried, fixpoint)
        finally:
            self.loop_floor.pop()

    def _loop_facts(self, s, st, carried, fixpoint):
        entry = {(nm, rel) for nm in carried for rel in FACTS if st.has(st.env.get(nm), rel)}
        # what the loop body alone would maintain: a fact of that set which the entry lacks is lost because of the definitions reaching the loop
        nobs = len(self.observed)
        saved = {k: set(v) for k, v in self.culprits.items()}
        optimistic, _ = fixpoint({(nm, rel) for nm in carried for rel in FACTS}, False)
        del self.observed[nobs:]
        self.culprits = saved
        for nm, rel in optimistic - entry:
            if rel in RELS:
                self.culprits.setdefault(nm, set()).update(st.defs.get(nm, ()))
        NF, exits = fixpoint(entry, True)
        real = [e for e in exits if not e.via_counter]
        out = self.join(real or exits)
        if out is not None:
            out.via_counter = False
        return out

    def run(self):
        self.block(self.holder.body, self.entry)
        return self


def const_value(v):
    if rat(v) and v.is_const():
        return Fraction(v.const_value())
    return None
