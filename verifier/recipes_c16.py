"""C16 self-test recipes (same tuple format as selftest.RECIPES): breaks for the value/effect obligations and neutral refactorings the rules
must stay silent on."""
U = "pyyeti/cla/_utilities.py"
R = "pyyeti/cla/dr_results.py"
E = "pyyeti/cla/dr_event.py"

RECIPES = [
    # ---- aliasing on the first case of extrema (effect rule i)
    ("C16", "break", ["C16-R1"], U, "        curext.ext = mm.ext.copy()\n        curext.ext_x = copy.copy(mm.ext_x)",
     "        curext.ext = mm.ext.copy()\n        curext.ext_x = mm.ext_x", "first-case abscissa table aliases the contributor's (seed C)"),
    ("C16", "break", ["C16-R1"], U, "        curext.ext = mm.ext.copy()\n", "        curext.ext = mm.ext\n", "first-case value table aliases the contributor's"),
    ("C16", "break", ["C16-R1"], U, "            curext.mincase = maxcase[:]\n", "            curext.mincase = maxcase\n",
     "one-column first case: mincase and maxcase are one list"),
    ("C16", "break", ["C16-R1"], U, "    else:\n        maxcase = maxcase[:]\n", "    else:\n        maxcase = maxcase\n", "caller's label list stored"),
    ("C16", "break", ["C16-R1"], U, "                curext.ext_x = copy.copy(mm.ext_x)\n", "                curext.ext_x = mm.ext_x\n",
     "_put_time: abscissa table created later aliases the contributor's"),
    # ---- roles
    ("C16", "break", ["C16-R1"], U, "            curext.mincase[i] = mincase[i]\n", "            curext.mincase[i] = maxcase[i]\n", "two-column min label from maxcase"),
    ("C16", "break", ["C16-R1"], U, "        curext.mn[:, casenum] = mm.ext[:, 1]\n", "        curext.mn[:, casenum] = mm.ext[:, 0]\n", "per-case min from max column"),
    ("C16", "break", ["C16-R1"], U, "    j = nan_argmin(curext.ext[:, 1], mm.ext[:, 1]).nonzero()[0]", "    j = nan_argmax(curext.ext[:, 1], mm.ext[:, 1]).nonzero()[0]",
     "min column updated through nan_argmax"),
    ("C16", "break", ["C16-R1"], R, "            mm.ext[:, 1] = -mm.ext[:, 0]\n", "            mm.ext[:, 1] = mm.ext[:, 0]\n", "frf min column not negated"),
    # ---- R2
    ("C16", "break", ["C16-R2"], U, "    jx = np.nanargmax(response, axis=1)\n", "    jx = np.argmax(response, axis=1)\n", "position not NaN-aware (seed D)"),
    ("C16", "break", ["C16-R2"], U, "    mn = response[ind, jn]\n", "    mn = response[ind, jx]\n", "min value read at the max position"),
    ("C16", "break", ["C16-R2"], U, "    amx[pv] = v2[pv]\n", "    amx[pv] = abs(v2[pv])\n", "nan_absmax loses the sign"),
    # ---- R3
    ("C16", "break", ["C16-R3"], R,
     "            first = res.ext is None\n            dr = DR.Info[name]  # record with: .desc, .labels, ...\n            uf_reds = dr.uf_reds\n            SOL = sol[uf_reds]\n"
     "            drfunc = get_drfunc(dr.drfile, dr.drfunc)\n            resp = drfunc(SOL, nas, DR.Vars, dr.se)\n\n            mm = maxmin(resp, SOL.t)\n            extrema(res, mm, case)\n",
     "            dr = DR.Info[name]  # record with: .desc, .labels, ...\n            uf_reds = dr.uf_reds\n            SOL = sol[uf_reds]\n"
     "            drfunc = get_drfunc(dr.drfile, dr.drfunc)\n            resp = drfunc(SOL, nas, DR.Vars, dr.se)\n\n            mm = maxmin(resp, SOL.t)\n            extrema(res, mm, case)\n"
     "            first = res.ext is None\n", "`first` read after extrema()"),
    ("C16", "break", ["C16-R3"], R, "                res.srs.ext[q] = np.fmax(res.srs.ext[q], srs_cur)", "                res.srs.ext[q] = np.fmin(res.srs.ext[q], srs_cur)", "envelope is a minimum"),
    # ---- effects of _pre_calcs / apply_uf (effect rule ii)
    ("C16", "break", ["C16-R4"], E, "            save[\"lup_elastic\"] = la.lu_factor(kee, check_finite=False)",
     "            save[\"lup_elastic\"] = la.lu_factor(kee, overwrite_a=True, check_finite=False)", "LU overwrites a view of the caller's k (seed E)"),
    ("C16", "break", ["C16-R4"], E, "    if avterm.base is not None:\n        # ensure copy, not view:\n        avterm = avterm.copy()\n", "", "avterm stays a view of genforce"),
    ("C16", "break", ["C16-R4"], E, "    avterm = (euf * duf) * save[\"avterm\"]\n", "    avterm = save[\"avterm\"]\n    avterm *= euf * duf\n", "cache entry scaled in place"),
    ("C16", "break", ["C16-R4"], E, "            solout[item] = copy.deepcopy(sol)\n", "            solout[item] = copy.copy(sol)\n", "frf_apply_uf scales the caller's arrays"),
    ("C16", "break", ["C16-R4"], E, "        genforce[elastic_norb] += kee @ sol.d[elastic]\n", "        kee *= 2.0\n        genforce[elastic_norb] += kee @ sol.d[elastic]\n",
     "in-place operator on a view of k"),
    # ---- R5 / R6
    ("C16", "break", ["C16-R5"], E, "    genforce[elastic_norb] += b[ee] @ sol.v[elastic]", "    genforce[elastic_norb] += b[ee] @ sol.d[elastic]", "damping term uses d"),
    ("C16", "break", ["C16-R5"], E, "            SOL.d[nrb:] *= euf * duf\n", "            SOL.d[nrb:] *= euf * suf\n", "frf elastic displacement factor"),
    ("C16", "break", ["C16-R6"], E, "        solout.d_static[rfmodes] = la.lu_solve(lup, gf[save[\"rf_norb\"]])", "        solout.d_static[rfmodes] = la.lu_solve(lup, gf[save[\"elastic_norb\"]])",
     "rf block solved with the elastic rows"),
    ("C16", "break", ["C16-R6"], E, "        rf_norb = rfmodes - nrb\n", "        rf_norb = rfmodes\n", "rf positions not made relative to the non-rb rows"),
    # ---- neutral
    ("C16", "neutral", [], U, "    j = nan_argmax(curext.ext[:, 0], mm.ext[:, 0]).nonzero()[0]", "    j = np.nonzero(nan_argmax(curext.ext[:, 0], mm.ext[:, 0]))[0]", "np.nonzero spelling"),
    ("C16", "neutral", [], U, "        curext.ext = mm.ext.copy()\n        curext.ext_x = copy.copy(mm.ext_x)",
     "        curext.ext = np.array(mm.ext)\n        curext.ext_x = None if mm.ext_x is None else mm.ext_x.copy()", "other spellings of a fresh copy"),
    ("C16", "neutral", [], U, "        return (v2 < v1) | (np.isnan(v1) & ~np.isnan(v2))", "        return (~np.isnan(v2) & np.isnan(v1)) | (v1 > v2)", "commuted mask, flipped comparison"),
    ("C16", "neutral", [], E, "            krr = k[np.ix_(rfmodes, rfmodes)]\n", "            krr = k[rfmodes][:, rfmodes]\n", "fancy-indexed copy in two steps"),
    ("C16", "neutral", [], E, "    ruf, euf, duf, suf = uf_reds\n\n    solout", "    ruf = uf_reds[0]\n    euf = uf_reds[1]\n    suf = uf_reds[3]\n    duf = uf_reds[2]\n\n    solout", "factors by index"),
    ("C16", "neutral", [], E, "        kel = k[nrb:, None]\n        solout.d_static[nrb:] = gf / kel\n        solout.d_dynamic[elastic] = -avterm / kel[elastic_norb]",
     "        knr = k[nrb:]\n        solout.d_static[nrb:] = gf / knr[:, None]\n        solout.d_dynamic[elastic] = -avterm / knr[elastic_norb][:, None]", "column vector made later"),
    ("C16", "neutral", [], R, "                res.srs.ext[q] = np.fmax(res.srs.ext[q], srs_cur)", "                res.srs.ext[q] = np.fmax(srs_cur, res.srs.ext[q])", "commuted fmax"),
    ("C16", "neutral", [], E, "        kee = k[ee]\n", "        kee = k[ee]\n        kcopy = kee.copy()\n        kcopy *= 1.0\n", "in-place operator on a private copy"),
    ("C16", "neutral", [], E, "    solout.a = solout.a.copy()\n    solout.v = solout.v.copy()\n", "    solout.a = np.array(sol.a)\n    solout.v = np.array(sol.v)\n", "copy through np.array"),
    ("C16", "neutral", [], E, "    if nrb > 0:\n        solout.a[:nrb] *= ruf * suf\n", "    if nrb:\n        np.multiply(solout.a[:nrb], ruf * suf, out=solout.a[:nrb])\n", "truthiness of a count; ufunc with out= on the private copy"),
    ("C16", "neutral", [], E, "    if nrb == k.shape[0]:\n", "    if k.shape[0] <= nrb:\n", "other spelling of the all-rigid-body test"),
    ("C16", "neutral", [], E, "    solout = SimpleNamespace(**vars(sol))\n", "    solout = copy.copy(sol)\n", "shallow copy of the namespace"),
    ("C16", "neutral", [], U, "            curext.ext = mm.ext @ [[1, 1]]\n", "            curext.ext = np.hstack((mm.ext, mm.ext))\n", "both columns by stacking"),
    ("C16", "neutral", [], U,
     "    j = nan_argmax(curext.ext[:, 0], mm.ext[:, 0]).nonzero()[0]\n    if j.size > 0:\n        for i in j:\n            curext.maxcase[i] = maxcase[i]\n        curext.ext[j, 0] = mm.ext[j, 0]\n        _put_time(curext, mm, j, 0, 0)\n\n    j = nan_argmin(curext.ext[:, 1], mm.ext[:, 1]).nonzero()[0]\n    if j.size > 0:\n        for i in j:\n            curext.mincase[i] = mincase[i]\n        curext.ext[j, 1] = mm.ext[j, 1]\n        _put_time(curext, mm, j, 1, 1)\n",
     "    jx = nan_argmax(curext.ext[:, 0], mm.ext[:, 0]).nonzero()[0]\n    jn = nan_argmin(curext.ext[:, 1], mm.ext[:, 1]).nonzero()[0]\n    for i in jx:\n        curext.maxcase[i] = maxcase[i]\n    for i in jn:\n        curext.mincase[i] = mincase[i]\n    curext.ext[jx, 0] = mm.ext[jx, 0]\n    curext.ext[jn, 1] = mm.ext[jn, 1]\n    if jx.size > 0:\n        _put_time(curext, mm, jx, 0, 0)\n    if jn.size > 0:\n        _put_time(curext, mm, jn, 1, 1)\n",
     "both selectors first, then the replacements"),
    ("C16", "neutral", [], U, "        ext=np.column_stack((mx, mn)), ext_x=np.column_stack((x[jx], x[jn]))", "        ext=np.vstack((mx, mn)).T, ext_x=np.stack((x[jx], x[jn]), axis=1)", "other ways to build the two-column tables"),
    ("C16", "break", ["C16-R4"], E, "    solout = SimpleNamespace(**vars(sol))\n", "    solout = sol\n", "the caller's namespace is modified"),
    ("C16", "break", ["C16-R6"], E, "    genforce = np.empty((n - nrb, sol.a.shape[1]), sol.a.dtype)", "    genforce = np.empty((n - nrb, sol.a.shape[0]), sol.a.dtype)", "genforce columns"),
    ("C16", "break", ["C16-R6"], E, "    elif m.ndim == 1:\n", "    elif m.ndim == 2:\n", "vector / matrix arms of the mass term swapped"),
    ("C16", "break", ["C16-R5"], E, "    if (lup := save[\"lup_elastic\"]) is not None:", "    if (lup := save[\"lup_elastic\"]) is None:", "solve only when there is no factorisation"),
    ("C16", "break", ["C16-R1"], U, "            curext.mx[:, casenum] = mm.ext[:, 0]\n            curext.mn[:, casenum] = mm.ext[:, 0]\n", "            curext.mn[:, casenum] = mm.ext[:, 0]\n", "per-case max not recorded"),
    ("C16", "break", ["C16-R2"], U, "    ind = np.arange(r)\n", "", "name read that is never bound"),
]
