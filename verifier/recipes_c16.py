"""C16 self-test recipes (same tuple format as selftest.RECIPES): breaks for the value/effect obligations and neutral refactorings the rules
must stay silent on."""
U = "pyyeti/cla/_utilities.py"
R = "pyyeti/cla/dr_results.py"
E = "pyyeti/cla/dr_event.py"

RECIPES = [
    # ---- aliasing on the first case of extrema (effect rule i)
    ("C16", "break", ["C16-R1"], U, "        curext.ext = mm.ext.copy()\n        curext.ext_x = copy.copy(mm.ext_x)",
     "        curext.ext = mm.ext.copy()\n        curext.ext_x = mm.ext_x", "first-case abscissa table aliases the contributor's (seed C)"),
    ("C16", "break", ["C16-R1"], U, "        curext.ext = mm.ext.copy()\n", "        curext.ext = mm.ext\n", "first-case value table aliases the contributor's"),
    ("C16", "break", ["C16-R1"], U, "            curext.mincase = maxcase[:]\n", "            curext.mincase = maxcase\n",
     "one-column first case: mincase and maxcase are one list"),
    ("C16", "break", ["C16-R1"], U, "    else:\n        maxcase = maxcase[:]\n", "    else:\n        maxcase = maxcase\n", "caller's label list stored"),
    ("C16", "break", ["C16-R1"], U, "                curext.ext_x = copy.copy(mm.ext_x)\n", "                curext.ext_x = mm.ext_x\n",
     "_put_time: abscissa table created later aliases the contributor's"),
    # ---- roles
    ("C16", "break", ["C16-R1"], U, "            curext.mincase[i] = mincase[i]\n", "            curext.mincase[i] = maxcase[i]\n", "two-column min label from maxcase"),
    ("C16", "break", ["C16-R1"], U, "        curext.mn[:, casenum] = mm.ext[:, 1]\n", "        curext.mn[:, casenum] = mm.ext[:, 0]\n", "per-case min from max column"),
    ("C16", "break", ["C16-R1"], U, "    j = nan_argmin(curext.ext[:, 1], mm.ext[:, 1]).nonzero()[0]", "    j = nan_argmax(curext.ext[:, 1], mm.ext[:, 1]).nonzero()[0]",
     "min column updated through nan_argmax"),
    ("C16", "break", ["C16-R1"], R, "            mm.ext[:, 1] = -mm.ext[:, 0]\n", "            mm.ext[:, 1] = mm.ext[:, 0]\n", "frf min column not negated"),
    # ---- R2
    ("C16", "break", ["C16-R2"], U, "    jx = np.nanargmax(response, axis=1)\n", "    jx = np.argmax(response, axis=1)\n", "position not NaN-aware (seed D)"),
    ("C16", "break", ["C16-R2"], U, "    mn = response[ind, jn]\n", "    mn = response[ind, jx]\n", "min value read at the max position"),
    ("C16", "break", ["C16-R2"], U, "    amx[pv] = v2[pv]\n", "    amx[pv] = abs(v2[pv])\n", "nan_absmax loses the sign"),
    # ---- R3
    ("C16", "break", ["C16-R3"], R,
     "            first = res.ext is None\n            dr = DR.Info[name]  # record with: .desc, .labels, ...\n            uf_reds = dr.uf_reds\n            SOL = sol[uf_reds]\n"
     "            drfunc = get_drfunc(dr.drfile, dr.drfunc)\n            resp = drfunc(SOL, nas, DR.Vars, dr.se)\n\n            mm = maxmin(resp, SOL.t)\n            extrema(res, mm, case)\n",
     "            dr = DR.Info[name]  # record with: .desc, .labels, ...\n            uf_reds = dr.uf_reds\n            SOL = sol[uf_reds]\n"
     "            drfunc = get_drfunc(dr.drfile, dr.drfunc)\n            resp = drfunc(SOL, nas, DR.Vars, dr.se)\n\n            mm = maxmin(resp, SOL.t)\n            extrema(res, mm, case)\n"
     "            first = res.ext is None\n", "`first` read after extrema()"),
    ("C16", "break", ["C16-R3"], R, "                res.srs.ext[q] = np.fmax(res.srs.ext[q], srs_cur)", "                res.srs.ext[q] = np.fmin(res.srs.ext[q], srs_cur)", "envelope is a minimum"),
    # ---- effects of _pre_calcs / apply_uf (effect rule ii)
    ("C16", "break", ["C16-R4"], E, "            save[\"lup_elastic\"] = la.lu_factor(kee, check_finite=False)",
     "            save[\"lup_elastic\"] = la.lu_factor(kee, overwrite_a=True, check_finite=False)", "LU overwrites a view of the caller's k (seed E)"),
    ("C16", "break", ["C16-R4"], E, "    if avterm.base is not None:\n        # ensure copy, not view:\n        avterm = avterm.copy()\n", "", "avterm stays a view of genforce"),
    ("C16", "break", ["C16-R4"], E, "    avterm = (euf * duf) * save[\"avterm\"]\n", "    avterm = save[\"avterm\"]\n    avterm *= euf * duf\n", "cache entry scaled in place"),
    ("C16", "break", ["C16-R4"], E, "            solout[item] = copy.deepcopy(sol)\n", "            solout[item] = copy.copy(sol)\n", "frf_apply_uf scales the caller's arrays"),
    ("C16", "break", ["C16-R4"], E, "        genforce[elastic_norb] += kee @ sol.d[elastic]\n", "        kee *= 2.0\n        genforce[elastic_norb] += kee @ sol.d[elastic]\n",
     "in-place operator on a view of k"),
    # ---- R5 / R6
    ("C16", "break", ["C16-R5"], E, "    genforce[elastic_norb] += b[ee] @ sol.v[elastic]", "    genforce[elastic_norb] += b[ee] @ sol.d[elastic]", "damping term uses d"),
    ("C16", "break", ["C16-R5"], E, "            SOL.d[nrb:] *= euf * duf\n", "            SOL.d[nrb:] *= euf * suf\n", "frf elastic displacement factor"),
    ("C16", "break", ["C16-R6"], E, "        solout.d_static[rfmodes] = la.lu_solve(lup, gf[save[\"rf_norb\"]])", "        solout.d_static[rfmodes] = la.lu_solve(lup, gf[save[\"elastic_norb\"]])",
     "rf block solved with the elastic rows"),
    ("C16", "break", ["C16-R6"], E, "        rf_norb = rfmodes - nrb\n", "        rf_norb = rfmodes\n", "rf positions not made relative to the non-rb rows"),
    # ---- neutral
    ("C16", "neutral", [], U, "    j = nan_argmax(curext.ext[:, 0], mm.ext[:, 0]).nonzero()[0]", "    j = np.nonzero(nan_argmax(curext.ext[:, 0], mm.ext[:, 0]))[0]", "np.nonzero spelling"),
    ("C16", "neutral", [], U, "        curext.ext = mm.ext.copy()\n        curext.ext_x = copy.copy(mm.ext_x)",
     "        curext.ext = np.array(mm.ext)\n        curext.ext_x = None if mm.ext_x is None else mm.ext_x.copy()", "other spellings of a fresh copy"),
    ("C16", "neutral", [], U, "        return (v2 < v1) | (np.isnan(v1) & ~np.isnan(v2))", "        return (~np.isnan(v2) & np.isnan(v1)) | (v1 > v2)", "commuted mask, flipped comparison"),
    ("C16", "neutral", [], E, "            krr = k[np.ix_(rfmodes, rfmodes)]\n", "            krr = k[rfmodes][:, rfmodes]\n", "fancy-indexed copy in two steps"),
    ("C16", "neutral", [], E, "    ruf, euf, duf, suf = uf_reds\n\n    solout", "    ruf = uf_reds[0]\n    euf = uf_reds[1]\n    suf = uf_reds[3]\n    duf = uf_reds[2]\n\n    solout", "factors by index"),
    ("C16", "neutral", [], E, "        kel = k[nrb:, None]\n        solout.d_static[nrb:] = gf / kel\n        solout.d_dynamic[elastic] = -avterm / kel[elastic_norb]",
     "        knr = k[nrb:]\n        solout.d_static[nrb:] = gf / knr[:, None]\n        solout.d_dynamic[elastic] = -avterm / knr[elastic_norb][:, None]", "column vector made later"),
    ("C16", "neutral", [], R, "                res.srs.ext[q] = np.fmax(res.srs.ext[q], srs_cur)", "                res.srs.ext[q] = np.fmax(srs_cur, res.srs.ext[q])", "commuted fmax"),
    ("C16", "neutral", [], E, "        kee = k[ee]\n", "        kee = k[ee]\n        kcopy = kee.copy()\n        kcopy *= 1.0\n", "in-place operator on a private copy"),
    ("C16", "neutral", [], E, "    solout.a = solout.a.copy()\n    solout.v = solout.v.copy()\n", "    solout.a = np.array(sol.a)\n    solout.v = np.array(sol.v)\n", "copy through np.array"),
    ("C16", "neutral", [], E, "    if nrb > 0:\n        solout.a[:nrb] *= ruf * suf\n", "    if nrb:\n        np.multiply(solout.a[:nrb], ruf * suf, out=solout.a[:nrb])\n", "truthiness of a count; ufunc with out= on the private copy"),
    ("C16", "neutral", [], E, "    if nrb == k.shape[0]:\n", "    if k.shape[0] <= nrb:\n", "other spelling of the all-rigid-body test"),
    ("C16", "neutral", [], E, "    solout = SimpleNamespace(**vars(sol))\n", "    solout = copy.copy(sol)\n", "shallow copy of the namespace"),
    ("C16", "neutral", [], U, "            curext.ext = mm.ext @ [[1, 1]]\n", "            curext.ext = np.hstack((mm.ext, mm.ext))\n", "both columns by stacking"),
    ("C16", "neutral", [], U,
     "    j = nan_argmax(curext.ext[:, 0], mm.ext[:, 0]).nonzero()[0]\n    if j.size > 0:\n        for i in j:\n            curext.maxcase[i] = maxcase[i]\n        curext.ext[j, 0] = mm.ext[j, 0]\n        _put_time(curext, mm, j, 0, 0)\n\n    j = nan_argmin(curext.ext[:, 1], mm.ext[:, 1]).nonzero()[0]\n    if j.size > 0:\n        for i in j:\n            curext.mincase[i] = mincase[i]\n        curext.ext[j, 1] = mm.ext[j, 1]\n        _put_time(curext, mm, j, 1, 1)\n",
     "    jx = nan_argmax(curext.ext[:, 0], mm.ext[:, 0]).nonzero()[0]\n    jn = nan_argmin(curext.ext[:, 1], mm.ext[:, 1]).nonzero()[0]\n    for i in jx:\n        curext.maxcase[i] = maxcase[i]\n    for i in jn:\n        curext.mincase[i] = mincase[i]\n    curext.ext[jx, 0] = mm.ext[jx, 0]\n    curext.ext[jn, 1] = mm.ext[jn, 1]\n    if jx.size > 0:\n        _put_time(curext, mm, jx, 0, 0)\n    if jn.size > 0:\n        _put_time(curext, mm, jn, 1, 1)\n",
     "both selectors first, then the replacements"),
    ("C16", "neutral", [], U, "        ext=np.column_stack((mx, mn)), ext_x=np.column_stack((x[jx], x[jn]))", "        ext=np.vstack((mx, mn)).T, ext_x=np.stack((x[jx], x[jn]), axis=1)", "other ways to build the two-column tables"),
    ("C16", "break", ["C16-R4"], E, "    solout = SimpleNamespace(**vars(sol))\n", "    solout = sol\n", "the caller's namespace is modified"),
    ("C16", "break", ["C16-R6"], E, "    genforce = np.empty((n - nrb, sol.a.shape[1]), sol.a.dtype)", "    genforce = np.empty((n - nrb, sol.a.shape[0]), sol.a.dtype)", "genforce columns"),
    ("C16", "break", ["C16-R6"], E, "    elif m.ndim == 1:\n", "    elif m.ndim == 2:\n", "vector / matrix arms of the mass term swapped"),
    ("C16", "break", ["C16-R5"], E, "    if (lup := save[\"lup_elastic\"]) is not None:", "    if (lup := save[\"lup_elastic\"]) is None:", "solve only when there is no factorisation"),
    ("C16", "break", ["C16-R1"], U, "            curext.mx[:, casenum] = mm.ext[:, 0]\n            curext.mn[:, casenum] = mm.ext[:, 0]\n", "            curext.mn[:, casenum] = mm.ext[:, 0]\n", "per-case max not recorded"),
    ("C16", "break", ["C16-R2"], U, "    ind = np.arange(r)\n", "", "name read that is never bound"),
    # ---- second hardening pass: masks by truth table, helpers on views, function values, literal tables
    ("C16", "break", ["C16-R2"], U, "        return (v2 > v1) | (np.isnan(v1) & ~np.isnan(v2))", "        return ~(v2 <= v1) | (np.isnan(v1) & ~np.isnan(v2))",
     "`not <=` is not `>` when v2 is NaN"),
    ("C16", "break", ["C16-R2"], U, "        return (v2 < v1) | (np.isnan(v1) & ~np.isnan(v2))", "        return (v2 < v1) | ~(np.isnan(v2) | np.isnan(v1))",
     "wrong De Morgan form of the NaN rule"),
    ("C16", "break", ["C16-R2"], U, "    pv = nan_argmax(abs(v1), abs(v2))\n", "    pv = nan_argmax(abs(v2), abs(v1))\n", "nan_absmax compares the wrong way round"),
    ("C16", "break", ["C16-R1"], R, "            mm.ext[:, 1] = -mm.ext[:, 0]\n", "            mm.ext[:, 1] = -mm.ext[:, 0]\n            mm.ext[:, 1] *= -1\n",
     "frf min column negated twice"),
    ("C16", "break", ["C16-R1"], U, "    j = nan_argmin(curext.ext[:, 1], mm.ext[:, 1]).nonzero()[0]",
     "    j = ((mm.ext[:, 1] < curext.ext[:, 1]) | (np.isnan(mm.ext[:, 1]) & ~np.isnan(curext.ext[:, 1]))).nonzero()[0]",
     "inlined min selector with the NaN rule the wrong way round"),
    ("C16", "neutral", [], U, "        return (v2 < v1) | (np.isnan(v1) & ~np.isnan(v2))", "        return (v1 > v2) | ~(np.isnan(v2) | ~np.isnan(v1))",
     "De Morgan / flipped comparison (N6)"),
    ("C16", "neutral", [], U, "        return (v2 < v1) | (np.isnan(v1) & ~np.isnan(v2))", "        return np.where(v1 != v1, v2 == v2, np.less(v2, v1))",
     "np.where, x != x for isnan"),
    ("C16", "neutral", [], U, "def nan_argmax(v1, v2):",
     "import operator\n\n\ndef _nan_compare(v1, v2, compare):\n    with np.errstate(invalid=\"ignore\"):\n        return compare(v2, v1) | (np.isnan(v1) & ~np.isnan(v2))\n\n\n"
     "def nan_argmax(v1, v2):\n    return _nan_compare(v1, v2, operator.gt)\n\n\ndef _nan_argmax_old(v1, v2):",
     "comparison passed as a function (N8)"),
    ("C16", "neutral", [], U, "    amx = v1.copy()\n    pv = nan_argmax(abs(v1), abs(v2))\n    amx[pv] = v2[pv]\n    return amx, pv\n",
     "    a1, a2 = map(abs, (v1, v2))\n    with np.errstate(invalid=\"ignore\"):\n        pv = (a2 > a1) | ~(~np.isnan(a1) | np.isnan(a2))\n    return np.where(pv, v2, v1), pv\n",
     "nan_argmax inlined into nan_absmax, np.where for copy-and-store"),
    ("C16", "neutral", [], U,
     "    j = nan_argmax(curext.ext[:, 0], mm.ext[:, 0]).nonzero()[0]\n    if j.size > 0:\n        for i in j:\n            curext.maxcase[i] = maxcase[i]\n        curext.ext[j, 0] = mm.ext[j, 0]\n        _put_time(curext, mm, j, 0, 0)\n",
     "    pv = nan_argmax(curext.ext[:, 0], mm.ext[:, 0])\n    if pv.any():\n        for i in np.flatnonzero(pv):\n            curext.maxcase[i] = maxcase[i]\n        col = curext.ext[:, 0]\n        col[pv] = mm.ext[:, 0][pv]\n        _put_time(curext, mm, pv, 0, 0)\n",
     "boolean mask used directly, store through a column view"),
    ("C16", "neutral", [], U,
     "    j = nan_argmin(curext.ext[:, 1], mm.ext[:, 1]).nonzero()[0]\n    if j.size > 0:\n        for i in j:\n            curext.mincase[i] = mincase[i]\n        curext.ext[j, 1] = mm.ext[j, 1]\n        _put_time(curext, mm, j, 1, 1)\n",
     "    for col, pick, labels, new in ((1, nan_argmin, curext.mincase, mincase),):\n        (j,) = np.nonzero(pick(curext.ext[:, col], mm.ext[:, col]))\n        if len(j) == 0:\n            continue\n"
     "        for i in j:\n            labels[i] = new[i]\n        curext.ext[j, col] = mm.ext[j, col]\n        _put_time(curext, mm, j, col, col)\n",
     "table-driven block, selector function from the table, len()==0 / continue"),
    ("C16", "neutral", [], R, "        res.mx[:, j] = mm.ext[:, 0]\n        res.mx_x[:, j] = mm.ext_x[:, 0]\n        res.mn[:, j] = mm.ext[:, 1]\n        res.mn_x[:, j] = mm.ext_x[:, 1]\n",
     "        for col, side in enumerate((\"mx\", \"mn\")):\n            for src, suffix in {\"ext\": \"\", \"ext_x\": \"_x\"}.items():\n                vars(res)[side + suffix][:, j] = getattr(mm, src)[:, col]\n",
     "_store_maxmin from literal tables, composed member names"),
    ("C16", "neutral", [], R, "            mm.ext[:, 1] = -mm.ext[:, 0]\n", "            mm.ext[:, 1] = mm.ext[:, 0]\n            np.negative(mm.ext[:, 1], out=mm.ext[:, 1])\n",
     "frf min column: copy, then negate in place"),
    ("C16", "neutral", [], R, "                res.srs.ext[q] = np.fmax(res.srs.ext[q], srs_cur)", "                running_max = np.fmax\n                res.srs.ext[q] = running_max(res.srs.ext[q], srs_cur)",
     "np.fmax through an alias"),
    ("C16", "neutral", [], E, "        kel = k[nrb:, None]\n", "        kel = k[np.s_[nrb:]][:, np.newaxis]\n", "np.s_ and np.newaxis"),
    ("C16", "neutral", [], E, "            rfmodes = rfmodes.nonzero()[0]\n", "            (rfmodes,) = np.nonzero(rfmodes)[:1]\n", "unpacking a one-element slice of nonzero()"),
    ("C16", "neutral", [], E, "    try:\n        solout.pg = sol.pg * suf\n    except AttributeError:\n        pass\n",
     "    import contextlib\n\n    with contextlib.suppress(AttributeError):\n        solout.pg = sol.pg * suf\n", "contextlib.suppress for try/except/pass"),
    ("C16", "neutral", [], E, "    solout.a[nrb:] *= euf * duf\n    solout.v[nrb:] *= euf * duf\n",
     "    for member in \"av\":\n        getattr(solout, member)[slice(nrb, None)] *= euf * duf\n", "loop over member names, slice() object"),
    ("C16", "neutral", [], E, "        solout.d_static[elastic] = la.lu_solve(lup, gf[elastic_norb])\n        solout.d_dynamic[elastic] = la.lu_solve(lup, -avterm)\n",
     "        import functools\n\n        solve = functools.partial(la.lu_solve, lup)\n        solout.d_static[elastic], solout.d_dynamic[elastic] = solve(gf[elastic_norb]), (lambda rhs: solve(rhs))(-avterm)\n",
     "functools.partial and a lambda applied by value"),
    ("C16", "neutral", [], U, "    else:\n        maxcase = maxcase[:]\n", "    else:\n        maxcase = [*maxcase]\n", "list copy by unpacking"),
    ("C16", "neutral", [], U, "        maxcase = r * [maxcase]\n", "        maxcase = [maxcase for _ in range(r)]\n", "repeated label by comprehension"),
    ("C16", "neutral", [], R, "                res.srs.ext[q] = np.fmax(res.srs.ext[q], srs_cur)", "                res.srs.ext[q] = np.fmax.reduce([res.srs.ext[q], srs_cur])",
     "fmax as a reduction over the pair"),
    ("C16", "neutral", [], R, "                res.srs.ext[q] = srs_cur\n", "                res.srs.ext[q] = srs_cur.copy()\n", "first envelope is a copy of the spectrum"),
    ("C16", "neutral", [], E, "        solout.d_static[rfmodes] = la.lu_solve(lup, gf[save[\"rf_norb\"]])\n\n    solout.d = solout.d_static + solout.d_dynamic",
     "        solout.d_static[rfmodes] = la.lu_solve(lup, gf[save[\"rf_norb\"]])\n\n    solout.d = np.sum([solout.d_static, solout.d_dynamic], axis=0)",
     "sum of the two parts as a reduction"),
    ("C16", "break", ["C16-R3"], R, "                res.srs.ext[q] = np.fmax(res.srs.ext[q], srs_cur)", "                res.srs.ext[q] = np.fmax.reduce([srs_cur, srs_cur])",
     "envelope forgets the old envelope"),
    ("C16", "break", ["C16-R3"], R, "            mm.ext_x[:, 1] = mm.ext_x[:, 0]\n            extrema(res, mm, case)\n",
     "            mm.ext_x[:, 1] = mm.ext_x[:, 0]\n            extrema(curext=res, mm=mm, maxcase=case)\n            first = res.ext is None\n",
     "`first` re-read after a keyword call of extrema()"),
]

# ---- third hardening pass: maxmin decided per row world (c16_rows), loops over the selected rows in other forms, select for masked store,
#      match statements
_MM = ("    jx = np.nanargmax(response, axis=1)\n    jn = np.nanargmin(response, axis=1)\n    ind = np.arange(r)\n    mx = response[ind, jx]\n"
       "    mn = response[ind, jn]\n    return SimpleNamespace(\n        ext=np.column_stack((mx, mn)), ext_x=np.column_stack((x[jx], x[jn]))\n    )\n")
_MM_TAIL = ("    jx = np.nanargmax(response, axis=1)\n    jn = np.nanargmin(response, axis=1)\n    ind = np.arange(r)\n"
            "    ext = np.column_stack((response[ind, jx], response[ind, jn]))\n    ext_x = np.column_stack((x[jx], x[jn]))\n"
            "    if skip.any():\n        ext[skip] = np.nan\n        ext_x = ext_x.astype(float)\n        ext_x[skip] = np.nan\n"
            "    return SimpleNamespace(ext=ext, ext_x=ext_x)\n")


def _tolerant(mask, tail=_MM_TAIL):
    """maxmin with the feature of seed H: rows selected by `mask` are zero-filled before the argmax and get NaN afterwards"""
    return f"    skip = {mask}\n    if skip.any():\n        response = np.where(skip[:, None], 0.0, response)\n" + tail


_MM_COPY = ("    skip = np.isnan(response).all(axis=1)\n    filled = response.copy()\n    filled[skip] = 0.0\n    jx = np.nanargmax(filled, axis=1)\n"
            "    jn = np.nanargmin(filled, axis=1)\n    ind = np.arange(r)\n    mx = response[ind, jx]\n    mn = response[ind, jn]\n"
            "    ext_x = np.column_stack((x[jx], x[jn])).astype(float)\n    ext_x[skip] = np.nan\n"
            "    return SimpleNamespace(ext=np.column_stack((mx, mn)), ext_x=ext_x)\n")
_MM_WHERE = ("    skip = np.isnan(response).all(axis=1)\n    safe = np.where(skip[:, np.newaxis], 0.0, response)\n    jx = np.nanargmax(safe, axis=1)\n"
             "    jn = np.nanargmin(safe, axis=1)\n    ind = np.arange(r)\n    mx = np.where(skip, np.nan, safe[ind, jx])\n"
             "    mn = np.where(skip, np.nan, safe[ind, jn])\n    xx = np.where(skip, np.nan, x[jx])\n    xn = np.where(skip, np.nan, x[jn])\n"
             "    return SimpleNamespace(ext=np.column_stack((mx, mn)), ext_x=np.column_stack((xx, xn)))\n")
_MM_NANMAX = ("    import warnings\n\n    with warnings.catch_warnings():\n        warnings.simplefilter(\"ignore\")\n"
              "        skip = np.isnan(np.nanmax(response, axis=1))\n    safe = np.where(skip[:, None], 0.0, response)\n"
              "    jx = np.nanargmax(safe, axis=1)\n    jn = np.nanargmin(safe, axis=1)\n    ind = np.arange(r)\n"
              "    ext = np.column_stack((response[ind, jx], response[ind, jn]))\n    ext_x = np.column_stack((x[jx], x[jn])).astype(float)\n"
              "    ext_x[skip, :] = np.nan\n    return SimpleNamespace(ext=ext, ext_x=ext_x)\n")
_MM_FAST = ("    if not np.isnan(response).any():\n        jx = np.argmax(response, axis=1)\n        jn = np.argmin(response, axis=1)\n    else:\n"
            "        jx = np.nanargmax(response, axis=1)\n        jn = np.nanargmin(response, axis=1)\n    ind = np.arange(r)\n    mx = response[ind, jx]\n"
            "    mn = response[ind, jn]\n    return SimpleNamespace(\n        ext=np.column_stack((mx, mn)), ext_x=np.column_stack((x[jx], x[jn]))\n    )\n")
_BLK1 = ("        j = nan_argmax(abs(curext.ext[:, 0]), abs(mm.ext[:, 0])).nonzero()[0]\n        if j.size > 0:\n            for i in j:\n"
         "                curext.maxcase[i] = maxcase[i]\n")
_BLK2MAX = ("    j = nan_argmax(curext.ext[:, 0], mm.ext[:, 0]).nonzero()[0]\n    if j.size > 0:\n        for i in j:\n            curext.maxcase[i] = maxcase[i]\n"
            "        curext.ext[j, 0] = mm.ext[j, 0]\n        _put_time(curext, mm, j, 0, 0)\n")
_BLK2MIN_LOOP = "        for i in j:\n            curext.mincase[i] = mincase[i]\n"
_ENV = ("            if first:\n                res.srs.ext[q] = srs_cur\n            else:\n                res.srs.ext[q] = np.fmax(res.srs.ext[q], srs_cur)\n")

RECIPES += [
    # maxmin: rows without a valid sample carried through as NaN (the feature of seed H) - the mask must be false for every row that has one
    ("C16", "break", ["C16-R2"], U, _MM, _tolerant("~np.isfinite(response).all(axis=1)"), "`~isfinite(R).all(axis=1)` is 'some sample not finite' (seed H)"),
    ("C16", "break", ["C16-R2"], U, _MM, _tolerant("np.isnan(response).any(axis=1)"), "rows with any NaN are carried through as NaN"),
    ("C16", "break", ["C16-R2"], U, _MM, _tolerant("np.isnan(response).sum(axis=1) > 0"), "NaN count > 0 instead of == number of columns"),
    ("C16", "break", ["C16-R2"], U, _MM, _tolerant("np.isnan(response).all(axis=1)").replace("ext[skip] = np.nan", "ext[~skip] = np.nan"),
     "right mask, but the rows that are kept get the NaN"),
    ("C16", "break", ["C16-R2"], U, _MM, _MM_COPY.replace("np.isnan(response).all(axis=1)", "~np.isfinite(response).all(axis=1)"),
     "zero-filled copy for the argmax under the mask of seed H"),
    ("C16", "break", ["C16-R2"], U, _MM, _MM_WHERE.replace("mn = np.where(skip, np.nan, safe[ind, jn])", "mn = np.where(~skip, np.nan, safe[ind, jn])"),
     "np.where with the arms the wrong way round for the minimum"),
    ("C16", "break", ["C16-R2"], U, _MM, _MM_NANMAX.replace("np.nanmax(response, axis=1)", "np.max(response, axis=1)"),
     "mask from a maximum that is not NaN-aware"),
    ("C16", "break", ["C16-R2"], U, _MM, _MM_FAST.replace("if not np.isnan(response).any():", "if np.isnan(response).any():"),
     "plain argmax on the path that has NaNs"),
    ("C16", "break", ["C16-R2"], U, "    mx = response[ind, jx]\n", "    mx = response.max(axis=1)\n", "row maximum that propagates NaN"),
    ("C16", "neutral", [], U, _MM, _tolerant("np.isnan(response).all(axis=1)"), "all-NaN rows carried through as NaN (correct mask)"),
    ("C16", "neutral", [], U, _MM, _tolerant("~np.isfinite(response).any(axis=1)"), "same, `not any finite`"),
    ("C16", "neutral", [], U, _MM, _tolerant("np.count_nonzero(response == response, axis=1) == 0"), "same, count of non-NaN samples is zero"),
    ("C16", "neutral", [], U, _MM, _tolerant("np.isnan(response).sum(axis=1) == c"), "same, NaN count equals the number of columns"),
    ("C16", "neutral", [], U, _MM, _MM_COPY, "zero-filled private copy only for the argmax, values read from the caller's matrix"),
    ("C16", "neutral", [], U, _MM, _MM_WHERE, "np.where on the inputs and on the four result vectors"),
    ("C16", "neutral", [], U, _MM, _MM_NANMAX, "mask derived from the NaN-aware row maximum"),
    ("C16", "neutral", [], U, _MM, _MM_FAST, "plain argmax only on the path where the matrix has no NaN"),
    ("C16", "neutral", [], U, _MM,
     "    jx = np.nanargmax(response, axis=-1)\n    jn = np.nanargmin(response, axis=-1)\n    ind = range(r)\n    tables = dict(\n"
     "        ext=np.column_stack((response[ind, jx], response[ind, jn])),\n        ext_x=np.column_stack((np.take(x, jx), x.take(jn))),\n    )\n"
     "    return SimpleNamespace(**tables)\n", "axis=-1, range for arange, np.take / .take, namespace from a dict"),
    ("C16", "neutral", [], U, _MM,
     "    jx = np.nanargmax(response, axis=1)\n    jn = np.nanargmin(response, axis=1)\n    mx = np.take_along_axis(response, jx[:, None], axis=1)[:, 0]\n"
     "    mn = np.take_along_axis(response, jn[:, None], axis=1)[:, 0]\n    return SimpleNamespace(ext=np.c_[mx, mn], ext_x=np.c_[x[jx], x[jn]])\n",
     "take_along_axis, np.c_"),
    # loops over the selected rows
    ("C16", "neutral", [], U, _BLK1, _BLK1.replace("for i in j:", "for i in j.tolist():"), "loop over j.tolist() (N12)"),
    ("C16", "neutral", [], U, _BLK1, _BLK1.replace("            for i in j:\n", "            for k in range(len(j)):\n                i = int(j[k])\n"),
     "index loop over range(len(j)), int()"),
    ("C16", "neutral", [], U, "            for i in j:\n                curext.mincase[i] = maxcase[i]\n",
     "            for i, label in zip(j, [maxcase[k] for k in j]):\n                curext.mincase[i] = label\n", "zip of the rows and their labels"),
    ("C16", "neutral", [], U, "        for i in j:\n            curext.maxcase[i] = maxcase[i]\n        curext.ext[j, 0] = mm.ext[j, 0]\n",
     "        k = 0\n        while k < j.size:\n            curext.maxcase[j[k]] = maxcase[j[k]]\n            k += 1\n        curext.ext[j, 0] = mm.ext[j, 0]\n",
     "counted while loop"),
    ("C16", "neutral", [], U, _BLK2MIN_LOOP, "        for k, i in enumerate(j):\n            curext.mincase[i] = mincase[j[k]]\n", "enumerate, label through the position"),
    ("C16", "break", ["C16-R1"], U, "            for i in j:\n                curext.mincase[i] = maxcase[i]\n",
     "            for i, label in zip(j, maxcase):\n                curext.mincase[i] = label\n", "labels taken by position in j, not by row"),
    ("C16", "break", ["C16-R1"], U, _BLK2MIN_LOOP, "        for k, i in enumerate(j):\n            curext.mincase[i] = mincase[k]\n", "label indexed by the position in j"),
    # select for masked store
    ("C16", "neutral", [], U, _BLK2MAX,
     "    pv = nan_argmax(curext.ext[:, 0], mm.ext[:, 0])\n    j = pv.nonzero()[0]\n    if pv.any():\n        for i in j:\n            curext.maxcase[i] = maxcase[i]\n"
     "        curext.ext[:, 0] = np.where(pv, mm.ext[:, 0], curext.ext[:, 0])\n        _put_time(curext, mm, j, 0, 0)\n", "np.where select over the whole column for the masked store"),
    ("C16", "break", ["C16-R1"], U, _BLK2MAX,
     "    pv = nan_argmax(curext.ext[:, 0], mm.ext[:, 0])\n    j = pv.nonzero()[0]\n    if pv.any():\n        for i in j:\n            curext.maxcase[i] = maxcase[i]\n"
     "        curext.ext[:, 0] = np.where(pv, mm.ext[:, 1], curext.ext[:, 0])\n        _put_time(curext, mm, j, 0, 0)\n", "select takes the new maximum from the min column"),
    # match statements
    ("C16", "neutral", [], U, "    if c not in [1, 2]:\n        raise ValueError(f\"mm.ext has {c} cols, but must have 1 or 2.\")\n",
     "    match c:\n        case 1 | 2:\n            pass\n        case _:\n            raise ValueError(f\"mm.ext has {c} cols, but must have 1 or 2.\")\n", "match statement for the column count"),
    ("C16", "neutral", [], R, _ENV, "            match bool(first):\n                case True:\n                    res.srs.ext[q] = srs_cur\n                case False:\n"
     "                    res.srs.ext[q] = np.fmax(res.srs.ext[q], srs_cur)\n", "match on the first-case flag"),
    ("C16", "break", ["C16-R3"], R, _ENV, "            match bool(first):\n                case False:\n                    res.srs.ext[q] = srs_cur\n                case True:\n"
     "                    res.srs.ext[q] = np.fmax(res.srs.ext[q], srs_cur)\n", "match on the first-case flag with the arms exchanged"),
    ("C16", "neutral", [], E, "    if nrb > 0:\n        solout.a[:nrb] *= ruf * suf\n        solout.v[:nrb] *= ruf * suf\n",
     "    if 0 < nrb:\n        solout.a[:nrb] = solout.a[:nrb] * (ruf * suf)\n        solout.v[:nrb] = solout.v[:nrb] * (ruf * suf)\n", "explicit load-multiply-store for `*=`"),
    ("C16", "neutral", [], R, "    def _store_maxmin(self, res, mm, j, case):", "    @staticmethod\n    def _store_maxmin(res, mm, j, case):", "_store_maxmin as a staticmethod"),
]
