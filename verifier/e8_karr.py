"""E8 -- affine equalities (Karr) x lower-bound intervals x template inequalities on the rainflow transition systems.

State  : a set of affine equalities over integer program variables (kept as a reduced row-echelon matrix over Q)
         plus, per variable, a proved lower bound (int or None).
Upper bounds are not tracked as intervals; they are *derived* at proof time from the equalities, the lower bounds and the
loop-range slacks (for v in lo..hi-1 : hi - 1 - v >= 0), which is exactly the shape of the facts the rainflow proof needs.

The lattice of affine subspaces has finite height, so loops are iterated to a fixpoint without widening; lower bounds are
widened to None (unknown) after a few rounds.
"""
from __future__ import annotations

from fractions import Fraction

from .core import Unsupported


class Aff:
    """affine expression  sum c_v * v + c0"""
    __slots__ = ("c", "k", "_r")

    def __init__(self, c=None, k=0):
        self.c = {v: Fraction(x) for v, x in (c or {}).items() if x}
        self.k = Fraction(k)
        self._r = None          # cached text (an Aff is never modified after it is built)

    def __add__(self, o):
        o = _A(o)
        d = dict(self.c)
        for v, x in o.c.items():
            d[v] = d.get(v, 0) + x
        return Aff(d, self.k + o.k)

    def __neg__(self):
        return Aff({v: -x for v, x in self.c.items()}, -self.k)

    def __sub__(self, o):
        return self + (-_A(o))

    def scale(self, s):
        return Aff({v: x * s for v, x in self.c.items()}, self.k * s)

    def subs(self, v, e):
        if v not in self.c:
            return self
        a = self.c[v]
        rest = Aff({w: x for w, x in self.c.items() if w != v}, self.k)
        return rest + _A(e).scale(a)

    def vars(self):
        return set(self.c)

    def __repr__(self):
        if self._r is None:
            parts = [f"{'' if x == 1 else ('-' if x == -1 else str(x) + '*')}{v}" for v, x in sorted(self.c.items())]
            if self.k or not parts:
                parts.append(str(self.k))
            self._r = " + ".join(parts).replace("+ -", "- ")
        return self._r


def _A(x):
    return x if isinstance(x, Aff) else Aff({}, x)


def V(name):
    return Aff({name: 1})


def aff_of_ir(e, emit_var=None):
    """IR expression -> Aff (integers only) or None"""
    if e[0] == "num":
        return Aff({}, e[1]) if e[1].denominator == 1 else None
    if e[0] == "var":
        return V(e[1])
    if e[0] == "neg":
        a = aff_of_ir(e[1])
        return None if a is None else -a
    if e[0] == "bin" and e[1] in "+-":
        a, b = aff_of_ir(e[2]), aff_of_ir(e[3])
        if a is None or b is None:
            return None
        return a + b if e[1] == "+" else a - b
    if e[0] == "bin" and e[1] == "*":
        a, b = aff_of_ir(e[2]), aff_of_ir(e[3])
        if a is None or b is None:
            return None
        if not a.c:
            return b.scale(a.k)
        if not b.c:
            return a.scale(b.k)
    return None


import math


def _gcd_all(xs):
    g = 0
    for x in xs:
        x = Fraction(x)
        g = math.gcd(g, abs(x.numerator)) if x.denominator == 1 else 1
    return g


def tighten(a):
    """a >= 0 over the integers with integer coefficients: divide by the gcd of the coefficients, floor the constant"""
    if not a.c:
        return a
    den = 1
    for x in list(a.c.values()) + [a.k]:
        den = den * x.denominator // math.gcd(den, x.denominator)
    a = a.scale(den)
    g = _gcd_all(a.c.values())
    if g > 1:
        a = Aff({v: x / g for v, x in a.c.items()}, Fraction(math.floor(a.k / g)))
    return a


def _int_row(a, vs):
    """Aff -> (integer coefficient tuple over vs, integer constant), scaled by the lcm of the denominators"""
    den = 1
    for x in a.c.values():
        den = den * x.denominator // math.gcd(den, x.denominator)
    den = den * a.k.denominator // math.gcd(den, a.k.denominator)
    return [int(a.c.get(v, 0) * den) for v in vs], int(a.k * den)


def _tight(row, k):
    g = 0
    for x in row:
        g = math.gcd(g, abs(x))
    if g > 1:
        return [x // g for x in row], k // g        # floor division: integer tightening of  row.x + k >= 0
    return row, k


def feasible(cons):
    """is the conjunction of (Aff, 'ge' | 'eq') satisfiable over the integers?  Equalities are eliminated, inequalities by Fourier-Motzkin
    with integer tightening on integer vectors; `False` is always right, `True` may be a rational-only solution (callers only ever *prune* or
    *prove* on False)"""
    eqs = [a for a, k in cons if k == "eq"]
    ges = [a for a, k in cons if k == "ge"]
    while eqs:
        e = eqs.pop()
        if not e.c:
            if e.k != 0:
                return False
            continue
        v = sorted(e.c)[0]
        rest = Aff({w: x for w, x in e.c.items() if w != v}, e.k).scale(-1 / e.c[v])      # v = rest
        eqs = [q.subs(v, rest) for q in eqs]
        ges = [q.subs(v, rest) for q in ges]
    vs = sorted({v for g in ges for v in g.c})
    rows = []
    for g in ges:
        r, k = _int_row(g, vs)
        r, k = _tight(r, k)
        if any(r):
            rows.append((tuple(r), k))
        elif k < 0:
            return False
    rows = list(set(rows))
    for i in range(len(vs)):
        pos = [(r, k) for r, k in rows if r[i] > 0]
        neg = [(r, k) for r, k in rows if r[i] < 0]
        new = [(r, k) for r, k in rows if r[i] == 0]
        for rp, kp in pos:
            for rn, kn in neg:
                a, b = -rn[i], rp[i]
                r = [a * x + b * y for x, y in zip(rp, rn)]
                kk = a * kp + b * kn
                r, kk = _tight(r, kk)
                if any(r):
                    new.append((tuple(r), kk))
                elif kk < 0:
                    return False
        rows = list(set(new))
        if len(rows) > 600:
            return True
    return all(k >= 0 for r, k in rows)


def implied_eqs_of(cons):
    out = []
    for a, k in cons:
        if k == "ge" and a.c and not feasible(cons + [(a - 1, "ge")]):
            out.append(a)
    return out


class State:
    templates = []        # the finite set of inequality templates (Affs) the analysis may track; set by Analysis

    def __init__(self, eqs=None, lb=None, bottom=False, ineqs=None):
        self.eqs = eqs or []        # list of Aff that are == 0, kept reduced
        self.lb = dict(lb or {})    # var -> int lower bound (absent = unknown)
        self.ineqs = list(ineqs or [])   # further Affs known >= 0 (loop ranges, template facts)
        self.bottom = bottom

    def copy(self):
        return State(list(self.eqs), dict(self.lb), self.bottom, list(self.ineqs))

    def add_ineq(self, f):
        if not self.bottom and not any(repr(f) == repr(g) for g in self.ineqs):
            self.ineqs.append(f)
            self._check_feasible()

    def assume_nonneg(self, g):
        """intersect with g >= 0: known facts squeezed to 0 by it become equalities; g itself is not kept (not a template)"""
        if self.bottom:
            return
        self.ineqs.append(g)
        self._check_feasible()
        if not self.bottom:
            for f in [V(v) - b for v, b in sorted(self.lb.items())] + list(self.ineqs):
                if self.prove_nonneg(-f):
                    self.add_eq(f)
        self.ineqs = [f for f in self.ineqs if f is not g]

    def _ineqs_after(self, old, v, e):
        """template facts that hold after v := e, by weakest precondition on the state before"""
        out = []
        for t in State.templates:
            if v not in t.c:
                if any(repr(t) == repr(g) for g in old.ineqs):
                    out.append(t)
            elif e is not None and old.prove_nonneg(t.subs(v, e)):
                out.append(t)
        return out

    def _check_feasible(self):
        """a single fact that reduces to a negative constant modulo the equalities makes the state empty"""
        for f in [V(v) - b for v, b in self.lb.items()] + self.ineqs:
            for q in self.eqs:
                p = sorted(q.c)[0]
                if p in f.c:
                    f = f - q.scale(f.c[p] / q.c[p])
            if not f.c and f.k < 0:
                self.bottom = True
                return

    # ---- affine equalities
    @staticmethod
    def _reduce(eqs):
        rows = [e for e in eqs if e.c or e.k]
        out = []
        piv = []
        for r in rows:
            for p, o in zip(piv, out):
                if p in r.c:
                    r = r - o.scale(r.c[p])
            if not r.c:
                if r.k != 0:
                    return None      # inconsistent: bottom
                continue
            p = sorted(r.c)[0]
            r = r.scale(1 / r.c[p])
            # back-substitute
            out = [o - r.scale(o.c[p]) if p in o.c else o for o in out]
            out.append(r)
            piv.append(p)
        return out

    def add_eq(self, e):
        if self.bottom:
            return
        r = State._reduce(self.eqs + [e])
        if r is None:
            self.bottom = True
        else:
            self.eqs = r
            self._check_feasible()

    def forget(self, v):
        """project the equalities onto the other variables"""
        with_v = [e for e in self.eqs if v in e.c]
        rest = [e for e in self.eqs if v not in e.c]
        if with_v:
            p = with_v[0]
            for e in with_v[1:]:
                rest.append(e - p.scale(e.c[v] / p.c[v]))
        self.eqs = State._reduce(rest) or []
        self.lb.pop(v, None)
        self.ineqs = [f for f in self.ineqs if v not in f.c]

    def assign(self, v, e):
        """v := e  (e affine or None = unknown)"""
        if self.bottom:
            return
        old = self.copy()
        if e is None:
            self.forget(v)
            return
        a = e.c.get(v, 0)
        new_lb = self.lower(e)
        if a != 0:
            # invertible: old v = (new v - rest)/a
            rest = Aff({w: x for w, x in e.c.items() if w != v}, e.k)
            inv = (V(v) - rest).scale(1 / a)
            self.eqs = State._reduce([q.subs(v, inv) for q in self.eqs]) or []
        else:
            self.forget(v)
            self.add_eq(V(v) - e)
        if new_lb is not None:
            self.lb[v] = new_lb
        else:
            self.lb.pop(v, None)
        self.ineqs = self._ineqs_after(old, v, e)

    def lower(self, e):
        """a proved integer lower bound of e from the per-variable lower bounds (None if none)"""
        tot = e.k
        for v, x in e.c.items():
            if x > 0 and v in self.lb:
                tot += x * self.lb[v]
            else:
                return None
        import math
        return math.ceil(tot)

    def entails_eq(self, e):
        r = e
        for q in self.eqs:
            p = sorted(q.c)[0]
            if p in r.c:
                r = r - q.scale(r.c[p])
        return not r.c and r.k == 0

    def prove_nonneg(self, e, slacks=()):
        """e >= 0 ?  Farkas certificate search: e = sum mu_j * fact_j + c with mu_j >= 0, c >= 0, modulo the equalities.
        facts = (v - lb_v >= 0 for every tracked lower bound) + `slacks` (Affs known >= 0).  Exact (Fractions); complete for
        the linear consequence relation (Caratheodory: a feasible system has a solution with linearly independent support)."""
        if self.bottom:
            return True
        import itertools
        facts = [V(v) - b for v, b in sorted(self.lb.items())] + list(self.ineqs) + list(slacks)

        def elim(x):
            for q in self.eqs:
                p = sorted(q.c)[0]
                if p in x.c:
                    x = x - q.scale(x.c[p] / q.c[p])
            return x
        e = elim(e)
        facts = list({repr(f): f for f in (elim(f) for f in facts) if f.c}.values())
        vs = sorted(e.vars() | {v for f in facts for v in f.c})
        if not e.c:
            return e.k >= 0
        facts = [f for f in facts if f.vars() & e.vars() or True]
        for size in range(1, min(len(vs), len(facts), 4) + 1):
            for S in itertools.combinations(range(len(facts)), size):
                mu = _solve([[facts[j].c.get(v, Fraction(0)) for j in S] for v in vs], [e.c.get(v, Fraction(0)) for v in vs])
                if mu is None or any(m < 0 for m in mu):
                    continue
                c = e.k - sum(m * facts[j].k for m, j in zip(mu, S))
                if c >= 0:
                    return True
        return False

    # ---- lattice
    def join(self, o):
        if self.bottom:
            return o.copy()
        if o.bottom:
            return self.copy()
        # affine hull: an equality survives iff it holds in both; candidates = linear combinations -> compute via generators
        eqs = _hull(self.eqs, o.eqs)
        lb = {}
        for v in set(self.lb) & set(o.lb):
            lb[v] = min(self.lb[v], o.lb[v])
        ineqs = [f for f in self.ineqs if o.prove_nonneg(f)]
        ineqs += [g for g in o.ineqs if self.prove_nonneg(g) and not any(repr(g) == repr(f) for f in ineqs)]
        return State(eqs, lb, False, ineqs)

    def leq(self, o):
        if self.bottom:
            return True
        if o.bottom:
            return False
        if not all(self.entails_eq(q) for q in o.eqs):
            return False
        for v, b in o.lb.items():
            if v not in self.lb or self.lb[v] < b:
                return False
        return all(self.prove_nonneg(f) for f in o.ineqs)

    def __repr__(self):
        if self.bottom:
            return "<bottom>"
        return "{" + "; ".join(f"{q} = 0" for q in self.eqs) + " | " + ", ".join(
            [f"{v} >= {b}" for v, b in sorted(self.lb.items())] + [f"{f} >= 0" for f in self.ineqs]) + "}"


def _solve(A, b):
    """unique solution x of A x = b (A: rows x cols, exact) or None if inconsistent / under-determined"""
    rows = [r[:] + [bb] for r, bb in zip(A, b)]
    ncol = len(A[0]) if A else 0
    rr = 0
    piv = []
    for c in range(ncol):
        pr = next((r for r in range(rr, len(rows)) if rows[r][c] != 0), None)
        if pr is None:
            return None
        rows[rr], rows[pr] = rows[pr], rows[rr]
        pv = rows[rr][c]
        rows[rr] = [x / pv for x in rows[rr]]
        for r in range(len(rows)):
            if r != rr and rows[r][c] != 0:
                f = rows[r][c]
                rows[r] = [x - f * y for x, y in zip(rows[r], rows[rr])]
        piv.append(c)
        rr += 1
    for r in range(rr, len(rows)):
        if rows[r][-1] != 0:
            return None
    return [rows[i][-1] for i in range(ncol)]


def _hull(e1, e2):
    """equalities valid on the affine hull of the two solution sets"""
    vs = sorted({v for q in e1 + e2 for v in q.c})
    n = len(vs)

    def gens(eqs):
        # parametrise the solution set: point + free directions
        piv = {}
        for q in eqs:
            p = sorted(q.c)[0]
            piv[p] = q
        free = [v for v in vs if v not in piv]
        pt = {v: Fraction(0) for v in vs}
        for p, q in piv.items():
            pt[p] = -q.k / q.c[p]
        dirs = []
        for f in free:
            d = {v: Fraction(0) for v in vs}
            d[f] = Fraction(1)
            for p, q in piv.items():
                d[p] = -q.c.get(f, 0) / q.c[p]
            dirs.append(d)
        return pt, dirs

    p1, d1 = gens(e1)
    p2, d2 = gens(e2)
    # hull = p1 + span(d1, d2, p2 - p1)
    basis = d1 + d2 + [{v: p2[v] - p1[v] for v in vs}]
    # equalities a.x + c = 0 with a orthogonal to all basis vectors: nullspace of the basis matrix
    rows = [[b[v] for v in vs] for b in basis if any(b.values())]
    # row-reduce
    m = [r[:] for r in rows]
    piv_cols = []
    rr = 0
    for c in range(n):
        pr = None
        for r in range(rr, len(m)):
            if m[r][c] != 0:
                pr = r
                break
        if pr is None:
            continue
        m[rr], m[pr] = m[pr], m[rr]
        pv = m[rr][c]
        m[rr] = [x / pv for x in m[rr]]
        for r in range(len(m)):
            if r != rr and m[r][c] != 0:
                f = m[r][c]
                m[r] = [x - f * y for x, y in zip(m[r], m[rr])]
        piv_cols.append(c)
        rr += 1
    free_cols = [c for c in range(n) if c not in piv_cols]
    out = []
    for fc in free_cols:
        a = [Fraction(0)] * n
        a[fc] = Fraction(1)
        for r, pc in enumerate(piv_cols):
            a[pc] = -m[r][fc]
        const = -sum(a[i] * p1[vs[i]] for i in range(n))
        out.append(Aff({vs[i]: a[i] for i in range(n) if a[i]}, const))
    return State._reduce(out) or []


# ---------------------------------------------------------------------------
class FState(State):
    """State whose inequality proofs are done by Fourier-Motzkin refutation (complete for linear consequence, integer tightening)"""

    def copy(self):
        return FState(list(self.eqs), dict(self.lb), self.bottom, list(self.ineqs))

    def facts(self):
        return [(q, "eq") for q in self.eqs] + [(V(v) - b, "ge") for v, b in sorted(self.lb.items())] + [(f, "ge") for f in self.ineqs]

    def reduce(self, e):
        for q in self.eqs:
            p = sorted(q.c)[0]
            if p in e.c:
                e = e - q.scale(e.c[p] / q.c[p])
        return e

    def prove_nonneg(self, e, slacks=()):
        if self.bottom:
            return True
        e = self.reduce(e)
        if not e.c:
            return e.k >= 0
        facts = self._reduced_facts() + [(f, "ge") for f in (self.reduce(f) for f in slacks) if f.c]
        for f, _ in facts:                  # already known (possibly with slack): the common case
            if f.c == e.c and e.k >= f.k:
                return True
        # only facts connected to e through shared variables matter
        vs = set(e.c)
        keep = []
        rest = list(facts)
        changed = True
        while changed:
            changed = False
            for f in list(rest):
                if set(f[0].c) & vs:
                    keep.append(f)
                    rest.remove(f)
                    vs |= set(f[0].c)
                    changed = True
        return not feasible(keep + [(-e - 1, "ge")])

    _cache = None

    def _reduced_facts(self):
        """the inequality facts modulo the equalities; cached while the state is not touched (the cache keeps the very objects it was
        computed from, so identity comparison is safe)"""
        c = self._cache
        lbs = sorted(self.lb.items())
        if c is not None and len(c[0]) == len(self.eqs) and len(c[1]) == len(self.ineqs) and c[2] == lbs \
                and all(x is y for x, y in zip(c[0], self.eqs)) and all(x is y for x, y in zip(c[1], self.ineqs)):
            return list(c[3])
        out = [(self.reduce(V(v) - b), "ge") for v, b in lbs] + [(self.reduce(f), "ge") for f in self.ineqs]
        out = [(f, k) for f, k in out if f.c]
        self._cache = (list(self.eqs), list(self.ineqs), lbs, out)
        return list(out)

    def infeasible(self):
        return self.bottom or not feasible(self.facts())

    def _check_feasible(self):
        if not self.bottom and not feasible(self.facts()):
            self.bottom = True

    def join(self, o):
        r = State.join(self, o)
        return FState(r.eqs, r.lb, r.bottom, r.ineqs)


class GraphAnalysis:
    """Karr's affine equalities + lower bounds + template inequalities on a graph of cut points.

    edges: dicts  src, dst, guard = [('ge' | 'eq' | 'ne', Aff), ...] (data-dependent tests are simply absent: both outcomes possible),
                  pset = {var: Aff | None} (simultaneous; None = not affine), acc = [(array, index Aff, 'r' | 'w')],
                  outs = {output array: [(flat index Aff, value)]}, nfull = number of rows with count 1 written, label
    A loop head is analysed separately for its first entry and for its back edges (`parent` gives the loop nesting), which is what the
    exit facts need (the stack is not empty after the first pass of the loop).
    Ghost counters: `#rows:<array>` rows written so far per output array, `#full` rows of count 1."""

    def __init__(self, nodes, edges, start, parent, arrays, outs, int_vars, init, count_col=None, lower=None):
        self.nodes = nodes
        self.count_col = count_col or {}
        self.edges = edges
        self.start = start
        self.parent = parent          # loop head -> enclosing loop head | None
        self.arrays = arrays          # array -> length Aff
        self.outs = outs              # output array -> (rows Aff, cols)
        self.obl = []
        tm = {}
        for n in {repr(x): x for x in arrays.values()}.values():
            for v in int_vars:
                for t in (n - V(v) - 1, n - V(v)):      # v is an index (v <= n - 1) or a size (v <= n)
                    tm[repr(t)] = t
        for e in edges:
            for k, a in e["guard"]:
                if k == "ge" and a.c:
                    for t in (a, a + 1, -a - 1):
                        tm[repr(t)] = t
                elif k in ("eq", "ne") and a.c:
                    # a loop that runs `while (p != end)`: the fact that carries it is one of  a >= 0, a <= 0, a >= 1, a <= -1
                    for t in (a, -a, a - 1, -a - 1):
                        tm[repr(t)] = t
        State.templates = list(tm.values())
        self.state = {}
        st = FState()
        for v, a in init.items():
            st.assign(v, a)
        for b in outs:
            st.assign(f"#rows:{b}", Aff({}, 0))
        st.assign("#full", Aff({}, 0))
        for v, b in (lower or {}).items():
            st.lb[v] = b
        self.init = st

    def is_back(self, src, dst):
        n = src
        while n is not None:
            if n == dst:
                return True
            n = self.parent.get(n)
        return False

    def variant(self, e):
        return (e["dst"], "b" if e["dst"] in self.parent and self.is_back(e["src"], e["dst"]) else "e")

    def guard(self, st, g):
        st = st.copy()
        for k, a in g:
            if st.bottom:
                break
            if k == "eq":
                st.add_eq(a)
            elif k == "ge":
                if len(a.c) == 1:
                    (v, x), = a.c.items()
                    if x > 0:
                        b = math.ceil(-a.k / x)
                        st.lb[v] = max(st.lb.get(v, b), b)
                st.add_ineq(a)
            elif k == "ne":
                if len(a.c) == 1:
                    (v, x), = a.c.items()
                    val = -a.k / x
                    if val.denominator == 1 and st.lb.get(v) == val:
                        st.lb[v] = int(val) + 1
                # a != 0 on top of a one-sided fact: a >= 0 gives a >= 1, a <= 0 gives a <= -1 (integers)
                if a.c and st.prove_nonneg(a):
                    st.add_ineq(tighten(a - 1))
                elif a.c and st.prove_nonneg(-a):
                    st.add_ineq(tighten(-a - 1))
        if not st.bottom:
            st._check_feasible()
        if not st.bottom:
            # facts squeezed to equality by the guard
            for k, a in g:
                if k == "ge" and a.c and st.prove_nonneg(-a):
                    st.add_eq(a)
        return st

    def rows_written(self, e, st, record):
        """per output array: number of complete rows this edge writes, and the number of rows with count 1; obligations: the stores fill
        rows #rows .. #rows+m-1 exactly, the count column holds 0.5 or 1"""
        m = {}
        nfull = 0
        for b, stores in e["outs"].items():
            rows, cols = self.outs[b]
            ks = []
            ok = True
            for flat, val in stores:
                d = st.reduce(flat - V(f"#rows:{b}").scale(cols))
                if d.c or d.k.denominator != 1:
                    ok = False
                    if record:
                        self.obl.append((f"{e['label']}: store {b}[{flat}] is at a fixed place relative to the rows already written", False, repr(st)))
                else:
                    ks.append((int(d.k), val))
            offs = sorted(k for k, _ in ks)
            n = len(ks) // cols if cols else 0
            full = ok and offs == list(range(n * cols)) and len(ks) == n * cols
            if record and ok:
                self.obl.append((f"{e['label']}: the {len(ks)} stores into {b} fill rows #rows .. #rows+{n - 1} completely, each cell once "
                                 f"(offsets {offs})", full, repr(st)))
            if record and full and n:
                self.obl.append((f"{e['label']}: rows #rows .. #rows+{n - 1} of {b} are below its capacity {rows}",
                                 st.prove_nonneg(rows - V(f"#rows:{b}") - n), repr(st)))
            if full and b in self.count_col:
                for k, val in ks:
                    if k % cols == self.count_col[b]:
                        good = val in (("num", Fraction(1)), ("num", Fraction(1, 2)))
                        if record:
                            self.obl.append((f"{e['label']}: the count stored with a row of {b} is 0.5 or 1", good, str(val)))
                        if val == ("num", Fraction(1)):
                            nfull += 1
            m[b] = n if full else 0
        return m, nfull

    def post(self, e, st, record=False):
        m, nfull = self.rows_written(e, st, record)
        if record:
            for arr, ix, rw in e["acc"]:
                if arr in self.arrays:
                    what = "read" if rw == "r" else "write"
                    self.obl.append((f"{e['label']}: {what} {arr}[{ix}]: 0 <= {ix}", st.prove_nonneg(ix), repr(st)))
                    self.obl.append((f"{e['label']}: {what} {arr}[{ix}]: {ix} <= {self.arrays[arr] - 1}", st.prove_nonneg(self.arrays[arr] - ix - 1), repr(st)))
        st = st.copy()
        tmp = []
        for i, (v, a) in enumerate(sorted(e["pset"].items())):
            if a is not None and set(a.c) == {v} and a.c[v] == 1 and a.k == 0:
                continue
            t = f"__p{i}"
            st.assign(t, a)
            tmp.append((v, t))
        for v, t in tmp:
            st.assign(v, V(t))
        for _, t in tmp:
            st.forget(t)
        for b, n in m.items():
            if n:
                st.assign(f"#rows:{b}", V(f"#rows:{b}") + n)
        if nfull:
            st.assign("#full", V("#full") + nfull)
        for t in State.templates:
            if not any(repr(t) == repr(g) for g in st.ineqs) and st.prove_nonneg(t):
                st.ineqs.append(t)
        return st

    def run(self):
        self.state = {(self.start, "e"): self.init}
        rounds = {}
        for it in range(80):
            changed = False
            for e in self.edges:
                for var in ("e", "b"):
                    s0 = self.state.get((e["src"], var))
                    if s0 is None or s0.bottom:
                        continue
                    st = self.guard(s0, e["guard"])
                    if st.bottom:
                        continue
                    out = self.post(e, st)
                    key = self.variant(e)
                    old = self.state.get(key)
                    if old is None:
                        self.state[key] = out
                        changed = True
                        continue
                    new = old.join(out)
                    r = rounds.get(key, 0)
                    if r >= 3:
                        for v in list(new.lb):
                            if v in old.lb and new.lb[v] < old.lb[v]:
                                del new.lb[v]
                    if not (new.leq(old) and old.leq(new)):
                        self.state[key] = new
                        rounds[key] = r + 1
                        changed = True
            if not changed:
                break
        else:
            raise Unsupported("the invariants of the counter program did not stabilise")
        # recording pass
        self.at = {}
        for i, e in enumerate(self.edges):
            for var in ("e", "b"):
                s0 = self.state.get((e["src"], var))
                if s0 is None or s0.bottom:
                    continue
                st = self.guard(s0, e["guard"])
                if st.bottom:
                    continue
                out = self.post(e, st, record=True)
                self.at.setdefault(i, []).append((var, st, out))
        return self
