"""C06 helper engine: value-level evaluation of the Craig-Bampton utilities (pyyeti/cb.py).

Built on `e2_eval.AutoEvaluator` (unknown names are symbols, temporaries are substituted, unknown calls are opaque applications).  What is
added here, so that a rule can speak about *what is computed* and not about how the source spells it:

  * arrays that are filled through subscript stores are *objects*: every (re)binding of such a name creates a fresh buffer `name#k` with
    the value it was created from (its fill value and the value of its shape for np.zeros / ones / empty), stores are cells
    (buffer, index value, stored value); aliases (`v = v2`), helper parameters and returned arrays refer to the same object, so a rule finds
    "the array returned under field `a`" whatever the local is called and wherever (helper or caller) it was filled;
  * `SimpleNamespace(...)` / `dict(...)` / `{...}` / dict comprehensions / `**mapping` / `locals()[name]` / attribute-by-attribute
    construction are records by *field name*;
  * control flow: tests are decided on *values* (facts the rule states about values: truth of an opaque boolean, sign of a quantity;
    `is None`, constants, string equality, `not/and/or`, flags, conditional expressions, walrus); an undecided test whose one arm only
    raises takes the other arm, otherwise both arms are evaluated in a sandbox and names that agree keep their value; `try` runs its
    normal path (body + else; a rule may ask for the handler path), `with` runs its body, loops over literal tuples / `enumerate` / `zip` /
    small constant ranges are unrolled (with `continue` / `break`), other loops are evaluated once for a generic iteration; early returns;
    closures and functions of the same module are followed on the argument values (fresh buffers per activation);
  * generator expressions / comprehensions over literal tuples, tuple unpacking of an opaque value (`w, v = f(...)` -> items 0, 1),
    `C, D = np.ones((2, n))`;
  * numpy spellings are canonical: function vs method form (`np.any(x, axis=0)` / `x.any(axis=0)`), `np.logical_not/or/and` vs `~ | &`,
    `np.square`, `np.abs`, `np.transpose / .T`, `np.dot / @`, `np.hstack / np.concatenate`, `x.nonzero()[0] / np.flatnonzero(x)`,
    `np.size(X, k) / X.shape[k]`, `np.arange(n) + 1 / np.arange(1, n + 1)`, `slice(a, b)` vs `a:b`, trailing `:` in an index,
    `%` / `.format` / f-strings are opaque texts that carry the values of their fields;
  * (third pass) one value for every spelling of a length (`len(x)`, `x.shape[0]`, `np.size(x, 0)`, `np.shape(x)[0]`, `x.size` of a flattened
    vector -> dim(x, 0)); an array created with a stated shape has that shape, a selection by integer index vectors has their lengths
    (`Facts.intvec`: the rule says which parameters are index vectors); constants of math / numpy fold (`math.tau` is 2 pi) whatever the import
    spelling, members of modules used as values go by their canonical dotted name (`from collections.abc import MutableMapping`); function forms
    of the operators (`np.negative`, `np.multiply`, `operator.*`), `np.diagonal` of a matrix, `np.take`, `np.append`, `[*a, *b]`,
    `np.setdiff1d(np.arange(n), pv)` / an all-true mask cleared at pv and asked for its positions (= locate.flippv(pv, n)),
    `np.isin(np.arange(n), pv)` (= locate.index2bool(pv, n)); index canonical forms: `X[r[:, None], c]` = `X[np.ix_(r, c)]`,
    `X.T[r]` = `X[:, r].T`, `X[:, c][r]` = `X[r, c]` for a slice, `X[..., c]` with a stated number of axes, positions of a mask select what the mask
    selects, `(c X^n)[i]` = `c X[i]^n`; masks in negation normal form (`~(a | b)`, `~(x == y)`, `(X == 0).all(axis)`);
  * tests: `mask.all()` / `mask.any()` / counts of true entries (`np.count_nonzero(m) > 0`, `m.sum() == len(m)`) are one question, a truth value
    compared with True / False, tuples compared element by element, `X.shape[k:]` when the facts state the number of axes, `bool(x)`;
    `Facts.keys`: what a mapping the function is handed holds - `m[k]` of an absent key raises KeyError, which unwinds to the enclosing
    `try` / `with suppress` of the evaluated code (or ends the function), `k in m`, `m.get(k)` follow; `match` statements are if / elif chains;
  * callables are values: lambdas called on the spot, `functools.partial`, bound methods held in a name (`write = f.write`), functions held in a
    local or module-level name, `map(f, seq)`, generator functions (the tuple of what they yield), `*args` / `**kwargs` of followed functions;
    `print(..., file=f)` and `f.writelines([...])` are `f.write`; `np.put` on a one-dimensional array, `operator.setitem`, `X.__setitem__` are
    stores; a name bound to a parameter or to an attribute of one (`rows = uset.iloc`) is an alias of that object.

Nothing of /repo is imported or executed."""
from __future__ import annotations

import ast

from . import e2_formula as F
from .core import Unsupported
from .e1_srcmodel import dotted
from .e2_eval import AutoEvaluator, DictValue, Unknown, is_unknown, CONSTS, UNARY_FUNCS, _vec_binop, _const_pow

NONE = F.sym("None")
UNINIT = F.sym("<uninit>")
MAX_DEPTH = 6

ZERO = {"np.zeros": 0, "np.ones": 1, "np.empty": None, "numpy.zeros": 0, "numpy.ones": 1, "numpy.empty": None}
LIKE = {"np.zeros_like": 0, "np.ones_like": 1, "np.empty_like": None}
IDENT_FUNCS = {"np.atleast_1d", "np.atleast_2d", "np.asarray", "np.array", "np.ascontiguousarray", "np.asfortranarray", "float", "complex", "np.real",
               "np.ravel", "np.squeeze", "np.reshape", "np.asanyarray"}      # function form of IDENT_METHODS: the same elements
IDENT_METHODS = {"astype", "copy", "ravel", "flatten", "squeeze", "reshape"}
REDUCERS = {"any", "all", "sum", "max", "min", "mean", "prod", "cumsum", "nonzero"}     # np.F(x, ...) == x.F(...)
NP_CMP = {"np.not_equal": "NotEq", "np.equal": "Eq", "np.greater": "Gt", "np.less": "Lt", "np.greater_equal": "GtE", "np.less_equal": "LtE"}
SOLVE = {"linalg.solve", "la.solve", "scipy.linalg.solve", "np.linalg.solve", "sp.linalg.solve"}
# constants of the math / numpy modules, as values: pi is the symbol the base evaluator uses, tau folds to 2 pi, e to exp(1); inf / nan are one
# symbol each whatever module they are taken from
MATH_CONSTS = {"math.pi": lambda: F.sym("pi"), "np.pi": lambda: F.sym("pi"), "scipy.pi": lambda: F.sym("pi"), "pi": lambda: F.sym("pi"),
               "math.tau": lambda: 2 * F.sym("pi"),
               "math.e": lambda: F.exp(F.const(1)), "np.e": lambda: F.exp(F.const(1)),
               "math.inf": lambda: F.sym("inf"), "np.inf": lambda: F.sym("inf"), "np.Inf": lambda: F.sym("inf"), "np.infty": lambda: F.sym("inf"),
               "math.nan": lambda: F.sym("nan"), "np.nan": lambda: F.sym("nan"), "np.NaN": lambda: F.sym("nan")}
# function forms of the arithmetic operators
ARITH_FUNCS = {"np.add": ast.Add, "np.subtract": ast.Sub, "np.multiply": ast.Mult, "np.divide": ast.Div, "np.true_divide": ast.Div, "np.power": ast.Pow,
               "np.float_power": ast.Pow, "operator.add": ast.Add, "operator.sub": ast.Sub, "operator.mul": ast.Mult, "operator.truediv": ast.Div,
               "operator.pow": ast.Pow, "operator.matmul": ast.MatMult, "math.pow": ast.Pow, "pow": ast.Pow}


# ------------------------------------------------------------------------------------------------ values
class NS:
    """SimpleNamespace: a record by field name"""
    _n = 0

    def __init__(self, fields=None, node=None):
        self.fields = dict(fields or {})
        self.node = node
        NS._n += 1
        self.sym = F.sym(f"ns#{NS._n}")

    def __repr__(self):
        return "NS(%s)" % ", ".join(sorted(self.fields))


class PyList(tuple):
    """a Python list (display or comprehension): `+` concatenates, unlike the symbolic vectors (tuples) of the base evaluator"""


class PyTuple(tuple):
    """a Python tuple written as a display or made by tuple(...): `+` concatenates and `* n` repeats.  (A plain tuple also stands for an array made
    from a list of numbers, np.array([dx, dy, dz]), where arithmetic is element-wise.)"""


class Closure:
    def __init__(self, node, owner):
        self.node, self.owner = node, owner

    def __repr__(self):
        return f"<closure {self.node.name}>"


class Partial:
    """functools.partial(func, *pos, **kws): `func` is the value of the callee (a closure, a function known by its dotted name, a bound method)"""

    def __init__(self, func, pos, kws):
        self.func, self.pos, self.kws = func, list(pos), dict(kws)

    def __repr__(self):
        return f"<partial {self.func!r}>"


class LocalsValue:
    def __init__(self, owner):
        self.owner = owner


class Buf:
    def __init__(self, bid, name, init, shape, node):
        self.bid, self.name, self.init, self.shape, self.node = bid, name, init, shape, node
        self.sym = F.sym(bid)

    def __repr__(self):
        return f"<buf {self.bid} init={self.init!r} shape={self.shape!r}>"


class World:
    """state shared by an evaluator and the evaluators of the helpers it follows"""

    def __init__(self):
        self.nbuf = 0
        self.seq = 0
        self.bufs = {}
        self.cells = []      # (bid, index value, stored value, node, seq)
        self.calls = []      # (name, [positional values], {keyword: value}, node, seq)
        self.maybe = set()   # buffers that an arm of an undecided test stored into: their content is not known
        self.undecided = []  # the undecided tests (both arms evaluated in a sandbox)
        self.flat = set()    # atoms that stand for arrays flattened by .ravel() / .flatten(): their .size is their length

    def scratch(self):
        w = World()
        w.nbuf, w.seq = self.nbuf + 1000, self.seq
        w.bufs = dict(self.bufs)
        w.cells = list(self.cells)
        w.calls = list(self.calls)
        w.flat = set(self.flat)
        return w


def is_rat(v):
    return isinstance(v, F.Rat)


def symname(v):
    """name of a value that is exactly one symbol, else None"""
    if not is_rat(v):
        return None
    try:
        if not v.d.is_const() or v.d.const_value() != 1 or len(v.n.t) != 1:
            return None
        (m, c), = v.n.t.items()
        if c != 1 or len(m) != 1 or m[0][1] != 1:
            return None
        d = F.atom_desc(m[0][0])
    except Exception:  # noqa
        return None
    return d[1] if d[0] == "s" else None


def strconst(v):
    """the Python string of a value that is a string constant, else None"""
    n = symname(v)
    if n and len(n) >= 2 and n[0] in "'\"" and n[-1] == n[0]:
        try:
            return ast.literal_eval(n)
        except Exception:  # noqa
            return None
    return None


def single_atom(v):
    """atom id of a value that is exactly one atom (coefficient 1, exponent 1), else None"""
    if not is_rat(v):
        return None
    if not v.d.is_const() or v.d.const_value() != 1 or len(v.n.t) != 1:
        return None
    (m, c), = v.n.t.items()
    if c != 1 or len(m) != 1 or m[0][1] != 1:
        return None
    return m[0][0]


def unfn(v):
    """a value that is exactly one opaque application -> (name, [argument values or strings]) else None"""
    a = single_atom(v)
    if a is None:
        return None
    d = F.atom_desc(a)
    if d[0] != "fn":
        return None
    args = []
    for k in d[2]:
        args.append(k if isinstance(k, str) else F.Rat(F._poly_from_key(k[1]), F._poly_from_key(k[2])))
    return d[1], args


def split_call(v):
    """call:NAME(args..., kw:K(v)...) -> (NAME, [positional], {K: v}) else None"""
    u = unfn(v)
    if u is None or not u[0].startswith("call:"):
        return None
    pos, kw = [], {}
    for a in u[1]:
        ua = unfn(a) if not isinstance(a, str) else None
        if ua is not None and ua[0].startswith("kw:"):
            kw[ua[0][3:]] = ua[1][0]
        else:
            pos.append(a)
    return u[0][5:], pos, kw


def untuple(v):
    """tuple(...) application -> list of element values; any other value -> None"""
    u = unfn(v)
    if u is not None and u[0] == "tuple":
        return list(u[1])
    return None


def _atoms_poly(p, out):
    for a in p.atoms():
        if a in out:
            continue
        out.add(a)
        d = F.atom_desc(a)
        if d[0] in ("exp", "sin", "cos", "sqrt"):
            _atoms_poly(F._poly_from_key(d[1]), out)
        elif d[0] == "fn":
            for k in d[2]:
                if not isinstance(k, str):
                    _atoms_poly(F._poly_from_key(k[1]), out)
                    _atoms_poly(F._poly_from_key(k[2]), out)


def atoms_in(v):
    """ids of all atoms that occur anywhere inside a value (tuples and records are entered)"""
    out = set()

    def go(x):
        if is_rat(x):
            _atoms_poly(x.n, out)
            _atoms_poly(x.d, out)
        elif isinstance(x, tuple):
            for y in x:
                go(y)
        elif isinstance(x, NS):
            for y in x.fields.values():
                go(y)
        elif isinstance(x, DictValue):
            for y in x.d.values():
                go(y)
    go(v)
    return out


def mentions(v, w):
    """does the value `w` (one atom) occur anywhere inside `v`"""
    a = single_atom(w)
    return a is not None and a in atoms_in(v)


def texts_in(v):
    """all string constants (and literal pieces of f-strings) that occur inside a value"""
    out = []
    for a in atoms_in(v):
        d = F.atom_desc(a)
        if d[0] == "s" and len(d[1]) >= 2 and d[1][0] in "'\"":
            try:
                s = ast.literal_eval(d[1])
                if isinstance(s, str):
                    out.append(s)
            except Exception:  # noqa
                pass
        elif d[0] == "fn" and d[1] == "fstr" and d[2] and isinstance(d[2][0], str):
            try:
                out.append(ast.literal_eval(d[2][0]))
            except Exception:  # noqa
                pass
    return out


def fn_atoms(v, name):
    """[(atom id, [args])] of every application `name` inside v"""
    out = []
    for a in atoms_in(v):
        d = F.atom_desc(a)
        if d[0] == "fn" and d[1] == name:
            out.append((a, [k if isinstance(k, str) else F.Rat(F._poly_from_key(k[1]), F._poly_from_key(k[2])) for k in d[2]]))
    return out


def factors(v):
    """a value that is one monomial with coefficient c and unit denominator -> (c, [(atom value, exponent)]) else None"""
    if not is_rat(v) or not v.d.is_const() or len(v.n.t) != 1:
        return None
    (m, c), = v.n.t.items()
    return c / v.d.const_value(), [(F.Rat(F.Poly.atom(a)), e) for a, e in m]


def eq(a, b):
    if a is None or b is None or is_unknown(a) or is_unknown(b):
        return False
    if isinstance(a, tuple) or isinstance(b, tuple):
        return isinstance(a, tuple) and isinstance(b, tuple) and len(a) == len(b) and all(eq(x, y) for x, y in zip(a, b))
    if not is_rat(a) or not is_rat(b):
        return a is b
    try:
        return a.equals(b)
    except Unsupported:
        return False


# ------------------------------------------------------------------------------------------------ facts
class Facts:
    """what the rule assumes about values in the regime it evaluates: truth of opaque booleans, sign of quantities"""

    def __init__(self):
        self.truth = []    # (value, bool)
        self.sign = []     # (value, 'pos' | 'zero' | 'neg')
        self.intvec = []   # values that are one-dimensional arrays of integer positions (index vectors, not masks)
        self.keys = []     # (mapping value, key value, present): what the regime says about the content of a mapping the function is handed

    def lookup_key(self, m, k):
        for mm, kk, present in self.keys:
            if eq(m, mm) and eq(k, kk):
                return present
        return None

    def lookup_truth(self, v):
        for w, t in self.truth:
            if eq(v, w):
                return t
        return None

    def lookup_sign(self, v):
        for w, s in self.sign:
            if eq(v, w):
                return s
            try:
                if eq(v, -w):
                    return {"pos": "neg", "neg": "pos", "zero": "zero"}[s]
            except Unsupported:
                pass
        return None


# ------------------------------------------------------------------------------------------------ evaluator
class _Ctl(Exception):
    pass


class _Raised(_Ctl):
    """an exception the evaluated code raises for certain in the regime evaluated (a key the facts say is absent): unwinds to the enclosing
    `try` / `with suppress(...)` of the evaluated code, or ends the function"""

    def __init__(self, kind, node=None):
        super().__init__(kind)
        self.kind, self.node = kind, node


EXC_PARENTS = {"KeyError": ("KeyError", "LookupError", "Exception", "BaseException")}


def _handler_catches(handler_type, kind):
    """does `except <handler_type>` catch an exception of class `kind`"""
    if handler_type is None:
        return True
    names = [dotted(e) for e in handler_type.elts] if isinstance(handler_type, ast.Tuple) else [dotted(handler_type)]
    return any(n is not None and n.split(".")[-1] in EXC_PARENTS.get(kind, (kind, "Exception", "BaseException")) for n in names)


def _local_names(fn):
    out = set()
    if fn is None:
        return out
    a = fn.args
    for x in a.posonlyargs + a.args + a.kwonlyargs:
        out.add(x.arg)
    if a.vararg:
        out.add(a.vararg.arg)
    if a.kwarg:
        out.add(a.kwarg.arg)
    for n in ast.walk(fn):
        if isinstance(n, ast.Name) and isinstance(n.ctx, ast.Store):
            out.add(n.id)
        elif isinstance(n, (ast.FunctionDef, ast.AsyncFunctionDef)) and n is not fn:
            out.add(n.name)
    return out


def _walk_own(fn):
    """the nodes of a function body without those of nested functions / lambdas"""
    todo = list(fn.body)
    while todo:
        n = todo.pop()
        yield n
        for ch in ast.iter_child_nodes(n):
            if not isinstance(ch, (ast.FunctionDef, ast.AsyncFunctionDef, ast.Lambda, ast.ClassDef)):
                todo.append(ch)


def _ends_in_raise(stmts):
    """every way through the statement list ends in `raise` (and none returns)"""
    if not stmts:
        return False
    last = stmts[-1]
    if isinstance(last, ast.Raise):
        return not any(isinstance(x, ast.Return) for s in stmts for x in ast.walk(s))
    if isinstance(last, ast.If) and last.orelse:
        return _ends_in_raise(last.body) and _ends_in_raise(last.orelse) and not any(isinstance(x, ast.Return) for s in stmts[:-1] for x in ast.walk(s))
    return False


class CBEval(AutoEvaluator):
    def __init__(self, fn=None, world=None, facts=None, callv=None, inline=None, objs=(), handler_path=None, depth=0, **kw):
        super().__init__(fn, **kw)
        self.fn = fn
        self.w = world if world is not None else World()
        self.facts = facts if facts is not None else Facts()
        self.callv = callv
        self.inline = dict(inline or {})
        self.depth = depth
        self.localnames = _local_names(fn) | set(objs) | set(self.env)
        self.handler_path = handler_path      # f(try node) -> True: evaluate the handlers instead of the body (the body raised at once)
        self.ctl = None                        # 'continue' | 'break'
        self.raised = None
        self.ambiguous = None                  # an undecided test guards a return: the returned value is not known
        self.active = ()
        self.yields = []                       # values yielded so far (a generator function is the tuple of what it yields)
        self.has_yield = fn is not None and any(isinstance(x, (ast.Yield, ast.YieldFrom)) for x in _walk_own(fn))

    # ------------------------------------------------------------------ small helpers
    def buf_of(self, v):
        n = symname(v)
        return self.w.bufs.get(n) if n is not None else None

    def has_cells(self, bid):
        return any(c[0] == bid for c in self.w.cells)

    def deref(self, v):
        """a buffer nothing has been stored into yet is the value it was created from"""
        seen = 0
        while seen < 8:
            b = self.buf_of(v)
            if b is None or b.init is None or self.has_cells(b.bid):
                return v
            v = b.init
            seen += 1
        return v

    hint = None

    def new_buf(self, name, init, st, shape=None):
        if name == "@" and self.hint:
            name = self.hint          # readable ids only: the array is an object, not a name
        self.w.nbuf += 1
        bid = f"{name}#{self.w.nbuf}"
        b = Buf(bid, name, init, shape, st)
        self.w.bufs[bid] = b
        return b

    def as_rat(self, v):
        """a value as a formula (records and tuples become opaque atoms); Unknown stays Unknown"""
        if is_unknown(v) or is_rat(v):
            return v
        if isinstance(v, tuple):
            xs = [self.as_rat(x) for x in v]
            for x in xs:
                if is_unknown(x):
                    return x
            return F.fn("tuple", *xs)
        if isinstance(v, NS):
            return v.sym
        if isinstance(v, DictValue):
            xs = []
            for k, x in v.d.items():
                x = self.as_rat(x)
                if is_unknown(x):
                    return x
                xs.append(F.fn("item:" + repr(k), x))
            return F.fn("dict", *xs)
        if isinstance(v, Closure):
            return F.sym(f"<closure {v.node.name}>")
        if v is None:
            return NONE
        return Unknown(f"value {type(v).__name__}")

    def length(self, v):
        """number of entries along the first axis: one value for len(x), x.shape[0], np.size(x, 0), np.shape(x)[0]"""
        return self.dim(v, F.const(0))

    def dim(self, x, k):
        """X.shape[k] as a value.  An array created with a stated shape has that shape; a selection X[np.ix_(r, c)] / X[r] / X[:, c] by integer index
        vectors (the facts say which values are; index vectors by construction are) has their lengths; a full slice keeps the axis"""
        if not (is_rat(k) and k.is_const() and k.const_value().denominator == 1) or not is_rat(x):
            return F.fn("dim", x, k)
        ki = int(k.const_value())
        b = self.buf_of(x)
        if b is not None and isinstance(b.shape, tuple) and b.shape and b.shape[0] != "like" and 0 <= ki < len(b.shape) and is_rat(b.shape[ki]):
            return b.shape[ki]
        if b is not None and isinstance(b.shape, tuple) and len(b.shape) == 2 and b.shape[0] == "like" and is_rat(b.shape[1]):
            return self.dim(b.shape[1], k)
        if b is not None and not self.has_cells(b.bid) and is_rat(b.init) and not b.init.is_const() and b.shape is None:
            x = self.deref(x)
        u = unfn(x)
        if u is not None and u[0] == "attr:T" and ki in (0, 1):
            return self.dim(u[1][0], F.const(1 - ki))
        if u is not None and u[0] == "idx" and ki >= 0:
            base, ix = u[1]
            sc = split_call(ix)
            sel = list(sc[1]) if sc is not None and sc[0] == "np.ix_" and not sc[2] else (untuple(ix) or [ix])
            if sc is not None and sc[0] != "np.ix_":
                sel = [ix]
            if ki < len(sel) and all(is_rat(s_) for s_ in sel[:ki + 1]):
                # every selector up to axis ki must keep its axis (a vector or a slice; an integer would drop one)
                if all(self.is_index_vector(s_) or _full_slice(s_) for s_ in sel[:ki]):
                    if _full_slice(sel[ki]):
                        return self.dim(base, k)
                    if self.is_index_vector(sel[ki]):
                        return self.length(sel[ki])
            elif ki >= len(sel) and all(is_rat(s_) and (self.is_index_vector(s_) or _full_slice(s_)) for s_ in sel):
                return self.dim(base, k)
        return F.fn("dim", x, k)

    def is_index_vector(self, v):
        """is the value certainly a one-dimensional array of integer positions (not a mask, not a scalar)"""
        if any(eq(v, w) for w in self.facts.intvec):
            return True
        u = unfn(v)
        if u is None:
            return False
        if u[0] in ("arange0", "nonzero0", "call:locate.flippv", "call:np.flatnonzero", "call:np.argsort"):
            return True
        if u[0] == "cat":
            return all(is_rat(x) and self.is_index_vector(x) for x in u[1])
        if u[0] in ("call:np.sort", "call:np.unique", "call:np.flip") and u[1] and is_rat(u[1][0]):
            return self.is_index_vector(u[1][0])
        if u[0] == "idx" and is_rat(u[1][0]) and is_rat(u[1][1]):
            return self.is_index_vector(u[1][0]) and (self.is_index_vector(u[1][1]) or _is_mask(u[1][1]))
        return False

    def dims_of(self, v):
        """(dim(v, 0), ..., dim(v, n-1)) when the facts state the number n of axes of v, else None"""
        nd = F.fn("attr:ndim", v)
        for n in range(1, 5):
            if self.facts.lookup_sign(nd - n) == "zero":
                return tuple(self.dim(v, F.const(i)) for i in range(n))
        return None

    def size_of(self, v):
        """x.size: the length of x when x is known to be one-dimensional (flattened on the way, or an index vector by construction)"""
        if is_rat(v) and self.is_flat(v):
            return self.length(v)
        return F.fn("attr:size", v)

    def is_flat(self, v):
        a = single_atom(v)
        if a is not None and a in self.w.flat:
            return True
        u = unfn(v)
        if u is not None and u[0] in ("arange0", "nonzero0", "cat", "call:locate.flippv", "call:np.flatnonzero", "call:np.argsort", "call:np.sort") \
                and not any((not isinstance(x, str)) and unfn(x) is not None and unfn(x)[0] == "kw:axis" for x in u[1]):
            return u[0] not in ("call:np.argsort", "call:np.sort") or (bool(u[1]) and is_rat(u[1][0]) and self.is_flat(u[1][0]))
        return False

    def is_object_root(self, name):
        return name in self.localnames or name in self.env

    # ------------------------------------------------------------------ expressions
    def ev(self, node):
        try:
            return self._ev(node)
        except Unsupported as e:
            return Unknown(str(e))
        except (TypeError, ValueError, ZeroDivisionError, AttributeError, KeyError, IndexError) as e:
            return Unknown(f"not lowered ({type(e).__name__}: {e}) at `{ast.unparse(node)[:60]}`")

    def _index_value(self, sl):
        elts = None
        if isinstance(sl, ast.Tuple):
            elts = [self._norm_index_item(self._index_elt(e)) for e in sl.elts]
        else:
            v = self._index_elt(sl)
            if isinstance(v, tuple):
                elts = [self._norm_index_item(x) for x in v]
            else:
                t = untuple(v)
                if t is not None:
                    elts = t
                else:
                    return _mask_of_positions(v)
        return self._pack_index(elts)

    @staticmethod
    def _pack_index(elts):
        """canonical value of an index given item by item: trailing full slices (and a trailing `...`) select everything that is left"""
        elts = list(elts)
        full = F.fn("slice", NONE, NONE, NONE)
        while elts and (eq(elts[-1], full) or eq(elts[-1], F.sym("Ellipsis"))):
            elts.pop()
        if len(elts) == 2 and _is_vector_index(elts[1]):
            u0 = unfn(elts[0])
            if u0 is not None and u0[0] == "idx" and _is_vector_index(u0[1][0]):
                t0 = untuple(u0[1][1])
                if t0 is not None and len(t0) == 2 and eq(t0[0], full) and (eq(t0[1], NONE) or symname(t0[1]) == "np.newaxis"):
                    return F.fn("call:np.ix_", u0[1][0], elts[1])          # X[r[:, None], c]: the open mesh np.ix_(r, c) written by hand
        if not elts:
            return full
        if len(elts) == 1:
            return elts[0]
        return F.fn("tuple", *elts)

    def _norm_index_item(self, x):
        x = self.as_rat(x)
        if is_unknown(x):
            raise Unsupported(x.why)
        return _mask_of_positions(x)

    def _index_elt(self, e):
        if isinstance(e, ast.Slice):
            parts = []
            for p in (e.lower, e.upper, e.step):
                if p is None:
                    parts.append(NONE)
                else:
                    v = self._ev(p)
                    if is_unknown(v):
                        raise Unsupported(v.why)
                    parts.append(self._norm_index_item(v))
            return F.fn("slice", *parts)
        v = self._ev(e)
        if is_unknown(v):
            raise Unsupported(v.why)
        if isinstance(v, tuple):
            return v
        return self._norm_index_item(v)

    def _ev(self, node):
        """the value of an expression; an array nothing has been stored into yet is the value it was created from"""
        v = self._ev_raw(node)
        return self.deref(v) if is_rat(v) else v

    def ev_ref(self, node):
        """the value of an expression in a place where an array is handed on as the object it is (right-hand side of an assignment, element of
        a display, argument of a function that is followed)"""
        try:
            return self._ev_raw(node)
        except Unsupported as e:
            return Unknown(str(e))
        except (TypeError, ValueError, ZeroDivisionError, AttributeError, KeyError, IndexError) as e:
            return Unknown(f"not lowered ({type(e).__name__}: {e}) at `{ast.unparse(node)[:60]}`")

    def _ev_raw(self, node):
        if isinstance(node, ast.Name):
            n = node.id
            if n in self.env:
                return self.env[n]
            if self.module_consts and n in self.module_consts and n not in self._folding:
                self._folding.add(n)
                try:
                    return self._ev(self.module_consts[n])
                finally:
                    self._folding.discard(n)
            c = self._math_const(n)
            if c is not None:
                return c
            if self.aliases is not None and n in self.aliases["member"] and not self.is_object_root(n) and n not in self.inline:
                return F.sym(self.aliases["member"][n])          # `from collections.abc import MutableMapping`: the same value as abc.MutableMapping
            return F.sym(n)
        if isinstance(node, ast.Constant) and isinstance(node.value, bytes):
            return F.sym(repr(node.value))
        if isinstance(node, ast.BinOp) and not isinstance(node.op, (ast.Mod, ast.FloorDiv, ast.BitAnd, ast.BitOr, ast.BitXor, ast.LShift, ast.RShift)):
            return self.binop_values(node.op, self._ev(node.left), self._ev(node.right))
        if isinstance(node, ast.BinOp):
            a, b = self._ev(node.left), self._ev(node.right)
            if isinstance(node.op, (ast.BitAnd, ast.BitOr)) and is_rat(a) and is_rat(b):
                return _mask(type(node.op).__name__, a, b)
            a, b = self.as_rat(a), self.as_rat(b)
            if is_unknown(a) or is_unknown(b):
                return a if is_unknown(a) else b
            if a.is_const() and b.is_const() and isinstance(node.op, (ast.Mod, ast.FloorDiv)) and b.const_value() != 0 \
                    and a.const_value().denominator == 1 and b.const_value().denominator == 1:
                x, y = int(a.const_value()), int(b.const_value())
                return F.const(x % y if isinstance(node.op, ast.Mod) else x // y)
            return F.fn("op:" + type(node.op).__name__, a, b)
        if isinstance(node, ast.UnaryOp) and isinstance(node.op, ast.Invert):
            v = self._ev(node.operand)
            if not is_rat(v):
                return v if is_unknown(v) else Unknown("invert of a non-formula")
            return _invert(v)
        if isinstance(node, ast.Attribute):
            return self._attribute(node)
        if isinstance(node, ast.Subscript):
            return self._subscript(node)
        if isinstance(node, ast.IfExp):
            c = self.decide(node.test)
            if c is True:
                return self._ev_raw(node.body)
            if c is False:
                return self._ev_raw(node.orelse)
            a, b = self.ev(node.body), self.ev(node.orelse)
            if eq(a, b):
                return a
            t = self.as_rat(self.ev(node.test))
            a, b = self.as_rat(a), self.as_rat(b)
            if is_unknown(t) or is_unknown(a) or is_unknown(b):
                return Unknown(f"undecided conditional {ast.unparse(node.test)}")
            return F.fn("ite", t, a, b)
        if isinstance(node, (ast.GeneratorExp, ast.ListComp, ast.SetComp)):
            return self._comprehension(node, node.elt, None)
        if isinstance(node, ast.DictComp):
            return self._comprehension(node, node.value, node.key)
        if isinstance(node, ast.Dict):
            if all(k is not None for k in node.keys):
                d = {}
                for k, v in zip(node.keys, node.values):
                    kv = self.ev(k)
                    s = strconst(kv)
                    if s is None:
                        if is_rat(kv) and kv.is_const():
                            s = kv.const_value()
                        else:
                            return Unknown("dict display with a computed key")
                    d[s] = self.ev_ref(v)
                return DictValue(d)
            return Unknown("dict display with **")
        if isinstance(node, ast.Starred):
            v = self.ev(node.value)
            if isinstance(v, tuple):
                return v
            v = self.as_rat(v)
            return v if is_unknown(v) else F.fn("star", v)
        if isinstance(node, ast.Yield):
            self.yields.append(self.ev_ref(node.value) if node.value is not None else NONE)
            return NONE
        if isinstance(node, ast.YieldFrom):
            v = self.ev(node.value)
            if isinstance(v, tuple):
                self.yields.extend(v)
            else:
                self.ambiguous = "yield from a sequence of unknown length"
            return NONE
        if isinstance(node, ast.Lambda):
            # a lambda is a closure whose body is one return statement
            fd = ast.FunctionDef(name="<lambda>", args=node.args, body=[ast.Return(value=node.body)], decorator_list=[], returns=None, type_comment=None)
            ast.copy_location(fd, node)
            ast.copy_location(fd.body[0], node)
            for att in ("_vmod", "_vparent"):
                if hasattr(node, att):
                    setattr(fd, att, getattr(node, att))
            return Closure(fd, self)
        if isinstance(node, ast.Compare) and len(node.ops) == 1:
            a, b = self.as_rat(self._ev(node.left)), self.as_rat(self._ev(node.comparators[0]))
            if is_unknown(a) or is_unknown(b):
                return a if is_unknown(a) else b
            return _cmp(type(node.ops[0]).__name__, a, b)
        if isinstance(node, (ast.Tuple, ast.List)) and len(node.elts) >= 2 and all(isinstance(e, ast.Starred) for e in node.elts):
            # [*a, *b]: the elements of a followed by those of b
            xs = [self.ev(e.value) for e in node.elts]
            if all(is_rat(x) and not x.is_const() for x in xs):
                return F.fn("cat", *xs)
        if isinstance(node, (ast.Tuple, ast.List)):
            out = []
            for e in node.elts:
                if isinstance(e, ast.Starred):
                    v = self.ev(e.value)
                    if isinstance(v, tuple):
                        out.extend(v)
                    else:
                        return Unknown("starred element of unknown length")
                else:
                    out.append(self.ev_ref(e))
            return PyList(out) if isinstance(node, ast.List) else PyTuple(out)
        return super()._ev(node)

    def _math_const(self, d):
        """the value of a dotted name that is a constant of the math / numpy modules (however the module or the constant was imported), else None"""
        root = d.split(".")[0]
        if self.is_object_root(root):
            return None
        c = MATH_CONSTS.get(self._canon_name(d))          # a bare name counts only when the import table says it is a member of math / numpy
        return c() if c is not None else None

    def binop_values(self, op, a, b):
        if is_unknown(a):
            return a
        if is_unknown(b):
            return b
        if isinstance(a, PyList) and isinstance(b, (PyList, tuple)) and isinstance(op, ast.Add):
            return PyList(tuple(a) + tuple(b))
        if isinstance(a, PyTuple) and isinstance(b, PyTuple) and isinstance(op, ast.Add):
            return PyTuple(tuple(a) + tuple(b))
        if isinstance(a, PyTuple) and is_rat(b) and b.is_const() and isinstance(op, ast.Mult) and b.const_value().denominator == 1:
            return PyTuple(tuple(a) * int(b.const_value()))
        if isinstance(a, PyList) and is_rat(b) and b.is_const() and isinstance(op, ast.Mult) and b.const_value().denominator == 1:
            return PyList(tuple(a) * int(b.const_value()))
        if isinstance(a, tuple) and isinstance(b, tuple) and isinstance(op, ast.MatMult):
            if len(a) != len(b):
                return Unknown("dot of vectors of different length")
            tot = F.const(0)
            for x, y in zip(a, b):
                if not is_rat(x) or not is_rat(y):
                    return Unknown("dot of non-formulas")
                tot = tot + x * y
            return tot
        if isinstance(a, tuple) or isinstance(b, tuple):
            if not (isinstance(a, tuple) or is_rat(a)) or not (isinstance(b, tuple) or is_rat(b)):
                return Unknown("arithmetic on a record")
            return _vec_binop(op, a, b)
        if not is_rat(a) or not is_rat(b):
            return Unknown(f"arithmetic on {type(a).__name__} / {type(b).__name__}")
        if isinstance(op, ast.Add):
            return a + b
        if isinstance(op, ast.Sub):
            return a - b
        if isinstance(op, (ast.Mult, ast.MatMult)):
            return a * b
        if isinstance(op, ast.Div):
            if b.is_zero():
                return Unknown("division by zero")
            return a / b
        if isinstance(op, ast.Pow):
            if not b.is_const() and a.is_const() and a.const_value() > 0:
                return _const_pow(a.const_value(), b)
            return a ** b
        return Unknown(f"operator {type(op).__name__}")

    def _attribute(self, node):
        d = dotted(node)
        if d is not None:
            if d in self.env:
                return self.env[d]
            c = self._math_const(d)
            if c is not None:
                return c
            root = d.split(".")[0]
            if not self.is_object_root(root):
                if self.module_consts and root in self.module_consts:
                    pass
                else:
                    return F.sym(self._canon_name(d))          # a member of a module, by its canonical name (however the module was imported)
        base = self._ev(node.value)
        if isinstance(base, NS):
            if node.attr in base.fields:
                return base.fields[node.attr]
            return Unknown(f"record without field {node.attr}")
        if is_unknown(base):
            return base
        if isinstance(base, tuple):
            if node.attr == "T":
                return base
            return Unknown(f"attribute of a tuple {ast.unparse(node)}")
        if not is_rat(base):
            return Unknown(f"attribute of {type(base).__name__}")
        if node.attr == "T":
            return self._transpose(base)
        if node.attr == "real":
            return base
        if node.attr == "size":
            return self.size_of(base)
        return F.fn("attr:" + node.attr, base)

    def _transpose(self, v):
        if self.erase_T or not is_rat(v):
            return v
        if v.is_const():
            return v
        u = unfn(v)
        if u is not None and u[0] == "attr:T":
            return u[1][0]
        return F.fn("attr:T", v)

    def _subscript(self, node):
        if self.subscript is not None:
            r = self.subscript(node, self)
            if r is not NotImplemented:
                return r
        # X.shape[k]
        if isinstance(node.value, ast.Attribute) and node.value.attr == "shape":
            k = self.ev(node.slice) if not isinstance(node.slice, (ast.Slice, ast.Tuple)) else None
            if is_rat(k) and k.is_const():
                x = self._ev(node.value.value)
                if is_rat(x):
                    return self.dim(self._ev_raw(node.value.value), k)
        if isinstance(node.slice, ast.Slice):
            # X.shape[k:] / np.shape(X)[:k] when the facts say how many axes X has: the tuple of its dimensions, sliced
            shp = None
            if isinstance(node.value, ast.Attribute) and node.value.attr == "shape":
                shp = self._ev(node.value.value)
            elif isinstance(node.value, ast.Call) and self._canon_name(dotted(node.value.func)) == "np.shape" and len(node.value.args) == 1:
                shp = self._ev(node.value.args[0])
            dims = self.dims_of(shp) if is_rat(shp) else None
            if dims is not None:
                bounds = []
                for p_ in (node.slice.lower, node.slice.upper, node.slice.step):
                    bv = None if p_ is None else self.ev(p_)
                    if bv is not None and not (is_rat(bv) and bv.is_const() and bv.const_value().denominator == 1):
                        bounds = None
                        break
                    bounds.append(None if bv is None else int(bv.const_value()))
                if bounds is not None:
                    return tuple(dims[slice(*bounds)])
        if dotted(node.value) in ("np.r_", "numpy.r_") and not self.is_object_root("np"):
            # the index trick np.r_[a, b, ...] concatenates one-dimensional pieces
            elts = node.slice.elts if isinstance(node.slice, ast.Tuple) else [node.slice]
            if not any(isinstance(e, (ast.Slice, ast.Starred)) or (isinstance(e, ast.Constant) and isinstance(e.value, str)) for e in elts):
                xs = [self.as_rat(self.ev(e)) for e in elts]
                if all(is_rat(x) and not x.is_const() for x in xs):
                    return F.fn("cat", *xs)
        base = self._ev(node.value)
        if is_unknown(base):
            return base
        if isinstance(base, LocalsValue):
            s = strconst(self.ev(node.slice))
            if s is None:
                return Unknown("locals() with a computed key")
            return base.owner._ev(ast.Name(id=s, ctx=ast.Load()))
        if isinstance(base, DictValue):
            kv = self.ev(node.slice)
            s = strconst(kv)
            if s is None and is_rat(kv) and kv.is_const():
                s = kv.const_value()
            if s is not None and s in base.d:
                return base.d[s]
            return Unknown(f"key {ast.unparse(node.slice)} of a literal table")
        if isinstance(base, tuple):
            if not isinstance(node.slice, (ast.Slice, ast.Tuple)):
                k = self.ev(node.slice)
                if is_rat(k) and k.is_const() and k.const_value().denominator == 1:
                    try:
                        return base[int(k.const_value())]
                    except IndexError:
                        return Unknown("tuple index out of range")
                kk, bb = self.as_rat(k), self.as_rat(base)
                if is_rat(kk) and is_rat(bb):
                    return F.fn("select", bb, kk)
            return super(AutoEvaluator, self)._ev(node)
        if not is_rat(base):
            return Unknown(f"subscript of {type(base).__name__}")
        try:
            ix = self._index_value(node.slice)
        except Unsupported as e:
            return Unknown(str(e))
        u = unfn(base)
        if u is not None and u[0] == "attr:shape" and is_rat(ix) and ix.is_const():
            return self.dim(u[1][0], ix)
        ix = self._expand_ellipsis(base, ix)
        if u is not None and u[0] == "attr:T" and is_rat(ix) and untuple(ix) is None and (_is_vector_index(ix) or _is_slice(ix)):
            # rows of the transpose are columns: X.T[r] is X[:, r].T
            return self._transpose(F.fn("idx", u[1][0], F.fn("tuple", F.fn("slice", NONE, NONE, NONE), ix)))
        ch = _chained(base, ix)
        if ch is not None:
            return ch
        if self.facts.keys and is_rat(ix) and self.facts.lookup_key(base, ix) is False:
            raise _Raised("KeyError", node)
        pushed = self._push_index(base, ix)
        if pushed is not None:
            return pushed
        b = self.buf_of(base)
        if b is not None and self.forward_stores:
            last = None
            for c in self.w.cells:
                if c[0] == b.bid:
                    last = c
            if last is not None and is_rat(last[1]) and eq(last[1], ix):
                return last[2]
        return F.fn("idx", base, ix)

    def _expand_ellipsis(self, base, ix):
        """X[..., c] with the number of axes of X stated by the facts: the `...` written out as full slices (X[:, c] for a matrix)"""
        t = untuple(ix) if is_rat(ix) else None
        if t is None or not any(symname(x) == "Ellipsis" for x in t if is_rat(x)):
            return ix
        dims = self.dims_of(base)
        if dims is None or sum(1 for x in t if symname(x) == "Ellipsis") != 1:
            return ix
        k = [i for i, x in enumerate(t) if symname(x) == "Ellipsis"][0]
        nfill = len(dims) - (len(t) - 1)
        if nfill < 0:
            return ix
        full = F.fn("slice", NONE, NONE, NONE)
        return self._pack_index(list(t[:k]) + [full] * nfill + list(t[k + 1:]))

    def _push_index(self, base, ix):
        """(c X^n)[i] is c X[i]^n for one array X and scalars c (numbers, pi, the imaginary unit), also with X in a denominator: selecting elements
        commutes with element-wise operations on a single array, so `w2 = Omega ** 2; w2[nz]` and `Omega[nz] ** 2` are one value"""
        if not is_rat(base) or not is_rat(ix) or len(base.n.t) != 1 or len(base.d.t) != 1:
            return None
        scal = F.const(1)
        arrays = {}
        for poly, sgn in ((base.n, 1), (base.d, -1)):
            (mono, c), = poly.t.items()
            scal = scal * F.const(c) if sgn == 1 else scal / F.const(c)
            for a, e in mono:
                av = F.Rat(F.Poly.atom(a))
                if eq(av, F.I) or symname(av) in ("pi",):
                    scal = scal * av ** e if sgn == 1 else scal / av ** e
                else:
                    arrays[a] = arrays.get(a, 0) + sgn * e
        if len(arrays) != 1:
            return None
        (a, e), = arrays.items()
        av = F.Rat(F.Poly.atom(a))
        if (e == 1 and scal.is_const() and scal.const_value() == 1) or e == 0:
            return None          # a plain array: nothing to push through
        if self.buf_of(av) is not None:
            return None
        sel = F.fn("idx", av, ix)
        return scal * sel ** e if e > 0 else scal / sel ** (-e)

    def _comprehension(self, node, elt, key):
        if len(node.generators) != 1 or node.generators[0].is_async:
            return Unknown("comprehension with several generators")
        g = node.generators[0]
        items = self._iter_items(g.iter)
        if items is None:
            return Unknown(f"comprehension over {ast.unparse(g.iter)[:40]}")
        saved = dict(self.env)
        out, dout = [], {}
        try:
            for it in items:
                self._bind_target(g.target, it, node)
                if any(self.decide(c) is False for c in g.ifs):
                    continue
                if any(self.decide(c) is None for c in g.ifs):
                    return Unknown("comprehension with an undecided filter")
                v = self.ev(elt)
                if key is not None:
                    kv = self.ev(key)
                    s = strconst(kv)
                    if s is None:
                        return Unknown("dict comprehension with a computed key")
                    dout[s] = v
                else:
                    out.append(v)
        finally:
            for t in ast.walk(g.target):
                if isinstance(t, ast.Name):
                    if t.id in saved:
                        self.env[t.id] = saved[t.id]
                    else:
                        self.env.pop(t.id, None)
        if key is not None:
            return DictValue(dout)
        return PyList(out) if isinstance(node, ast.ListComp) else tuple(out)

    def _iter_items(self, it):
        """the items of an iterable of statically known length (tuple of values) or None"""
        if isinstance(it, ast.Call):
            d = dotted(it.func)
            if d == "enumerate" and it.args:
                xs = self._iter_items(it.args[0])
                if xs is None:
                    return None
                start = 0
                if len(it.args) > 1:
                    s = self.ev(it.args[1])
                    if not (is_rat(s) and s.is_const()):
                        return None
                    start = int(s.const_value())
                return [(F.const(start + i), x) for i, x in enumerate(xs)]
            if d == "zip" and it.args:
                cols = [self._iter_items(a) for a in it.args]
                if any(c is None for c in cols):
                    return None
                return [tuple(r) for r in zip(*cols)]
            if d == "range" and 1 <= len(it.args) <= 3:
                bs = [self.ev(a) for a in it.args]
                if all(is_rat(b) and b.is_const() and b.const_value().denominator == 1 for b in bs):
                    r = range(*[int(b.const_value()) for b in bs])
                    if len(r) <= 16:
                        return [F.const(k) for k in r]
                return None
        v = self.ev(it)
        if isinstance(v, tuple):
            return list(v)
        if isinstance(v, DictValue):
            return [F.sym(repr(k)) for k in v.d]
        return None

    def _bind_target(self, t, v, st):
        if isinstance(t, ast.Name):
            if t.id not in self.pinned:
                self.env[t.id] = v
        else:
            self._assign(t, v, st)

    # ------------------------------------------------------------------ calls
    aliases = None       # import table of the module: local name -> canonical dotted name (see import_aliases)

    def _canon_name(self, d):
        """the canonical spelling of a dotted call name: the way a module / function was imported does not matter"""
        if d is None or self.aliases is None:
            return d
        root, _, rest = d.partition(".")
        if self.is_object_root(root) or root in self.inline:
            return d
        if rest:
            m = self.aliases["module"].get(root)
            if m is None and "." in rest and root not in self.aliases["member"]:
                # package.module.member written out in full (np.linalg.solve, collections.abc.MutableMapping): the module by its canonical name
                mod_, _, last = d.rpartition(".")
                return _canon_mod(mod_) + "." + last
            return d if m is None else m + "." + rest
        return self.aliases["member"].get(root, d)

    def _callee(self, fv):
        """a value that is called -> (call name, closure, leading positional values, keyword values) or None.  A `functools.partial` carries leading
        arguments, a bound method held in a name (`write = f.write`) is the method call on its object, a function held in a name
        (`vw = writer.vecwrite`) is that function"""
        pre_pos, pre_kws = [], {}
        while isinstance(fv, Partial):
            pre_pos = list(fv.pos) + pre_pos
            pre_kws = {**fv.kws, **pre_kws}
            fv = fv.func
        if isinstance(fv, Closure):
            return None, fv, pre_pos, pre_kws
        if is_rat(fv):
            u = unfn(fv)
            if u is not None and u[0].startswith("attr:") and len(u[1]) == 1 and is_rat(u[1][0]):
                return "." + u[0][5:], None, [u[1][0]] + pre_pos, pre_kws
            n = symname(fv)
            if n is not None and strconst(fv) is None and not n.startswith(("%", "<", "ns#")) and "#" not in n:
                return self._canon_name(n), None, pre_pos, pre_kws
        return None

    def _call(self, node):
        func = node.func
        d = self._canon_name(dotted(func))
        recv = None
        name, closure, pre_pos, pre_kws = d, None, [], {}
        if isinstance(func, ast.Attribute) and (d is None or self.is_object_root(dotted(func).split(".")[0])):
            recv = self.ev_ref(func.value) if func.attr in ("copy", "astype", "__setitem__") else self.ev(func.value)
            name = "." + func.attr
        elif not isinstance(func, ast.Attribute):
            # a name bound in this activation, or any other expression that yields something callable (a lambda called on the spot, `(f if c else g)(x)`)
            if isinstance(func, ast.Name):
                fv = self.env.get(func.id)
                if fv is None and self.module_consts and func.id in self.module_consts and func.id not in self.inline:
                    fv = self.ev(func)          # a module-level name bound to a function of another module (`_flip = locate.flippv`)
                    if not (is_rat(fv) and symname(fv) is not None and "." in symname(fv)):
                        fv = None
            else:
                fv = self.ev(func)
            c = self._callee(fv) if fv is not None else None
            if c is not None:
                name, closure, pre_pos, pre_kws = c
            elif not isinstance(func, ast.Name):
                return Unknown(f"call of {ast.unparse(func)[:40]}")
        if name is None and closure is None:
            return Unknown(f"call of {ast.unparse(func)[:40]}")
        # ---- arguments, evaluated once (an array handed to a function that is followed is handed over as the object it is)
        followed = closure is not None or (recv is None and name in self.inline) or name in LIKE
        first_ref = name in ("np.put", "operator.setitem")          # the array stored into is handed over as the object it is
        pos, kws = [], dict(pre_kws)
        if recv is not None:
            pos.append(recv)
        pos.extend(pre_pos)
        for a in node.args:
            if (followed or (first_ref and a is node.args[0])) and not isinstance(a, ast.Starred):
                pos.append(self.ev_ref(a))
                continue
            if isinstance(a, ast.Starred):
                v = self.ev(a.value)
                if isinstance(v, tuple):
                    pos.extend(v)
                else:
                    v = self.as_rat(v)
                    pos.append(v if is_unknown(v) else F.fn("star", v))
            else:
                pos.append(self.ev(a))
        keep_ref = followed or name in ("SimpleNamespace", "types.SimpleNamespace", "dict")
        for k in node.keywords:
            v = self.ev_ref(k.value) if keep_ref else self.ev(k.value)
            if k.arg is None:
                if isinstance(v, DictValue):
                    kws.update(v.d)
                elif isinstance(v, NS):
                    kws.update(v.fields)
                else:
                    kws["**"] = v
            else:
                kws[k.arg] = v
        return self._dispatch(name, pos, kws, node, closure)

    def _dispatch(self, name, pos, kws, node, closure=None):
        """the value of a call, given the callee and the argument values"""
        if closure is not None:
            r = self._follow(closure.node, node, pos=pos, kws=kws, closure=closure)
            return Unknown(f"call of the local function {closure.node.name} not followed") if r is NotImplemented else r
        # ---- callables as values
        if name in ("functools.partial", "partial") and pos and self._callee(pos[0]) is not None:
            return Partial(pos[0], pos[1:], kws)
        if name == "map" and len(pos) >= 2 and not kws and all(isinstance(x, tuple) for x in pos[1:]):
            c = self._callee(pos[0])
            if c is not None:
                return tuple(self._dispatch(c[0], c[2] + list(row), dict(c[3]), node, c[1]) for row in zip(*pos[1:]))
        # ---- other spellings of f.write(text) and of X[i] = v
        if name == "print" and "file" in kws and is_rat(kws["file"]) and not eq(kws["file"], NONE) and all(is_rat(x) for x in pos):
            end = kws.get("end", F.sym(repr("\n")))
            text = pos[0] if len(pos) == 1 else (F.fn("printargs", *pos) if pos else F.sym("''"))
            if is_rat(end) and strconst(end) != "":
                text = self.binop_values(ast.Add(), text, end)
            self._record(".write", [kws["file"], text], {}, node)
            return NONE
        if name == ".writelines" and len(pos) == 2 and isinstance(pos[1], tuple) and not kws:
            for x in pos[1]:
                self._record(".write", [pos[0], x], {}, node)
            return NONE
        if name in ("operator.setitem", ".__setitem__") and len(pos) == 3 and not kws and is_rat(pos[0]):
            self._store_value(pos[0], pos[1], pos[2], node)
            return NONE
        if name == "np.put" and len(pos) == 3 and not kws and is_rat(pos[0]):
            b0 = self.buf_of(pos[0])
            if b0 is not None and isinstance(b0.shape, tuple) and len(b0.shape) == 1:
                self._store_value(pos[0], pos[1], pos[2], node)          # on a one-dimensional array np.put(A, i, v) is A[i] = v
                return NONE
        if name == "locate.flippv" and len(pos) == 2 and not kws and is_rat(pos[0]):
            # the complement of pv in range(n) does not depend on the order of pv or on repeated entries
            sc0 = split_call(pos[0])
            if sc0 is not None and sc0[0] in ("np.sort", "np.unique", "sorted", "np.flip", "np.flipud") and len(sc0[1]) == 1 and not sc0[2] and is_rat(sc0[1][0]):
                return self._dispatch(name, [sc0[1][0], pos[1]], {}, node)
        if name == "ytools.mkpattvec":
            # mkpattvec(start, stop, inc) is start[:, None] + arange(0, stop, inc): a constant offset of the start values is an offset of the
            # result, so mkpattvec([3, 4, 5], n, 6) and mkpattvec([0, 1, 2], n, 6) + 3 are one value
            p2, k2 = self._canon_args(name, pos, kws)
            if not k2 and len(p2) == 3 and isinstance(p2[0], tuple) and p2[0] and all(is_rat(x) and x.is_const() for x in p2[0]):
                lo = min(x.const_value() for x in p2[0])
                if lo != 0:
                    base = self._dispatch(name, [type(p2[0])(x - F.const(lo) for x in p2[0])] + list(p2[1:]), {}, node)
                    return base + F.const(lo) if is_rat(base) else base
        # ---- functions of the same module: follow on the values
        if name in self.inline and self.depth < MAX_DEPTH and self.inline[name] not in self.active and self.inline[name] is not self.fn:
            r = self._follow(self.inline[name], node, pos=pos, kws=kws)
            if r is not NotImplemented:
                return r
        # ---- the rule's model
        if self.callv is not None:
            r = self.callv(name, pos, kws, node, self)
            if r is not NotImplemented:
                self._record(name, pos, kws, node)
                return r
        r = self._builtin(name, pos, kws, node)
        if r is not NotImplemented:
            return r
        self._record(name, pos, kws, node)
        return self._opaque(name, pos, kws)

    def _record(self, name, pos, kws, node):
        self.w.seq += 1
        self.w.calls.append((name, list(pos), dict(kws), node, self.w.seq))

    sigs = None          # f(call name) -> parameter names of a function of another module of the package (keyword == positional), or None

    def _canon_args(self, name, pos, kws):
        """keyword arguments of a call whose signature can be read (a function of a sibling module) go to their positions"""
        if not kws or self.sigs is None or name.startswith("."):
            return pos, kws
        sig = self.sigs(name)
        if not sig:
            return pos, kws
        pos, kws = list(pos), dict(kws)
        while len(pos) < len(sig) and sig[len(pos)] in kws:
            pos.append(kws.pop(sig[len(pos)]))
        return pos, kws

    def _opaque(self, name, pos, kws):
        pos, kws = self._canon_args(name, pos, kws)
        args = []
        for v in pos:
            v = self.as_rat(v)
            if is_unknown(v):
                return v
            args.append(v)
        for k, v in kws.items():
            v = self.as_rat(v)
            if is_unknown(v):
                return Unknown(f"keyword {k}: {v.why}")
            args.append(F.fn("kw:" + k, v))
        return F.fn("call:" + name, *args)

    def _axis_kw(self, pos, kws, first):
        """canonical keywords of a reducer: a positional axis becomes kw axis"""
        kws = dict(kws)
        if len(pos) > first and "axis" not in kws:
            kws["axis"] = pos[first]
            pos = pos[:first] + pos[first + 1:]
        return pos, kws

    def _builtin(self, name, pos, kws, node):
        n = len(pos)
        rat = all(is_rat(x) for x in pos)
        # ---- records
        if name in ("SimpleNamespace", "types.SimpleNamespace") and not pos:
            self._record(name, pos, kws, node)
            return NS(kws, node)
        if name == "dict" and not pos:
            return DictValue(dict(kws))
        if name == "dict" and n == 1 and isinstance(pos[0], DictValue):
            d = dict(pos[0].d)
            d.update(kws)
            return DictValue(d)
        if name == "locals" and not pos:
            return LocalsValue(self)
        if name == ".update" and n >= 1 and isinstance(pos[0], DictValue):
            for x in pos[1:]:
                if isinstance(x, DictValue):
                    pos[0].d.update(x.d)
                else:
                    return Unknown("dict.update with a computed mapping")
            pos[0].d.update(kws)
            return NONE
        if name == ".get" and n >= 2 and isinstance(pos[0], DictValue) and strconst(pos[1]) is not None:
            return pos[0].d.get(strconst(pos[1]), pos[2] if n > 2 else NONE)
        if name == ".get" and 2 <= n <= 3 and not kws and is_rat(pos[0]) and is_rat(pos[1]) and self.facts.keys:
            present = self.facts.lookup_key(pos[0], pos[1])
            if present is True:
                return F.fn("idx", pos[0], pos[1])
            if present is False:
                return pos[2] if n == 3 else NONE
        if name in (".items", ".keys", ".values") and n == 1 and isinstance(pos[0], DictValue) and not kws:
            d = pos[0].d
            if name == ".keys":
                return tuple(F.sym(repr(k)) if isinstance(k, str) else F.const(k) for k in d)
            if name == ".values":
                return tuple(d.values())
            return tuple((F.sym(repr(k)) if isinstance(k, str) else F.const(k), v) for k, v in d.items())
        if name == "vars" and n == 1 and isinstance(pos[0], NS):
            return DictValue(pos[0].fields)
        if name == "getattr" and n >= 2 and strconst(pos[1]) is not None:
            if isinstance(pos[0], NS):
                return pos[0].fields.get(strconst(pos[1]), pos[2] if n > 2 else Unknown("missing field"))
            if is_rat(pos[0]):
                return F.fn("attr:" + strconst(pos[1]), pos[0])
        if name == "setattr" and n == 3 and strconst(pos[1]) is not None and isinstance(pos[0], NS):
            pos[0].fields[strconst(pos[1])] = pos[2]
            return NONE
        if name == "slice" and 1 <= n <= 3 and rat:
            a = list(pos)
            if n == 1:
                a = [NONE, a[0], NONE]
            elif n == 2:
                a = a + [NONE]
            return F.fn("slice", *a)
        if name in ("tuple", "list") and n == 1:
            if isinstance(pos[0], tuple):
                return PyTuple(pos[0]) if name == "tuple" else PyList(pos[0])
        if name in ("tuple", "list") and n == 0 and not kws:
            return PyTuple() if name == "tuple" else PyList()
        if name == "len" and n == 1 and isinstance(pos[0], tuple):
            return F.const(len(pos[0]))
        if name == "len" and n == 1 and is_rat(pos[0]) and not kws:
            t = untuple(pos[0])
            if t is not None:
                return F.const(len(t))
            if strconst(pos[0]) is not None:
                return F.const(len(strconst(pos[0])))
            u0 = unfn(pos[0])
            if u0 is not None and u0[0] == "attr:shape" and len(u0[1]) == 1:
                return F.fn("attr:ndim", u0[1][0])          # len(x.shape) is x.ndim
            return self.length(pos[0])          # len(x) is x.shape[0] is np.size(x, 0)
        if name in ("bool", "int") and n == 1 and is_rat(pos[0]) and pos[0].is_const():
            return pos[0]
        # ---- allocation
        if name in ZERO or name in LIKE:
            fill = ZERO.get(name, LIKE.get(name))
            shape = None
            if name in ZERO and (pos or "shape" in kws):
                shp0 = pos[0] if pos else kws["shape"]
                shape = shp0 if isinstance(shp0, tuple) else (shp0,)
            elif name in LIKE and pos and is_rat(pos[0]):
                b0 = self.buf_of(pos[0])
                shape = b0.shape if b0 is not None else ("like", pos[0])
            return self.new_buf("@", UNINIT if fill is None else F.const(fill), node, shape).sym
        if name in ("np.full", "numpy.full") and (n >= 2 or "fill_value" in kws):
            fv = pos[1] if n >= 2 else kws["fill_value"]
            shp = pos[0] if n >= 1 else kws.get("shape")
            if is_rat(fv) and shp is not None:
                return self.new_buf("@", fv, node, shp if isinstance(shp, tuple) else (shp,)).sym          # np.full(shape, c) is np.zeros / np.ones with another fill
        # ---- identity on the elements
        if name in IDENT_FUNCS and n >= 1:
            if name in ("np.ravel",) and is_rat(pos[0]) and single_atom(pos[0]) is not None:
                self.w.flat.add(single_atom(pos[0]))
            return tuple(pos[0]) if isinstance(pos[0], PyList) else pos[0]
        if name == ".astype" and n == 2 and is_rat(pos[0]) and is_rat(pos[1]) and symname(pos[1]) in ("bool", "np.bool_", "np.bool"):
            return _cmp("NotEq", self.deref(pos[0]), F.const(0))          # truth of an element is `element != 0`
        if name in (".copy", ".astype") and n >= 1 and is_rat(pos[0]):
            b0 = self.buf_of(pos[0])
            x = self.deref(pos[0])
            return self.new_buf("@", x, node, b0.shape if b0 is not None else ("like", x)).sym      # a new array with the same elements
        if name.startswith(".") and name[1:] in IDENT_METHODS and n >= 1:
            if name in (".ravel", ".flatten") and is_rat(pos[0]) and single_atom(pos[0]) is not None:
                self.w.flat.add(single_atom(pos[0]))          # from here on the value stands for a one-dimensional array
            return pos[0]
        if name in ("np.sum", "sum") and n >= 1 and isinstance(pos[0], tuple):
            tot = F.const(0)
            for x in pos[0]:
                if not is_rat(x):
                    return Unknown("sum of non-formulas")
                tot = tot + x
            return tot
        # ---- function form == method form
        if name.startswith("np.") and name[3:] in REDUCERS and n >= 1:
            return self._builtin("." + name[3:], pos, kws, node)
        if name.startswith(".") and name[1:] in REDUCERS and n >= 1 and is_rat(pos[0]):
            p, k = self._axis_kw(pos, kws, 1)
            if name in (".any", ".all", ".nonzero"):
                u0 = unfn(p[0])
                if u0 is not None and u0[0] == "cmp:NotEq" and len(u0[1]) == 2 and is_rat(u0[1][1]) and u0[1][1].is_zero():
                    p = [u0[1][0]] + list(p[1:])          # truth of an element is `element != 0`
            if name == ".all" and "axis" in k and len(p) == 1 and is_rat(p[0]):
                # along an axis: all(m) is ~any(~m); (X == 0).all(axis=0) is ~X.any(axis=0)
                inner = self._builtin(".any", [_invert(p[0])], dict(k), node)
                if is_rat(inner):
                    return _invert(inner)
            if name == ".nonzero":
                b0 = self.buf_of(p[0])
                if b0 is not None and is_rat(b0.init) and b0.init.is_const() and b0.init.const_value() == 1 and isinstance(b0.shape, tuple) \
                        and len(b0.shape) == 1 and is_rat(b0.shape[0]):
                    cl0 = [c for c in self.w.cells if c[0] == b0.bid]
                    if len(cl0) == 1 and is_rat(cl0[0][1]) and is_rat(cl0[0][2]) and cl0[0][2].is_zero() and b0.bid not in self.w.maybe:
                        # all true, false at pv, positions of what is left: locate.flippv(pv, n) written out
                        return (self._dispatch("locate.flippv", [cl0[0][1], b0.shape[0]], {}, node),)
                return (F.fn("nonzero0", p[0]), F.fn("nonzero1", p[0]))
            self._record(name, p, k, node)
            return self._opaque(name, p, k)
        if name in NP_CMP and n == 2 and rat and not kws:
            return _cmp(NP_CMP[name], pos[0], pos[1])
        if name in ("np.take", ".take") and n == 2 and rat and is_rat(kws.get("axis")) and set(kws) == {"axis"} and kws["axis"].is_const():
            ax = kws["axis"].const_value()
            if ax == 0:
                return F.fn("idx", pos[0], pos[1])
            if ax == 1:
                return F.fn("idx", pos[0], F.fn("tuple", F.fn("slice", NONE, NONE, NONE), pos[1]))
        if name == "np.setdiff1d" and n == 2 and rat and not kws:
            u0 = unfn(pos[0])
            if u0 is not None and u0[0] == "arange0" and len(u0[1]) == 1:
                # the sorted values of range(n) that are not in pv: what locate.flippv(pv, n) returns
                return self._dispatch("locate.flippv", [pos[1], u0[1][0]], {}, node)
        if name == "np.flatnonzero" and n == 1 and rat:
            return F.fn("nonzero0", pos[0])
        if name in ("np.abs", "np.absolute", "abs") and n == 1 and is_rat(pos[0]):
            return F.fn("abs", pos[0])
        if name == ".__abs__" and n == 1 and is_rat(pos[0]):
            return F.fn("abs", pos[0])
        if name == "np.square" and n == 1 and is_rat(pos[0]):
            return pos[0] * pos[0]
        if name in ("np.diagonal", ".diagonal") and n == 1 and rat and not kws:
            # the main diagonal of a matrix: np.diagonal takes matrices only, where np.diag(X) is the same vector
            self._record("np.diag", pos, kws, node)
            return self._opaque("np.diag", pos, kws)
        if name in ("np.negative", "operator.neg") and n == 1 and is_rat(pos[0]) and not kws:
            return -pos[0]
        if name in ("np.positive", "operator.pos") and n == 1 and is_rat(pos[0]) and not kws:
            return pos[0]
        if name == "np.reciprocal" and n == 1 and is_rat(pos[0]) and not kws and not pos[0].is_zero():
            return 1 / pos[0]
        if name in ARITH_FUNCS and n == 2 and not kws:
            return self.binop_values(ARITH_FUNCS[name](), pos[0], pos[1])
        if name in ("operator.not_",) and n == 1 and is_rat(pos[0]):
            return F.fn("not", pos[0])
        if name in ("operator.invert", "np.invert", "np.bitwise_not") and n == 1 and is_rat(pos[0]):
            return _invert(pos[0])
        if name in UNARY_FUNCS and n == 1:
            v = pos[0]
            if isinstance(v, tuple):
                return tuple(UNARY_FUNCS[name](x) if is_rat(x) else x for x in v)
            if is_rat(v):
                try:
                    return UNARY_FUNCS[name](v)
                except Unsupported:
                    return self._opaque(name, pos, kws)
        if name in ("np.transpose",) and n == 1 and not kws:
            return self._transpose(pos[0])
        if name == ".transpose" and n == 1 and not kws:
            return self._transpose(pos[0])
        if name in ("np.dot", "np.matmul", ".dot") and n == 2 and rat:
            return pos[0] * pos[1]
        if name in ("np.linalg.multi_dot", "linalg.multi_dot") and n == 1 and isinstance(pos[0], tuple) and pos[0] and all(is_rat(x) for x in pos[0]):
            tot = pos[0][0]
            for x in pos[0][1:]:
                tot = tot * x
            return tot
        if name == "np.logical_not" and n == 1 and rat:
            return _invert(pos[0])
        if name in ("np.logical_or", "np.logical_and") and n == 2 and rat:
            return _mask("BitOr" if name.endswith("or") else "BitAnd", pos[0], pos[1])
        if name == "np.append" and n == 2 and rat and not kws and not pos[0].is_const() and not pos[1].is_const():
            return F.fn("cat", pos[0], pos[1])          # without an axis both are flattened and joined
        if name in ("np.hstack", "np.concatenate", "np.r_") and n >= 1 and isinstance(pos[0], tuple):
            xs = [self.as_rat(x) for x in pos[0]]
            if all(is_rat(x) for x in xs):
                return F.fn("cat", *xs)
        if name == "np.arange" and 1 <= n <= 3 and rat and not kws and all(x.is_const() and x.const_value().denominator == 1 for x in pos):
            r_ = range(*[int(x.const_value()) for x in pos])
            if len(r_) <= 16:
                return tuple(F.const(i) for i in r_)          # np.arange(3) is the array [0, 1, 2]
        if name in ("np.isin", "np.in1d") and n == 2 and rat and not kws:
            u0 = unfn(pos[0])
            if u0 is not None and u0[0] == "arange0" and len(u0[1]) == 1:
                return self._dispatch("locate.index2bool", [pos[1], u0[1][0]], {}, node)          # membership mask of pv over range(n)
        if name == "np.arange" and 1 <= n <= 2 and rat and not kws:
            lo, hi = (F.const(0), pos[0]) if n == 1 else pos
            return lo + F.fn("arange0", hi - lo)
        if name == "np.size" and n == 2 and rat and pos[1].is_const():
            return self.dim(pos[0], pos[1])
        if name == "np.size" and n == 1 and rat:
            return self.size_of(pos[0])
        if name == "np.shape" and n == 1 and rat:
            return F.fn("attr:shape", pos[0])
        if name == "np.ndim" and n == 1 and rat:
            return F.fn("attr:ndim", pos[0])
        if name in ("np.sum", "sum") and n >= 1 and isinstance(pos[0], tuple):
            tot = F.const(0)
            for x in pos[0]:
                if not is_rat(x):
                    return Unknown("sum of non-formulas")
                tot = tot + x
            return tot
        return NotImplemented

    def _follow(self, fn, node, pos=None, kws=None, closure=None):
        """evaluate a function of the same module (or a closure) on the argument values"""
        if pos is None:
            pos, kws = [], {}
            for a in node.args:
                if isinstance(a, ast.Starred):
                    v = self.ev(a.value)
                    if isinstance(v, tuple):
                        pos.extend(v)
                    else:
                        return Unknown("starred argument of unknown length")
                else:
                    pos.append(self.ev_ref(a))
            for k in node.keywords:
                v = self.ev_ref(k.value)
                if k.arg is None:
                    if isinstance(v, DictValue):
                        kws.update(v.d)
                    else:
                        return Unknown("**kwargs")
                else:
                    kws[k.arg] = v
        a = fn.args
        if "**" in kws:
            return NotImplemented
        params = [x.arg for x in a.posonlyargs + a.args]
        kwonly = [x.arg for x in a.kwonlyargs]
        if len(pos) > len(params) and not a.vararg:
            return NotImplemented
        argenv = {}
        for p_, v in zip(params, pos):
            argenv[p_] = v
        if a.vararg:
            argenv[a.vararg.arg] = PyTuple(pos[len(params):])          # *args collects the remaining positional values
        extra = {}
        for k, v in kws.items():
            if k in argenv:
                return NotImplemented
            if k not in params and k not in kwonly:
                if not a.kwarg:
                    return NotImplemented
                extra[k] = v
                continue
            argenv[k] = v
        if a.kwarg:
            argenv[a.kwarg.arg] = DictValue(extra)
        dflt = dict(zip(params[::-1], (a.defaults or [])[::-1]))
        for p_ in params:
            if p_ not in argenv:
                if p_ not in dflt:
                    return NotImplemented
                argenv[p_] = self.ev(dflt[p_])
        for p_, dv in zip(kwonly, a.kw_defaults):
            if p_ not in argenv:
                if dv is None:
                    return NotImplemented
                argenv[p_] = self.ev(dv)
        env = dict(closure.owner.env) if closure is not None else {}
        env.update(argenv)
        mod = getattr(fn, "_vmod", None)
        if mod is not None and self.src is not None and hasattr(self.src, "funcs_consulted") and getattr(fn, "_vqual", None):
            self.src.funcs_consulted.add(f"{mod.rel}:{fn._vqual}")          # a helper that is followed is part of what the rule read
        sub = CBEval(fn, world=self.w, facts=self.facts, callv=self.callv, inline=self.inline, handler_path=self.handler_path, depth=self.depth + 1,
                     env=env, cond=self.cond, src=self.src, subscript=self.subscript)
        sub.module_consts = self.module_consts
        sub.sigs, sub.aliases = self.sigs, self.aliases
        sub.erase_T, sub.forward_stores = self.erase_T, self.forward_stores
        sub.active = self.active + (fn,)
        if closure is not None:
            sub.localnames |= closure.owner.localnames
        sub.run(fn.body)
        if sub.has_yield:
            if sub.ambiguous is not None or sub.raised is not None:
                return Unknown(f"generator {fn.name}: the yielded values are not known in this regime")
            return tuple(sub.yields)
        if sub.raised is not None:
            return Unknown(f"{fn.name} raises in this regime")
        if sub.ambiguous is not None:
            return Unknown(f"{fn.name}: {sub.ambiguous}")
        if not sub.returns:
            return NONE
        v = sub.returns[0][0]
        return NONE if v is None else v

    # ------------------------------------------------------------------ tests
    def decide(self, test):
        r = self.cond(test, self)
        if r is not None:
            return r
        if isinstance(test, ast.UnaryOp) and isinstance(test.op, ast.Not):
            r = self.decide(test.operand)
            return None if r is None else (not r)
        if isinstance(test, ast.BoolOp):
            rs = [self.decide(v) for v in test.values]
            if isinstance(test.op, ast.And):
                if any(r is False for r in rs):
                    return False
                return True if all(r is True for r in rs) else None
            if any(r is True for r in rs):
                return True
            return False if all(r is False for r in rs) else None
        return self.decide_value(self.ev(test))

    def decide_value(self, v):
        if v is None or is_unknown(v):
            return None
        if isinstance(v, (tuple,)):
            return len(v) > 0
        if isinstance(v, (NS, Closure, LocalsValue, Partial)):
            return True
        if isinstance(v, DictValue):
            return len(v.d) > 0
        if not is_rat(v):
            return None
        if v.is_const():
            return v.const_value() != 0
        t = self.facts.lookup_truth(v)
        if t is not None:
            return t
        s = strconst(v)
        if s is not None:
            return len(s) > 0
        if eq(v, NONE):
            return False
        u = unfn(v)
        if u is not None:
            nm, args = u
            if nm == "not" and len(args) == 1:
                r = self.decide_value(args[0])
                return None if r is None else (not r)
            if nm.startswith("bool:"):
                rs = [self.decide_value(a) for a in args]
                if nm == "bool:And":
                    if any(r is False for r in rs):
                        return False
                    return True if all(r is True for r in rs) else None
                if any(r is True for r in rs):
                    return True
                return False if all(r is False for r in rs) else None
            if nm.startswith("cmp:") and len(args) == 2:
                return self._decide_cmp(nm[4:], args[0], args[1])
            if nm in ("call:bool", "call:operator.truth") and len(args) == 1 and not isinstance(args[0], str):
                return self.decide_value(args[0])
            q = _quantifier(v)
            if q is not None:
                # x.all() is `not (~x).any()`, x.any() is `not (~x).all()`: a fact stated about one spelling decides the other
                t = self.facts.lookup_truth(F.fn("call:." + ("any" if q[0] == "all" else "all"), _invert(q[1])))
                if t is not None:
                    return not t
                # (~index2bool(pv, n)).any(): is the complement of pv in range(n) non-empty - the sign of len(flippv(pv, n))
                c = _complement_of_membership(q[1] if q[0] == "any" else _invert(q[1]))
                if c is not None:
                    sg = self.facts.lookup_sign(self.length(c))
                    if sg is not None:
                        return (sg != "zero") if q[0] == "any" else (sg == "zero")
            if nm in ("dim", "attr:size") and (nm != "dim" or eq(args[1], F.const(0))):
                sg = self.facts.lookup_sign(v)
                if sg is not None:
                    return sg != "zero"
            cnt = _count_of(v)
            if cnt is not None:
                return self.decide_value(F.fn("call:.any", cnt))          # a count of true entries is true when there is one: mask.any()
        sg = self.facts.lookup_sign(v)
        if sg is not None:
            return sg != "zero"
        return None

    def _not_none(self, v):
        """is the value certainly not None: a number, a text, a constructed array or the result of a call"""
        if eq(v, NONE):
            return False
        if v.is_const() or strconst(v) is not None:
            return True
        if self.buf_of(v) is not None:
            return True
        u = unfn(v)
        if u is not None and (u[0].startswith("call:") or u[0] in ("tuple", "idx", "cat", "abs", "dim")):
            return True
        if symname(v) is not None and symname(v).startswith("ns#"):
            return True
        if symname(v) is None and u is None:
            return True          # an arithmetic expression
        return None

    def _decide_cmp(self, op, a, b):
        comp = {"IsNot": "Is", "Is": "IsNot", "NotEq": "Eq", "Eq": "NotEq", "Lt": "GtE", "GtE": "Lt", "Gt": "LtE", "LtE": "Gt"}
        if op in comp:
            t = self.facts.lookup_truth(F.fn("cmp:" + comp[op], a, b))
            if t is not None:
                return not t
        if op in ("Eq", "NotEq", "Is", "IsNot"):
            # a truth value compared with True / False: bool(x) == True, (n == 0) is False
            for x, y in ((a, b), (b, a)):
                yv = {"True": True, "False": False}.get(symname(y))
                if yv is None and y.is_const() and y.const_value() in (0, 1):
                    yv = bool(y.const_value())          # the literal True / False is read as 1 / 0
                if yv is not None and (_is_py_bool(x) if op in ("Is", "IsNot") else _is_truth_value(x)):
                    t = self.decide_value(x)
                    if t is None:
                        return None
                    same = t == yv
                    return same if op in ("Eq", "Is") else not same
        if op in ("In", "NotIn") and self.facts.keys:
            present = self.facts.lookup_key(b, a)
            if present is not None:
                return present if op == "In" else not present
        if op in ("Is", "IsNot", "Eq", "NotEq") and (eq(a, NONE) or eq(b, NONE)):
            o = b if eq(a, NONE) else a
            r = self._not_none(o)
            if r is None:
                return None
            same = not r
            return same if op in ("Is", "Eq") else (not same)
        sa, sb = strconst(a), strconst(b)
        if op in ("Eq", "NotEq") and (sa is not None or sb is not None):
            if sa is not None and sb is not None:
                return (sa == sb) if op == "Eq" else (sa != sb)
            o = b if sa is not None else a
            if o.is_const() or untuple(o) is not None:
                return op == "NotEq"          # a text never equals a number or a tuple
            return None
        if op in ("Eq", "NotEq") and (untuple(a) is not None) != (untuple(b) is not None) and (a.is_const() or b.is_const()):
            return op == "NotEq"
        if op not in ("Eq", "NotEq", "Lt", "LtE", "Gt", "GtE"):
            return None
        ta, tb = untuple(a), untuple(b)
        if op in ("Eq", "NotEq") and ta is not None and tb is not None:
            # tuples are equal when they have the same length and equal elements
            if len(ta) != len(tb):
                return op == "NotEq"
            rs = [self._decide_cmp("Eq", x, y) if is_rat(x) and is_rat(y) else None for x, y in zip(ta, tb)]
            if any(r is False for r in rs):
                return op == "NotEq"
            if all(r is True for r in rs):
                return op == "Eq"
            return None
        r = self._decide_count(op, a, b)
        if r is not None:
            return r
        try:
            dif = a - b
        except Unsupported:
            return None
        sg = None
        if dif.is_const():
            c = dif.const_value()
            sg = "zero" if c == 0 else ("pos" if c > 0 else "neg")
        else:
            sg = self.facts.lookup_sign(dif)
        if sg is None:
            return None
        return {"Eq": sg == "zero", "NotEq": sg != "zero", "Lt": sg == "neg", "LtE": sg in ("neg", "zero"), "Gt": sg == "pos", "GtE": sg in ("pos", "zero")}[op]

    def _decide_count(self, op, a, b):
        """a test on the number of true entries of a mask is a test on mask.any() / mask.all(): `count > 0`, `count != 0`, `count >= 1` say any,
        `count == 0`, `count < 1` say none, `count == len(mask)` says all"""
        flip = {"Lt": "Gt", "Gt": "Lt", "LtE": "GtE", "GtE": "LtE", "Eq": "Eq", "NotEq": "NotEq"}
        ca, cb = _count_of(a), _count_of(b)
        if ca is None and cb is not None:
            a, b, ca, op = b, a, cb, flip[op]
        if ca is None:
            return None
        if b.is_const():
            c = b.const_value()
            says_any = (op == "Gt" and c == 0) or (op == "NotEq" and c == 0) or (op == "GtE" and c == 1)
            says_none = (op in ("Eq", "LtE") and c == 0) or (op == "Lt" and c == 1)
            if says_any or says_none:
                t = self.decide_value(F.fn("call:.any", ca))
                return None if t is None else (t if says_any else not t)
            return None
        ub = unfn(b)
        if ub is not None and ub[0] in ("dim", "attr:size") and eq(ub[1][0], ca) and (ub[0] != "dim" or eq(ub[1][1], F.const(0))) and op in ("Eq", "NotEq", "Lt"):
            t = self.decide_value(F.fn("call:.all", ca))
            return None if t is None else (t if op == "Eq" else not t)
        return None

    # ------------------------------------------------------------------ statements
    def run(self, stmts):
        for st in stmts:
            if self.done or self.ctl:
                break
            self.stmt(st)

    def run_top(self, stmts):
        """run a function body: an exception raised for certain that nothing in the function catches ends it"""
        try:
            self.run(stmts)
        except _Raised as e:
            if self.depth > 0:
                raise          # unwinds into the caller, which may catch it
            self.raised = e.node or self.fn
            self.done = True

    _LIST_MUT = ("append", "insert", "extend", "pop", "remove", "sort", "reverse", "clear")

    def _list_mutation(self, c):
        """a statement that changes a Python list in place (`pieces.insert(0, q)`): followed (append / extend / insert at a decided position / reverse /
        clear) or the list becomes unknown - never skipped, the list would silently keep its old content"""
        if not (isinstance(c, ast.Call) and isinstance(c.func, ast.Attribute) and c.func.attr in self._LIST_MUT and isinstance(c.func.value, ast.Name)):
            return False
        n = c.func.value.id
        cur = self.env.get(n)
        if not isinstance(cur, PyList):
            return False
        a, new = c.func.attr, None
        try:
            if not c.keywords:
                if a == "append" and len(c.args) == 1:
                    new = PyList(tuple(cur) + (self.ev_ref(c.args[0]),))
                elif a == "extend" and len(c.args) == 1:
                    v = self.ev(c.args[0])
                    if isinstance(v, (PyList, PyTuple)):
                        new = PyList(tuple(cur) + tuple(v))
                elif a == "insert" and len(c.args) == 2:
                    i = self.ev(c.args[0])
                    if is_rat(i) and i.is_const() and i.const_value().denominator == 1:
                        k = int(i.const_value())
                        k = max(0, len(cur) + k) if k < 0 else min(k, len(cur))
                        new = PyList(tuple(cur[:k]) + (self.ev_ref(c.args[1]),) + tuple(cur[k:]))
                elif a == "reverse" and not c.args:
                    new = PyList(tuple(reversed(cur)))
                elif a == "clear" and not c.args:
                    new = PyList(())
        except Unsupported:
            new = None
        if new is None:
            new = Unknown(f"the list `{n}` is changed in place by .{a}() in a way the evaluator does not follow")
        for k_, v_ in list(self.env.items()):
            if v_ is cur:
                self.env[k_] = new
        return True

    def stmt(self, st):
        if self.done or self.ctl:
            return
        if isinstance(st, ast.Expr):
            if self._list_mutation(st.value):
                return
            self.ev(st.value)
            return
        if isinstance(st, ast.Assign) and len(st.targets) == 1 and isinstance(st.targets[0], (ast.Tuple, ast.List)) and isinstance(st.value, ast.Call) \
                and dotted(st.value.func) in ZERO and st.value.args:
            # C, D = np.ones((2, n)): one array per target
            shp = self.ev(st.value.args[0])
            k = len(st.targets[0].elts)
            if isinstance(shp, tuple) and len(shp) >= 2 and is_rat(shp[0]) and shp[0].is_const() and shp[0].const_value() == k:
                fill = ZERO[dotted(st.value.func)]
                for t in st.targets[0].elts:
                    self._assign(t, UNINIT if fill is None else F.const(fill), st, shape=tuple(shp[1:]))
                return
        if isinstance(st, ast.Assign):
            self.hint = st.targets[0].id if isinstance(st.targets[0], ast.Name) else None
            try:
                v = self.ev_ref(st.value)
            finally:
                self.hint = None
            shape = self._alloc_shape(st.value)
            for t in st.targets:
                self._assign(t, v, st, shape=shape)
            return
        if isinstance(st, ast.AnnAssign):
            if st.value is not None:
                self._assign(st.target, self.ev_ref(st.value), st, shape=self._alloc_shape(st.value))
            return
        if isinstance(st, ast.If):
            c = self.decide(st.test)
            if any(isinstance(x, ast.NamedExpr) for x in ast.walk(st.test)):
                self.ev(st.test)
            if c is True:
                self.run(st.body)
            elif c is False:
                self.run(st.orelse)
            else:
                self._undecided_if(st)
            return
        if isinstance(st, ast.Match):
            self.stmt(self._match_as_if(st))
            return
        if isinstance(st, ast.For):
            self._for(st)
            return
        if isinstance(st, ast.While):
            self._while(st)
            return
        if isinstance(st, ast.With):
            for it in st.items:
                v = self.ev(it.context_expr)
                if it.optional_vars is not None:
                    self._assign(it.optional_vars, v, st)
            if self.handler_path is not None and any(_is_suppress(it.context_expr) for it in st.items) and self.handler_path(st):
                return          # `with suppress(E): body` is `try: body / except E: pass`; on the handler path the body raised at once
            try:
                self.run(st.body)
            except _Raised as e:
                sup = [it.context_expr for it in st.items if _is_suppress(it.context_expr)]
                if not any(_handler_catches(a, e.kind) for c in sup for a in c.args):
                    raise
            return
        if isinstance(st, ast.Try):
            if self.handler_path is not None and self.handler_path(st) and st.handlers:
                self.run(st.handlers[0].body)
            else:
                try:
                    self.run(st.body)
                except _Raised as e:
                    hs = [h for h in st.handlers if _handler_catches(h.type, e.kind)]
                    if not hs:
                        self.run(st.finalbody)
                        raise
                    if hs[0].name:
                        self.env[hs[0].name] = F.sym(f"<{e.kind}>")
                    self.run(hs[0].body)
                else:
                    if not self.done and not self.ctl:
                        self.run(st.orelse)
            if not self.done and not self.ctl:
                self.run(st.finalbody)
            return
        if isinstance(st, (ast.FunctionDef, ast.AsyncFunctionDef)):
            self.env[st.name] = Closure(st, self)
            return
        if isinstance(st, ast.Continue):
            self.ctl = "continue"
            return
        if isinstance(st, ast.Break):
            self.ctl = "break"
            return
        if isinstance(st, ast.Raise):
            self.raised = st
            self.done = True
            return
        if isinstance(st, ast.Return):
            self.returns.append((self.ev(st.value) if st.value is not None else None, st))
            self.done = True
            return
        if isinstance(st, ast.AugAssign):
            import copy as _copy
            ld = _copy.copy(st.target)
            ld.ctx = ast.Load()
            cur = self.ev(ld)
            v = self.ev(st.value)
            if isinstance(st.op, (ast.Mod, ast.FloorDiv, ast.BitAnd, ast.BitOr, ast.BitXor, ast.LShift, ast.RShift)):
                nv = self.ev(ast.BinOp(left=ld, op=st.op, right=st.value))
            else:
                try:
                    nv = self.binop_values(st.op, cur, v)
                except Unsupported as e:
                    nv = Unknown(str(e))
            self._assign(st.target, nv, st, aug=True)
            return
        if isinstance(st, (ast.Import, ast.ImportFrom)):
            # an import inside the function: the same alias table, extended for this activation
            tb = {"module": dict((self.aliases or {}).get("module", {})), "member": dict((self.aliases or {}).get("member", {}))}
            _import_entries(st, tb)
            self.aliases = tb
            for a in st.names:
                self.localnames.discard(a.asname or a.name)
            return
        # Pass, Assert, Global, Delete ...: no effect on values

    _nmatch = 0

    def _match_as_if(self, st):
        """a `match` statement as the if / elif chain it stands for: literal and singleton patterns, alternatives, wildcard, capture, guards, and
        sequence patterns against a tuple display; anything else becomes a test nobody can decide"""
        CBEval._nmatch += 1
        subj = f"__match{CBEval._nmatch}"
        self.localnames.add(subj)
        self.env[subj] = self.ev_ref(st.subject)
        parts = None
        if isinstance(st.subject, ast.Tuple) and isinstance(self.env[subj], tuple):
            parts = []
            for i, x in enumerate(self.env[subj]):
                nm = f"{subj}_{i}"
                self.localnames.add(nm)
                self.env[nm] = x
                parts.append(nm)

        def load(nm):
            return ast.Name(id=nm, ctx=ast.Load())

        def test_of(pat, nm, binds):
            """the test a pattern makes on the value held in the name `nm` (None: always true); captures go to `binds`"""
            if isinstance(pat, ast.MatchValue):
                return ast.Compare(left=load(nm), ops=[ast.Eq()], comparators=[pat.value])
            if isinstance(pat, ast.MatchSingleton):
                return ast.Compare(left=load(nm), ops=[ast.Is()], comparators=[ast.Constant(value=pat.value)])
            if isinstance(pat, ast.MatchAs):
                t = test_of(pat.pattern, nm, binds) if pat.pattern is not None else None
                if pat.name is not None:
                    binds.append(ast.Assign(targets=[ast.Name(id=pat.name, ctx=ast.Store())], value=load(nm), lineno=st.lineno, col_offset=0))
                return t
            if isinstance(pat, ast.MatchOr):
                ts = [test_of(q, nm, binds) for q in pat.patterns]
                return None if any(t is None for t in ts) else ast.BoolOp(op=ast.Or(), values=ts)
            if isinstance(pat, ast.MatchSequence) and parts is not None and nm == subj and len(pat.patterns) == len(parts) \
                    and not any(isinstance(q, ast.MatchStar) for q in pat.patterns):
                ts = [t for t in (test_of(q, pn, binds) for q, pn in zip(pat.patterns, parts)) if t is not None]
                return None if not ts else (ts[0] if len(ts) == 1 else ast.BoolOp(op=ast.And(), values=ts))
            return ast.Call(func=ast.Name(id="__pattern_not_lowered__", ctx=ast.Load()), args=[load(nm)], keywords=[])

        chain = None
        for case in reversed(st.cases):
            binds = []
            t = test_of(case.pattern, subj, binds)
            if case.guard is not None:
                # a guard may use the captured names: bind them first (a capture pattern cannot fail)
                t = case.guard if t is None else ast.BoolOp(op=ast.And(), values=[t, case.guard])
                pre = binds
            else:
                pre = []
            body = (binds if not pre else []) + list(case.body)
            if t is None:
                node = ast.If(test=ast.Constant(value=True), body=body, orelse=[])
            else:
                node = ast.If(test=t, body=body, orelse=[chain] if chain is not None else [])
            if pre:
                node = ast.If(test=ast.Constant(value=True), body=pre + [node], orelse=[])
            chain = node
        for n in ast.walk(chain):
            if not hasattr(n, "lineno"):
                n.lineno, n.col_offset, n.end_lineno, n.end_col_offset = st.lineno, st.col_offset, st.lineno, st.col_offset
        return chain

    def _alloc_shape(self, vnode):
        return None          # allocations are array objects as soon as they are evaluated (see _builtin)

    def _undecided_if(self, st):
        braise, oraise = _ends_in_raise(st.body), _ends_in_raise(st.orelse)
        if braise and not oraise:
            self.run(st.orelse)          # the error exit is not taken
            return
        if oraise and not braise:
            self.run(st.body)
            return
        # both arms in a sandbox: names on which the arms agree keep their value
        outs = []
        for arm in (st.body, st.orelse):
            sb = CBEval(self.fn, world=self.w.scratch(), facts=self.facts, callv=self.callv, inline=self.inline, handler_path=self.handler_path,
                        depth=self.depth, env=dict(self.env), cond=self.cond, src=self.src, subscript=self.subscript, pinned=self.pinned)
            sb.module_consts, sb.erase_T, sb.forward_stores, sb.active, sb.localnames = self.module_consts, self.erase_T, self.forward_stores, self.active, self.localnames
            sb.sigs, sb.aliases = self.sigs, self.aliases
            sb.has_yield = False
            try:
                sb.run(arm)
            except _Raised:
                sb.ambiguous = "raises"
            outs.append(sb)
        a, b = outs
        if a.yields or b.yields:
            self.ambiguous = f"undecided test `{ast.unparse(st.test)[:60]}` guards a yield"
        self.w.undecided.append(st)
        n0 = len(self.w.cells)
        for sb in outs:
            for c in sb.w.cells[n0:]:
                if c[0] in self.w.bufs:
                    self.w.maybe.add(c[0])
        if a.done or b.done:
            ra = a.returns[0][0] if a.returns else None
            rb = b.returns[0][0] if b.returns else None
            if a.done and b.done and a.returns and b.returns and eq(ra, rb):
                self.returns.append((ra, a.returns[0][1]))
                self.done = True
                return
            if (a.done and a.raised is not None and not b.done) or (b.done and b.raised is not None and not a.done):
                pass
            else:
                self.ambiguous = f"undecided test `{ast.unparse(st.test)[:60]}` guards a return"
        names = set(a.env) | set(b.env)
        for n in names:
            if n in self.pinned:
                continue
            va, vb = a.env.get(n), b.env.get(n)
            if a.done and a.raised is not None and not b.done:
                va = vb
            if b.done and b.raised is not None and not a.done:
                vb = va
            old = self.env.get(n)
            if va is old and vb is old:
                continue
            if va is not None and vb is not None and (eq(va, vb) or (va is vb)) and not self._scratch_buf(va, a):
                self.env[n] = va
            else:
                self.env[n] = Unknown(f"assigned under undecided test {ast.unparse(st.test)[:60]}")

    def _scratch_buf(self, v, sb):
        n = symname(v) if is_rat(v) else None
        return n is not None and n in sb.w.bufs and n not in self.w.bufs

    def _for(self, st):
        items = self._iter_items(st.iter)
        if items is not None:
            for it in items:
                self._bind_target(st.target, it, st)
                self.run(st.body)
                if self.ctl == "break":
                    self.ctl = None
                    break
                self.ctl = None
                if self.done:
                    return
            else:
                self.run(st.orelse)
            return
        # a generic iteration
        itv = self.ev(st.iter)
        for t in ast.walk(st.target):
            if isinstance(t, ast.Name) and t.id not in self.pinned:
                self.env[t.id] = F.sym("%" + t.id)
        if isinstance(st.target, ast.Name) and is_rat(itv):
            self.env[st.target.id] = F.fn("elem", itv, F.sym("%" + st.target.id))
            u = split_call(itv)
            if u is not None and u[0] == "range":
                self.env[st.target.id] = F.sym("%" + st.target.id)
        ny = len(self.yields)
        self.run(st.body)
        if len(self.yields) != ny:
            self.ambiguous = "yield inside a loop of unknown length"
        self.ctl = None

    def _while(self, st):
        assigned = set()
        for n in ast.walk(st):
            if isinstance(n, ast.Name) and isinstance(n.ctx, ast.Store):
                assigned.add(n.id)
        for n in assigned:
            if n in self.env and n not in self.pinned and n not in self.buffers:
                self.env[n] = F.sym("%" + n)
        c = self.decide(st.test)
        if c is False:
            return
        self.run(st.body)
        self.ctl = None

    def _assign(self, target, v, st, aug=False, shape=None):
        if isinstance(target, ast.Name):
            n = target.id
            if n in self.pinned:
                return
            if (n in self.buffers or shape is not None) and is_rat(v) and self.buf_of(v) is None and not (shape is None and (self._is_handed_object(v) or _is_attr_view(v))):
                self.env[n] = self.new_buf(n, v, st, shape).sym
            else:
                self.env[n] = v
            return
        if isinstance(target, ast.Attribute):
            base = self.env.get(target.value.id) if isinstance(target.value, ast.Name) else None
            if isinstance(base, NS):
                base.fields[target.attr] = v
                return
            d = dotted(target)
            if d and d not in self.pinned:
                self.env[d] = v
            return
        if isinstance(target, (ast.Tuple, ast.List)):
            n = len(target.elts)
            if any(isinstance(t, ast.Starred) for t in target.elts):
                for t in target.elts:
                    self._assign(t.value if isinstance(t, ast.Starred) else t, Unknown("starred unpacking"), st)
                return
            if isinstance(v, tuple) and len(v) == n:
                for t, x in zip(target.elts, v):
                    self._assign(t, x, st)
            elif is_rat(v) and untuple(v) is not None and len(untuple(v)) == n:
                for t, x in zip(target.elts, untuple(v)):
                    self._assign(t, x, st)
            elif is_rat(v) and not v.is_const():
                uv = unfn(v)
                for i, t in enumerate(target.elts):
                    if uv is not None and uv[0] == "attr:shape" and len(uv[1]) == 1:
                        self._assign(t, self.dim(uv[1][0], F.const(i)), st)          # r, c = X.shape
                    else:
                        self._assign(t, F.fn("idx", v, F.const(i)), st)
            else:
                for t in target.elts:
                    self._assign(t, Unknown("tuple unpacking of a non-tuple"), st)
            return
        if isinstance(target, ast.Subscript):
            bnode = target.value
            if isinstance(bnode, ast.Name):
                n = bnode.id
                cur = self.env.get(n)
                if isinstance(cur, tuple):
                    return super(AutoEvaluator, self)._assign(target, v, st, aug)
                if isinstance(cur, DictValue):
                    s = strconst(self.ev(target.slice))
                    if s is not None:
                        cur.d[s] = v
                    return
                if cur is None:
                    b = self.w.bufs.get(n)
                    if b is None:
                        b = Buf(n, n, None, None, st)
                        self.w.bufs[n] = b
                    self.env[n] = b.sym
                elif is_rat(cur):
                    b = self.buf_of(cur)
                    if b is None and symname(cur) is not None and strconst(cur) is None:
                        # an array the function was handed (a symbol): the object is that symbol, whatever the local is called
                        b = Buf(symname(cur), symname(cur), None, None, st)
                        self.w.bufs[b.bid] = b
                    elif b is None and _is_attr_view(cur):
                        # a name bound to an attribute of an object (`rows = uset.iloc`): the store goes to that object, as uset.iloc[...] = v does
                        key = "val:" + repr(cur)
                        b = self.w.bufs.get(key)
                        if b is None:
                            b = Buf(key, key, cur, None, st)
                            b.sym = cur
                            self.w.bufs[key] = b
                    elif b is None:
                        b = self.new_buf(n, cur, st)
                        self.env[n] = b.sym
                else:
                    return
            else:
                bv = self.ev_ref(bnode)
                if not is_rat(bv):
                    return
                b = self.buf_of(bv)
                if b is None:
                    key = "val:" + repr(bv)
                    b = self.w.bufs.get(key)
                    if b is None:
                        b = Buf(key, key, bv, None, st)
                        b.sym = bv
                        self.w.bufs[key] = b
            try:
                ix = self._index_value(target.slice)
            except Unsupported as e:
                ix = Unknown(str(e))
            self.w.seq += 1
            self.w.cells.append((b.bid, ix, v, st, self.w.seq))
            return

    def _store_value(self, bv, ix, v, st):
        """the store bv[ix] = v where the array and the index are given as values (operator.setitem, X.__setitem__, np.put)"""
        b = self.buf_of(bv)
        if b is None and self._is_handed_object(bv):
            b = self.w.bufs.get(symname(bv))
            if b is None:
                b = Buf(symname(bv), symname(bv), None, None, st)
                self.w.bufs[b.bid] = b
        elif b is None:
            key = "val:" + repr(bv)
            b = self.w.bufs.get(key)
            if b is None:
                b = Buf(key, key, bv, None, st)
                b.sym = bv
                self.w.bufs[key] = b
        if isinstance(ix, tuple):
            try:
                elts = [self._norm_index_item(x) for x in ix]
            except Unsupported as e:
                elts, ix = None, Unknown(str(e))
            if elts is not None:
                ix = self._pack_index(elts)
        self.w.seq += 1
        self.w.cells.append((b.bid, ix, v, st, self.w.seq))

    def _is_handed_object(self, v):
        """a value that is exactly one plain symbol (a parameter, a global): binding another name to it makes an alias of that object, not a new array"""
        n = symname(v)
        return n is not None and strconst(v) is None and n not in ("None", "True", "False", "Ellipsis", "pi", "inf", "nan") and n[0] not in "%<" and "#" not in n

    def expr(self, text, **bind):
        saved = {}
        for k, v in bind.items():
            saved[k] = self.env.get(k, _Ctl)
            self.env[k] = v
        try:
            return self.ev(ast.parse(text, mode="eval").body)
        finally:
            for k, v in saved.items():
                if v is _Ctl:
                    self.env.pop(k, None)
                else:
                    self.env[k] = v


def _is_vector_index(v):
    """an index that is certainly not a slice, a constant, a tuple or None: an index vector / mask held in a name or produced by a call"""
    if not is_rat(v) or v.is_const() or eq(v, NONE):
        return False
    u = unfn(v)
    if u is not None and (u[0] in ("slice", "tuple", "star") or u[0].startswith("kw:")):
        return False
    sc = split_call(v)
    if sc is not None and sc[0] == "np.ix_":
        return False
    return True


def _chained(base, ix):
    """X[r][:, c] with index vectors / masks r and c selects the same elements as X[np.ix_(r, c)] (wherever both are valid they agree):
    one canonical value for the two spellings"""
    ub = unfn(base)
    if ub is not None and ub[0] == "idx":
        # rows and columns selected one after the other, one of them by a slice: X[:, c][r] and X[r][:, c] are X[r, c] when r or c is a slice
        # (two index vectors would pair up element by element in X[r, c]; they are the np.ix_ case below)
        full = F.fn("slice", NONE, NONE, NONE)
        t0, t1 = untuple(ub[1][1]), untuple(ix)
        if t0 is not None and len(t0) == 2 and eq(t0[0], full) and t1 is None and (_is_slice(t0[1]) or _is_slice(ix)) \
                and (_is_vector_index(ix) or _is_slice(ix)) and (_is_vector_index(t0[1]) or _is_slice(t0[1])):
            return F.fn("idx", ub[1][0], F.fn("tuple", ix, t0[1]))
        if t0 is None and t1 is not None and len(t1) == 2 and eq(t1[0], full) and (_is_slice(ub[1][1]) or _is_slice(t1[1])) \
                and (_is_vector_index(ub[1][1]) or _is_slice(ub[1][1])) and (_is_vector_index(t1[1]) or _is_slice(t1[1])):
            return F.fn("idx", ub[1][0], F.fn("tuple", ub[1][1], t1[1]))
    if ub is None or ub[0] != "idx" or not _is_vector_index(ub[1][1]):
        return None
    t = untuple(ix)
    if t is None or len(t) != 2 or not _is_vector_index(t[1]):
        return None
    us = unfn(t[0])
    if us is None or us[0] != "slice" or not all(eq(x, NONE) for x in us[1]):
        return None
    return F.fn("idx", ub[1][0], F.fn("call:np.ix_", ub[1][1], t[1]))


MASK_HEADS = ("invert", "mask:BitAnd", "mask:BitOr", "call:np.isnan", "call:np.isfinite", "call:np.isin", "call:np.isclose", "call:locate.index2bool",
              "call:np.in1d", "call:np.iscomplex", "call:np.isreal")


def _is_mask(v):
    """is the value certainly a boolean array: a comparison, a mask operation, an .any / .all along an axis, a selection of such"""
    u = unfn(v) if is_rat(v) else None
    if u is None:
        return False
    if u[0].startswith("cmp:") or u[0] in MASK_HEADS:
        return True
    if u[0] in ("call:.any", "call:.all"):
        return any((not isinstance(x, str)) and unfn(x) is not None and unfn(x)[0] == "kw:axis" for x in u[1])
    if u[0] == "idx":
        return _is_mask(u[1][0])
    return False


def _is_truth_value(v):
    """is the value certainly a Python bool / numpy bool scalar: bool(x), a comparison, not x, isinstance(...), mask.any() / mask.all()"""
    u = unfn(v) if is_rat(v) else None
    if u is None:
        return False
    if u[0] in ("call:bool", "not", "call:isinstance", "call:callable", "call:np.isscalar", "call:np.iscomplexobj", "call:np.allclose") or u[0].startswith("cmp:"):
        return True
    if u[0].startswith("bool:"):
        return all(isinstance(x, str) or _is_truth_value(x) for x in u[1])
    return _quantifier(v) is not None


PY_INT_HEADS = ("dim", "call:len", "attr:ndim", "attr:size", "call:int")


def _is_py_int(v):
    """is the value certainly a Python int: an integer constant, X.shape[k], len(x), x.ndim, x.size, and sums / products of such"""
    if not is_rat(v) or not v.d.is_const() or v.d.const_value() != 1:
        return False
    for mono, c in v.n.t.items():
        if getattr(c, "denominator", 1) != 1:
            return False
        for a, e in mono:
            d = F.atom_desc(a)
            if d[0] != "fn" or d[1] not in PY_INT_HEADS or e < 0:
                return False
    return True


def _is_py_bool(v):
    """is the value certainly a Python bool (`x is True` is meaningful; a numpy bool is never the object True)"""
    u = unfn(v) if is_rat(v) else None
    if u is None:
        return False
    if u[0] in ("call:bool", "not", "call:isinstance", "call:callable"):
        return True
    if u[0].startswith("cmp:") and len(u[1]) == 2:
        return u[0] in ("cmp:Is", "cmp:IsNot") or (_is_py_int(u[1][0]) and _is_py_int(u[1][1]))
    return False


def _quantifier(v):
    """mask.any() / mask.all() over the whole array (no axis) -> ("any" | "all", mask) else None"""
    u = unfn(v) if is_rat(v) else None
    if u is None or u[0] not in ("call:.any", "call:.all") or len(u[1]) != 1 or isinstance(u[1][0], str):
        return None
    return u[0][6:], u[1][0]


def _count_of(v):
    """the array whose true / non-zero entries the value counts (np.count_nonzero(x), x.sum() of a mask, the length of np.flatnonzero(x)) else None"""
    u = unfn(v) if is_rat(v) else None
    if u is None:
        return None
    if u[0] == "call:np.count_nonzero" and len(u[1]) == 1 and not isinstance(u[1][0], str):
        return u[1][0]
    if u[0] in ("call:.sum", "call:sum") and len(u[1]) == 1 and not isinstance(u[1][0], str) and _is_mask(u[1][0]):
        return u[1][0]
    if u[0] in ("dim", "attr:size") and (u[0] != "dim" or eq(u[1][1], F.const(0))):
        w = unfn(u[1][0])
        if w is not None and w[0] == "nonzero0" and len(w[1]) == 1:
            return w[1][0]
    return None


def _is_attr_view(v):
    """an attribute of an object (uset.iloc, x.flat): binding a name to it, or storing through it, reaches that object - no new array is made"""
    u = unfn(v) if is_rat(v) else None
    return u is not None and u[0].startswith("attr:") and u[0] not in ("attr:T", "attr:shape", "attr:size", "attr:ndim", "attr:values")


def _mask_of_positions(v):
    """as an index, np.flatnonzero(mask) / mask.nonzero()[0] selects exactly what the mask selects (also inside np.ix_): one canonical index"""
    if not is_rat(v):
        return v
    u = unfn(v)
    if u is not None and u[0] == "nonzero0" and len(u[1]) == 1 and _is_mask(u[1][0]):
        return _mask_of_positions(u[1][0])
    c = _complement_of_membership(v)
    if c is not None:
        return c
    sc = split_call(v)
    if sc is not None and sc[0] == "np.ix_" and not sc[2] and any(is_rat(x) and _mask_of_positions(x) is not x for x in sc[1]):
        return F.fn("call:np.ix_", *[_mask_of_positions(x) for x in sc[1]])
    return v


def _complement_of_membership(v):
    """~locate.index2bool(pv, n) - the mask of the positions of range(n) that are not in pv - selects, as an index, exactly the ascending positions
    locate.flippv(pv, n) returns: -> that value, else None"""
    u = unfn(v) if is_rat(v) else None
    if u is None or u[0] != "invert":
        return None
    sc = split_call(u[1][0])
    if sc is None or sc[0] != "locate.index2bool" or len(sc[1]) != 2 or sc[2]:
        return None
    return F.fn("call:locate.flippv", sc[1][0], sc[1][1])


def _is_slice(v):
    u = unfn(v) if is_rat(v) else None
    return u is not None and u[0] == "slice"


def _full_slice(v):
    u = unfn(v) if is_rat(v) else None
    return u is not None and u[0] == "slice" and all(eq(x, NONE) for x in u[1])


def _is_suppress(node):
    return isinstance(node, ast.Call) and dotted(node.func) in ("suppress", "contextlib.suppress")


def _invert(v):
    u = unfn(v)
    if u is not None and u[0] == "invert":
        return u[1][0]
    if u is not None and u[0] in ("mask:BitAnd", "mask:BitOr") and len(u[1]) == 2:
        return _mask("BitOr" if u[0] == "mask:BitAnd" else "BitAnd", _invert(u[1][0]), _invert(u[1][1]))          # De Morgan: ~(a & b) is ~a | ~b
    if u is not None and u[0] in ("cmp:Eq", "cmp:NotEq") and len(u[1]) == 2:
        return _cmp("NotEq" if u[0] == "cmp:Eq" else "Eq", u[1][0], u[1][1])          # element-wise, also for NaN (the ordering comparisons are not complements there)
    return F.fn("invert", v)


def _cmp(op, a, b):
    """the value of a comparison.  x == 0 / x != 0 does not change when x is multiplied by a number of magnitude >= 1 (2 pi f is zero exactly where
    f is), so such a factor is dropped"""
    if op in ("Eq", "NotEq") and is_rat(a) and is_rat(b):
        if a.is_zero() and not b.is_zero():
            a, b = b, a
        if b.is_zero():
            fs = factors(a)
            if fs is not None and len(fs[1]) >= 1:
                c, atoms = fs
                keep = F.const(1)
                mag = abs(float(c))
                for av, e in atoms:
                    if symname(av) == "pi":
                        mag *= 3.141592653589793 ** e
                    else:
                        keep = keep * av ** e
                if mag >= 1 and not keep.is_const():
                    a = keep
    return F.fn("cmp:" + op, a, b)


def _mask(op, a, b):
    x, y = (a, b) if repr(a) <= repr(b) else (b, a)
    return F.fn("mask:" + op, x, y)


# ------------------------------------------------------------------------------------------------ the rule's view
class Run:
    """evaluate `fn` on symbols; `args` binds parameters by position (values) - parameters not bound are symbols of their own name"""

    def __init__(self, ctx, fn, args=None, kwargs=None, facts=None, callv=None, inline=None, consts=None, erase_T=False, forward_stores=False,
                 handler_path=None, objs=(), cond=None, run=True):
        self.ctx, self.fn = ctx, fn
        a = fn.args
        params = [x.arg for x in a.posonlyargs + a.args + a.kwonlyargs]
        env = {}
        for p_, v in zip(params, args or []):
            if v is not None:
                env[p_] = v
        for k, v in (kwargs or {}).items():
            env[k] = v
        self.params = params
        self.env0 = dict(env)
        self.facts = facts if facts is not None else Facts()
        self.kw = dict(callv=callv, inline=inline, handler_path=handler_path, objs=tuple(objs))
        self.consts, self.erase_T, self.forward_stores, self.cond = consts, erase_T, forward_stores, cond
        mod = getattr(fn, "_vmod", None)
        self.sigs = external_sigs(ctx, mod.rel) if mod is not None else None
        self.aliases = import_aliases(ctx, mod.rel) if mod is not None else None
        self.ev = self._make(env)
        if run:
            self.go()

    def go(self):
        """evaluate the function body (after the facts of the regime have been stated)"""
        self.ev.run_top(self.fn.body)

    def _make(self, env, world=None):
        ev = CBEval(self.fn, world=world, facts=self.facts, env=dict(env), src=self.ctx.src, cond=self.cond, **self.kw)
        ev.module_consts, ev.erase_T, ev.forward_stores = self.consts, self.erase_T, self.forward_stores
        ev.sigs, ev.aliases = self.sigs, self.aliases
        return ev

    # ---- expected side: an expression over the parameters, evaluated in the initial environment
    def root(self, text, **bind):
        ev = self._make(self.env0, world=World())
        return ev.expr(text, **bind)

    def truth(self, text_or_value, val, **bind):
        v = self.root(text_or_value, **bind) if isinstance(text_or_value, str) else text_or_value
        if not is_rat(v):
            raise Unsupported(f"fact `{text_or_value}` is not a formula: {v!r}")
        self.facts.truth.append((v, val))

    def sign(self, text_or_value, sg, **bind):
        v = self.root(text_or_value, **bind) if isinstance(text_or_value, str) else text_or_value
        if not is_rat(v):
            raise Unsupported(f"fact `{text_or_value}` is not a formula: {v!r}")
        self.facts.sign.append((v, sg))

    def index_vector(self, text_or_value, **bind):
        """state that a value is a one-dimensional array of integer positions (so X[np.ix_(v, v)] has len(v) rows)"""
        v = self.root(text_or_value, **bind) if isinstance(text_or_value, str) else text_or_value
        if not is_rat(v):
            raise Unsupported(f"fact `{text_or_value}` is not a formula: {v!r}")
        self.facts.intvec.append(v)

    def key(self, mapping, key, present, **bind):
        """state whether a mapping the function is handed holds a key: m[key] then is a value / raises KeyError, `key in m`, m.get(key) follow"""
        m = self.root(mapping, **bind) if isinstance(mapping, str) else mapping
        k = self.root(key, **bind) if isinstance(key, str) else key
        if not is_rat(m) or not is_rat(k):
            raise Unsupported(f"fact about `{mapping}[{key}]` is not a formula")
        self.facts.keys.append((m, k, bool(present)))

    def same(self, got, want, **bind):
        w = self.root(want, **bind) if isinstance(want, str) else want
        return eq(got, w)

    def ret(self):
        if self.ev.ambiguous is not None:
            return Unknown(self.ev.ambiguous)
        if self.ev.raised is not None and not self.ev.returns:
            return Unknown("the function raises in this regime")
        return self.ev.returns[-1][0] if self.ev.returns else None

    def ret_node(self):
        return self.ev.returns[-1][1] if self.ev.returns else self.fn

    def buf(self, v):
        if not is_rat(v):
            return None
        b = self.ev.buf_of(v)
        return b if b is not None else self.ev.w.bufs.get("val:" + repr(v))

    def cells(self, v):
        """[(index value, stored value, node)] of the array object `v` refers to, in program order"""
        b = self.buf(v)
        if b is None:
            return []
        return [(c[1], c[2], c[3]) for c in self.ev.w.cells if c[0] == b.bid]

    def cell(self, v, index, **bind):
        """the value last stored into the array `v` under the index `index` (text over the parameters, or a value)"""
        w = self.root(f"__x[{index}]", **bind) if isinstance(index, str) else None
        if isinstance(index, str):
            u = unfn(w)
            if u is None or u[0] != "idx":
                return None
            w = u[1][1]
        else:
            w = index
        w = _mask_of_positions(w)          # as stores are recorded: the positions of a mask select what the mask selects
        found = None
        for ix, val, _ in self.cells(v):
            if eq(ix, w):
                found = val
        return found

    def calls(self, *names):
        return [c for c in self.ev.w.calls if c[0] in names]

    def all_bufs(self):
        return list(self.ev.w.bufs.values())


def place(pos, kws, names):
    out = {}
    for n, v in zip(names, pos):
        out[n] = v
    for k, v in kws.items():
        out[k] = v
    return out


def signature(fn):
    a = fn.args
    return [x.arg for x in a.posonlyargs + a.args + a.kwonlyargs]


# ------------------------------------------------------------------------------------------------ the source as it is written
def pristine(ctx, rel):
    """{qualified name: FunctionDef} and the module tree of `rel`, parsed as written.  The shared source model rewrites the trees it hands out
    (locals renamed back to reference names, temporaries substituted back - verifier/e1_names.py, e1_canon.py); the substitution treats a
    dict / list display like a pure expression and duplicates it at every use, which loses the identity of a mutable object.  The rules of this
    property decide on values and need neither rewriting, so they read the file as it is."""
    cache = ctx.src.__dict__.setdefault("_c06_pristine", {})      # per source model (one per checked tree), never global
    if rel in cache:
        return cache[rel]
    mod = ctx.src.mod(rel)
    tree = ast.parse(mod.source, filename=mod.path)
    funcs = {}

    def index(node, prefix):
        for ch in ast.iter_child_nodes(node):
            if isinstance(ch, (ast.expr_context, ast.operator, ast.unaryop, ast.cmpop, ast.boolop)):
                continue
            ch._vparent = node
            ch._vmod = mod
            if isinstance(ch, (ast.FunctionDef, ast.AsyncFunctionDef)):
                q = prefix + ch.name
                ch._vqual = q
                funcs.setdefault(q, ch)
                index(ch, q + ".")
            elif isinstance(ch, ast.ClassDef):
                ch._vqual = prefix + ch.name
                index(ch, prefix + ch.name + ".")
            else:
                index(ch, prefix)
    index(tree, "")
    cache[rel] = (funcs, tree)
    return funcs, tree


def func(ctx, rel, name):
    ctx.src.func(rel, name)          # anchor check + the function is listed as consulted
    return pristine(ctx, rel)[0][name]


def module_funcs(ctx, rel, exclude=()):
    funcs, _ = pristine(ctx, rel)
    return {q: f for q, f in funcs.items() if "." not in q and q not in exclude}


CANON_MOD = {"numpy": "np", "scipy.linalg": "linalg", "scipy.sparse.linalg": "sp_la", "pandas": "pd", "numpy.linalg": "np.linalg"}


def _canon_mod(full):
    """the name a module goes by in the rules: np, linalg, sp_la, pd; otherwise its last component (pyyeti.locate -> locate)"""
    return CANON_MOD.get(full, full.rsplit(".", 1)[-1])


def import_aliases(ctx, rel):
    """{"module": {local name: canonical module name}, "member": {local name: canonical dotted name}} from the module-level imports of `rel`:
    `import numpy as xp` -> xp.zeros is np.zeros; `from pyyeti.locate import flippv as fp` -> fp(...) is locate.flippv(...); a name imported with
    `from A import b` that is used as the root of a dotted name is a module (b.x), used bare it is a member of A (canonical A.b)"""
    cache = ctx.src.__dict__.setdefault("_c06_aliases", {})
    if rel in cache:
        return cache[rel]
    _, tree = pristine(ctx, rel)
    out = {"module": {}, "member": {}}
    for st in tree.body:
        _import_entries(st, out)
    cache[rel] = out
    return out


def _import_entries(st, table):
    """add the names bound by one import statement to an alias table"""
    module, member = table["module"], table["member"]
    if isinstance(st, ast.Import):
        for a in st.names:
            if a.asname:
                module[a.asname] = _canon_mod(a.name)
            elif "." not in a.name:
                module[a.name] = _canon_mod(a.name)
    elif isinstance(st, ast.ImportFrom) and st.module and st.level == 0:
        for a in st.names:
            if a.name == "*":
                continue
            local = a.asname or a.name
            module[local] = _canon_mod(st.module + "." + a.name)
            if a.name not in ("SimpleNamespace", "warn", "suppress"):          # names the evaluator models under their bare name keep it
                member[local] = _canon_mod(st.module) + "." + a.name
    for k in [k for k, v in module.items() if k == v]:
        del module[k]          # identity entries carry no information


def external_sigs(ctx, rel):
    """f(call name) -> [parameter names] for `alias.func` calls where `alias` is a module of the package imported by the module `rel`
    (`from pyyeti import ytools`, `from pyyeti.nastran import n2p`, `import pyyeti.ytools as yt`) and `func` a plain function of it"""
    import os
    cache = ctx.src.__dict__.setdefault("_c06_sigs", {})
    if rel in cache:
        return cache[rel]
    _, tree = pristine(ctx, rel)
    alias = {}
    for st in tree.body:
        if isinstance(st, ast.ImportFrom) and st.module and st.level == 0:
            for a in st.names:
                alias[a.asname or a.name] = st.module.replace(".", "/") + "/" + a.name + ".py"
            alias.setdefault(_canon_mod(st.module), st.module.replace(".", "/") + ".py")          # from pyyeti.ytools import multmd: ytools.multmd
        elif isinstance(st, ast.Import):
            for a in st.names:
                if a.asname:
                    alias[a.asname] = a.name.replace(".", "/") + ".py"
    memo = {}

    def sig_of(name):
        if name in memo:
            return memo[name]
        out = None
        parts = name.split(".")
        if len(parts) == 2 and parts[0] in alias:
            target = alias[parts[0]]
            if os.path.isfile(os.path.join(ctx.src.repo, target)):
                try:
                    f = pristine(ctx, target)[0].get(parts[1])
                except (SyntaxError, OSError):
                    f = None
                if f is not None and not f.args.vararg and not f.decorator_list:
                    out = [x.arg for x in f.args.posonlyargs + f.args.args]
        memo[name] = out
        return out

    cache[rel] = sig_of
    return sig_of


def module_consts(ctx, rel):
    """{name: value node} of module-level names bound exactly once to a literal expression (constants and lookup tables)"""
    _, tree = pristine(ctx, rel)
    count, val = {}, {}
    for st in tree.body:
        tg = []
        if isinstance(st, ast.Assign):
            tg = st.targets
        elif isinstance(st, (ast.AnnAssign, ast.AugAssign)):
            tg = [st.target]
        for t in tg:
            for x in ast.walk(t):
                if isinstance(x, ast.Name):
                    count[x.id] = count.get(x.id, 0) + 1
        if isinstance(st, (ast.Assign, ast.AnnAssign)) and len(tg) == 1 and isinstance(tg[0], ast.Name) and st.value is not None:
            v = st.value
            if all(isinstance(x, (ast.Constant, ast.Tuple, ast.List, ast.Dict, ast.Name, ast.UnaryOp, ast.unaryop, ast.expr_context, ast.BinOp, ast.operator, ast.Attribute))
                   for x in ast.walk(v)):
                val[tg[0].id] = v
    return {k: v for k, v in val.items() if count.get(k) == 1}
