"""C16 -- CLA extrema, envelopes, uncertainty factors (partial claim).

Every rule is decided on values and effects: the anchored functions are executed on symbols by verifier/c16_interp.py (all paths, same-module
helpers followed, heap with aliasing: basic indexing is a view, advanced indexing / arithmetic / .copy() a new array), and the rules compare
what is stored where, under which facts, with what the property requires.  No rule looks at the spelling of the source.

  c16_ext.py   R1 role discipline + first-case freshness, R2 nan_arg* / maxmin / mirror, R3 SRS envelope
  c16_mask.py  NaN-aware selector masks decided by truth table over the feasible worlds of one element pair (a<b, a==b, a>b, a NaN, b NaN,
               both NaN): De Morgan forms, flipped comparisons, np.where, `x != x`, operator.gt passed as a value, helper functions and
               selectors inlined into their caller are the nan_argmax / nan_argmin call they equal
  c16_rows.py  maxmin decided row by row in the worlds "a row of numbers" / "a row with NaN samples and valid samples": element-wise predicates,
               row masks (`.all/.any(axis=1)`, NaN counts, isnan of the NaN-aware row extreme), np.where / masked stores into private copies and
               result tables replayed in program order, whole-matrix tests made on the path; every such row must get its own NaN-aware
               extremes and their abscissae, so a mask that is true for a row with a valid sample (`~isfinite(R).all(axis=1)`) is a violation
  c16_uf.py    R4 effects of _pre_calcs / apply_uf / frf_apply_uf and cache discipline, R5 documented factors, R6 exits and index spaces
  c16_labels.py R7 the row-compatibility step of form_extreme (the function that calls merge_lists, with its helpers) run by a small concrete
               interpreter in every world of two label lists over three labels: rows are placed by label, a shortcut that returns a category
               unexpanded needs the labels identical in order (equal lengths are not enough), the incoming event is not modified

Fourth pass.  Effects through views are stores on what the view was taken from (`.fill`, `out=` positional or keyword on any numpy call,
np.copyto / np.putmask incl. `where=`, `v = x[a:b]; v *= f`); an effect that is not followed makes the content of its target unknown: every
rule that concludes something from the *absence* of a store asks c16_interp.unfollowed_writes first (exit 2, never exit 1).  R5 no longer judges
store statements one by one: the stores into a, v, d_static, d_dynamic are replayed in program order per row class (rigid-body, elastic,
residual-flexibility) and the *final* content of each class must be the documented expression, so zero-filled or np.zeros-created parts, a fill
followed by partial overwrites, reordered partial stores and helpers are one thing, while an rf zeroing that is overwritten later, a late
`.fill`, or `*= 0` on np.empty memory are violations; a mismatch is a proof only if the value is an expression of the known quantities alone.
R1 / R2 read every value through one spelling of "column c of a table" (X.T[c], take(axis=1), X[..., c], negative c, X[J][:, c]) and a
failed comparison on a value that contains a construct without a model is undecided.  R6 gained the DR_Event.apply_uf wrapper (each argument
in its own role, results stored under the tuple they were computed with).  The interpreter also follows generator functions with literal
yields, namedtuple / NamedTuple / dataclass records, `try: d[k] except KeyError` as the test `k in d`, `x in (c1, c2, ..)` as the chain of
equality tests, zip of a literal table with an opaque sequence, set literals.

Fifth pass.  R1: a path of extrema that never asks `curext.ext_x is None` stands for both worlds of that test, so "no abscissa store at the
replaced rows" with a contributor that has no abscissae is a violation there too (an early `return`, a guarded call); it is undecided when curext
escapes into a call that was not followed.  New R7 (c16_labels.py).
"""
from __future__ import annotations

from .c16_ext import r1_roles, r2_mirror, r3_envelope
from .c16_uf import r4_cache_purity, r5_documented_factors, r6_exits_and_typing
from .c16_labels import r7_rows_by_label
from .c16_alias import r8_events_untouched

RULES = [
    ("C16-R1", r1_roles, 60),
    ("C16-R2", r2_mirror, 12),
    ("C16-R3", r3_envelope, 10),
    ("C16-R4", r4_cache_purity, 30),
    ("C16-R5", r5_documented_factors, 58),
    ("C16-R6", r6_exits_and_typing, 94),
    ("C16-R7", r7_rows_by_label, 20),
    ("C16-R8", r8_events_untouched, 4),
]
LEVEL = "other"
EXPLANATION = ("Static, on values: every path of cla.extrema (both arms, first and later cases, with and without abscissae and case numbers) keeps "
               "max-side and min-side bookkeeping in their columns, selects the rows of a role from that role's data only, moves value, label and "
               "abscissa together, and stores fresh copies on the first case (no aliasing of the contributor's tables or of the two label lists); "
               "nan_argmax/min, nan_absmax and maxmin compute what is documented and are mirror images (maxmin per kind of row: a row that has a valid "
               "sample gets its own NaN-aware extremes whatever masks, copies and np.where selections the code uses); the SRS envelope is first-or-running-maximum "
               "and independent of the slot index; apply_uf / _pre_calcs / frf_apply_uf write only into storage they allocated (views vs copies "
               "modelled, overwrite_*/out= keywords included), the cache is factor-independent and filled exactly when empty, every part is scaled by "
               "the documented factor (exact symbolic check of the final content of the rigid-body, elastic and rf rows of every part after "
               "replaying all stores in program order, diagonal and full matrices, with rf modes), d = d_static + d_dynamic on "
               "every exit, DR_Event.apply_uf hands its arguments to apply_uf in their own roles and keeps each result under its factor "
               "tuple, and full / non-rb / elastic / rf index spaces are used consistently end to end (cache entries typed from what "
               "_pre_calcs stores); form_extreme makes the envelope and the incoming event row-compatible by label (finite world: all pairs of "
               "ordered label subsets over three labels, cells are opaque tokens): same labels in the same order on both, every row under its own "
               "label, NaN rows in .ext for labels an event lacks, case labels follow, the event itself untouched.")
MANIFEST = {
    "text": "Partial claim decided statically on values and effects: (R1) role discipline and role information-flow in cla.extrema on every path, "
            "per-case records, first-case values are fresh copies (ext, ext_x, maxcase, mincase alike), _store_maxmin, frf_data_recovery; "
            "(R2) nan_argmax/min, nan_absmax, maxmin (NaN-aware position, value read at the reported position, decided for rows of numbers and "
            "rows with NaN samples: no row with a valid sample is replaced or overwritten under a row mask) and the two selectors are mirror "
            "images; (R3) the SRS envelope is first-or-fmax, independent of the slot index, and `first` is read before extrema(); (R4) _pre_calcs / "
            "apply_uf / frf_apply_uf mutate nothing they did not allocate (in-place stores, augmented assignments, overwrite_* / out= on library "
            "calls; basic indexing = view, advanced = copy), the cache is factor-independent, written only when empty, avterm is a snapshot; "
            "(R5) every part of the solution is scaled exactly as documented and genforce - avterm = K d for every m/b/k dimensionality with and "
            "without rf modes; (R6) every exit returns d = d_static + d_dynamic, DR_Event.apply_uf passes sol, m, b, k, nrb, rfmodes on in their roles and "
            "stores each result under the tuple it was computed with, and _pre_calcs/apply_uf use the full, non-rb, elastic and rf index "
            "spaces consistently; (R7) the row-compatibility step of form_extreme places every row of the envelope and of the incoming event under its "
            "own label in all worlds of two label lists over three labels (identical, permuted, subset, superset, overlapping, disjoint; with and "
            "without abscissa tables) and leaves the event unmodified. Not decided: NaN semantics of numpy comparisons, report formatting, "
            "merge() label handling, locate.merge_lists itself (taken by its documented contract).",
    "note": "Trusted: CPython ast; verifier/c16_interp.py (path enumeration, heap/alias model, table of numpy view/copy semantics), "
            "verifier/e2_formula.py (matrix products abstracted to scalar products), the space rules in verifier/c16_uf.py (Spaces), the row "
            "worlds of verifier/c16_rows.py (infinities not modelled: isfinite is read as ~isnan), the concrete mini-interpreter and the "
            "merge_lists contract model of verifier/c16_labels.py.",
    "technique": "abstract interpretation on symbolic values with path enumeration and an alias/effect model + exact symbolic factor check + "
                 "index-space type inference",
}
