"""C16 -- CLA extrema, envelopes, uncertainty factors (partial claim)."""
from __future__ import annotations

import ast

from . import e2_formula as F
from .core import AnchorError, Unsupported
from .e1_srcmodel import dotted, walk_no_nested, parent, utext
from .e2_eval import Evaluator, is_unknown, need
from .e3_spaces import Arr, Idx, Typer

UTIL = "pyyeti/cla/_utilities.py"
RES = "pyyeti/cla/dr_results.py"
EVT = "pyyeti/cla/dr_event.py"


def _col_of(node, base):
    """`base[:, C]` (possibly inside abs()) -> C ; `base` without a column -> 'all' ; else None"""
    n = node
    if isinstance(n, ast.Call) and dotted(n.func) in ("abs", "np.abs") and len(n.args) == 1:
        n = n.args[0]
    if ast.unparse(n) == base:
        return "all"
    if isinstance(n, ast.Subscript) and ast.unparse(n.value) == base and isinstance(n.slice, ast.Tuple) and len(n.slice.elts) == 2:
        r, c = n.slice.elts
        if isinstance(c, ast.Constant) and isinstance(c.value, int):
            return c.value
    return None


def _is_abs(node):
    return isinstance(node, ast.Call) and dotted(node.func) in ("abs", "np.abs")


def r1_roles(ctx):
    fn = ctx.src.func(UTIL, "extrema")
    top = fn.body
    # the one-column arm is the body of `if c == 1:`; the two-column arm is the rest of the function
    one = [s for s in top if isinstance(s, ast.If) and ast.unparse(s.test).replace(" ", "") == "c==1"]
    if len(one) != 1:
        raise AnchorError("extrema: `if c == 1:` arm")
    arms = {"one-column": one[0].body, "two-column": top[top.index(one[0]) + 1:]}
    nstores = nsel = 0
    for arm, body in arms.items():
        # --- per-case records:  curext.mx/mn/mx_x/mn_x[:, casenum] = mm.ext/ext_x[:, C]
        for st in [n for b in body for n in ast.walk(b)]:
            if isinstance(st, ast.Assign) and isinstance(st.targets[0], ast.Subscript):
                t = ast.unparse(st.targets[0].value)
                if t in ("curext.mx", "curext.mn", "curext.mx_x", "curext.mn_x") and not isinstance(st.value, ast.Attribute) \
                        and "nan" not in ast.unparse(st.value):
                    src = "mm.ext_x" if t.endswith("_x") else "mm.ext"
                    col = _col_of(st.value, src)
                    want = 0 if (arm == "one-column" or ".mx" in t) else 1
                    nstores += 1
                    ctx.check(col == want, f"extrema [{arm}]: `{t}` records column {want} of {src}", st, {"column": col})
        # --- running extrema: selector / label / value / abscissa all of one role
        stmts = [s for s in body if isinstance(s, ast.Assign) and ast.unparse(s.targets[0]) == "j"]
        for sel in stmts:
            v = sel.value
            # nan_argXXX(A, B).nonzero()[0]
            call = None
            for n in ast.walk(v):
                if isinstance(n, ast.Call) and dotted(n.func) in ("nan_argmax", "nan_argmin"):
                    call = n
            if call is None:
                ctx.error(f"extrema [{arm}]: selector shape", sel, ast.unparse(sel))
                continue
            kind = dotted(call.func)
            role = 0 if kind == "nan_argmax" else 1
            rname = "max" if role == 0 else "min"
            idx = body.index(sel)
            nxt = body[idx + 1] if idx + 1 < len(body) else None
            if not (isinstance(nxt, ast.If) and "j.size" in ast.unparse(nxt.test)):
                ctx.error(f"extrema [{arm}]: update block after the selector", sel)
                continue
            nsel += 1
            a_col = _col_of(call.args[0], "curext.ext")
            b_col = _col_of(call.args[1], "mm.ext")
            # role information flow: the rows of the role-R column that get overwritten are chosen from role-R data only
            ok = a_col == role
            ctx.check(ok, f"extrema [{arm}]: the rows of the stored {rname} column that get replaced are selected by comparing "
                          f"against that column only (`curext.ext[:, {role}]`)", sel,
                      None if ok else f"selector compares against {'both stored columns (broadcast)' if a_col == 'all' else a_col}: a new value that beats only the "
                                      f"stored {'min' if role == 0 else 'max'} also overwrites the stored {rname}; witness: one row, cases 5, 3, 4 -> stored extreme 4, true maximum 5 lost",
                      key=f"C16-R1|extrema|{arm}|{rname} selector reads column {a_col}")
            want_b = 0 if arm == "one-column" else role
            okb = b_col == want_b or (arm == "one-column" and b_col == "all")   # the incoming table has a single column in this arm
            ctx.check(okb, f"extrema [{arm}]: the {rname} selector reads column {want_b} of the incoming data", sel, {"column": b_col})
            if arm == "one-column":
                ok = _is_abs(call.args[0]) and _is_abs(call.args[1])
                ctx.check(ok, f"extrema [one-column]: the {rname} comparison is on absolute values (sign kept on store)", sel)
            else:
                ok = not _is_abs(call.args[0]) and not _is_abs(call.args[1])
                ctx.check(ok, f"extrema [two-column]: the {rname} comparison is on signed values", sel)
            # inside the update block
            for s2 in ast.walk(nxt):
                if isinstance(s2, ast.Assign) and isinstance(s2.targets[0], ast.Subscript):
                    t = ast.unparse(s2.targets[0].value)
                    if t in ("curext.maxcase", "curext.mincase"):
                        nstores += 1
                        ok = t == ("curext.maxcase" if role == 0 else "curext.mincase")
                        ctx.check(ok, f"extrema [{arm}]: the {rname} update relabels {'maxcase' if role == 0 else 'mincase'}", s2)
                        src = ast.unparse(s2.value)
                        want_src = "maxcase[i]" if (role == 0 or arm == "one-column") else "mincase[i]"
                        ctx.check(src == want_src, f"extrema [{arm}]: label for the {rname} update comes from `{want_src}`", s2, src)
                    if t == "curext.ext":
                        nstores += 1
                        c_t = s2.targets[0].slice.elts[1]
                        ok = isinstance(c_t, ast.Constant) and c_t.value == role and ast.unparse(s2.targets[0].slice.elts[0]) == "j"
                        ctx.check(ok, f"extrema [{arm}]: the {rname} update writes column {role} at the selected rows", s2)
                        src_col = _col_of(s2.value, "mm.ext") if not (isinstance(s2.value, ast.Subscript) and
                                                                      ast.unparse(s2.value.slice.elts[0]) == "j") else \
                            (s2.value.slice.elts[1].value if isinstance(s2.value.slice.elts[1], ast.Constant) else None)
                        ctx.check(src_col == want_b and ast.unparse(s2.value).startswith("mm.ext[j"),
                                  f"extrema [{arm}]: the stored {rname} value is column {want_b} of the incoming data at the same rows", s2)
                if isinstance(s2, ast.Call) and dotted(s2.func) == "_put_time":
                    args = [ast.unparse(a) for a in s2.args]
                    ok = args == ["curext", "mm", "j", str(role), str(want_b)]
                    nstores += 1
                    ctx.check(ok, f"extrema [{arm}]: the abscissa of the {rname} is moved with it (_put_time(curext, mm, j, {role}, {want_b}))", s2, args)
        # --- first case
        first = [s for s in body if isinstance(s, ast.If) and ast.unparse(s.test).replace(" ", "") == "curext.extisNone"]
        if len(first) != 1:
            ctx.error(f"extrema [{arm}]: first-case block", fn)
        else:
            txt = [utext(s) for s in first[0].body]
            if arm == "one-column":
                ok = "curext.ext=mm.ext@[[1,1]]" in txt and "curext.maxcase=maxcase" in txt and "curext.mincase=maxcase[:]" in txt
                ctx.check(ok, "extrema [one-column]: first case fills both columns with the value and gives mincase its own copy of the labels", first[0], txt)
            else:
                ok = "curext.ext=mm.ext.copy()" in txt and "curext.maxcase=maxcase" in txt and "curext.mincase=mincase" in txt
                ctx.check(ok, "extrema [two-column]: first case copies the incoming table; labels from maxcase / mincase", first[0], txt)
            ok = isinstance(first[0].body[-1], ast.Return)
            ctx.check(ok, f"extrema [{arm}]: nothing else runs on the first case", first[0], nontrivial=False)
            # the first-case test precedes the updates
            sels = [s for s in body if isinstance(s, ast.Assign) and ast.unparse(s.targets[0]) == "j"]
            ok = all(body.index(first[0]) < body.index(s) for s in sels)
            ctx.check(ok, f"extrema [{arm}]: the first-case test precedes the compare-and-replace", first[0], nontrivial=False)
    ctx.check(nsel == 4 and nstores >= 20, f"extrema: rule bound to {nsel} selectors and {nstores} role stores", fn, nontrivial=False)
    # label lists are copied, never aliased to the caller's
    txt = utext(fn)
    ok = "maxcase=maxcase[:]" in txt and "mincase=maxcase[:]" in txt and "mincase=mincase[:]" in txt
    ctx.check(ok, "extrema: label lists are copied (`[:]`) before being stored", fn)
    # _put_time moves mm.ext_x[j, col_rhs] into curext.ext_x[j, col_lhs]
    pt = ctx.src.func(UTIL, "extrema._put_time")
    ok = "curext.ext_x[j,col_lhs]=mm.ext_x[j,col_rhs]" in utext(pt)
    ctx.check(ok, "_put_time: curext.ext_x[j, lhs] = mm.ext_x[j, rhs]", pt)
    # _store_maxmin / frf_data_recovery
    sm = ctx.src.func(RES, "DR_Results._store_maxmin")
    want = {"res.mx": ("mm.ext", 0), "res.mx_x": ("mm.ext_x", 0), "res.mn": ("mm.ext", 1), "res.mn_x": ("mm.ext_x", 1)}
    seen = 0
    for st in walk_no_nested(sm):
        if isinstance(st, ast.Assign) and isinstance(st.targets[0], ast.Subscript):
            t = ast.unparse(st.targets[0].value)
            if t in want:
                seen += 1
                src, col = want[t]
                ok = _col_of(st.value, src) == col and ast.unparse(st.targets[0].slice).replace(" ", "") in ("(:,j)", ":,j")
                ctx.check(ok, f"_store_maxmin: `{t}[:, j]` records column {col} of {src}", st)
    ctx.check(seen == 4, "_store_maxmin: four per-case records", sm, nontrivial=False)
    ok = "res.cases[j]=case" in utext(sm)
    ctx.check(ok, "_store_maxmin: the case label goes to the same slot j", sm)
    fr = ctx.src.func(RES, "DR_Results.frf_data_recovery")
    txt = utext(fr)
    ok = "mm=maxmin(abs(resp),SOL.f)" in txt and "mm.ext[:,1]=-mm.ext[:,0]" in txt and "mm.ext_x[:,1]=mm.ext_x[:,0]" in txt
    ctx.check(ok, "frf_data_recovery: min column is minus the max of |resp| at the same abscissa", fr)


def r2_mirror(ctx):
    # nan_argmax / nan_argmin are mirror images
    a = ctx.src.func(UTIL, "nan_argmax")
    b = ctx.src.func(UTIL, "nan_argmin")
    ra = [n for n in ast.walk(a) if isinstance(n, ast.Return)][0].value
    rb = [n for n in ast.walk(b) if isinstance(n, ast.Return)][0].value
    ta = utext(ra)
    tb = utext(rb)
    ok = ta == "(v2>v1)|np.isnan(v1)&~np.isnan(v2)" and tb == ta.replace(">", "<")
    ctx.check(ok, "nan_argmax / nan_argmin: (v2 > v1) | (isnan(v1) & ~isnan(v2)) and its `<` mirror (a NaN is replaced by any number, never the reverse)",
              a, {"max": ta, "min": tb})
    na = ctx.src.func(UTIL, "nan_absmax")
    txt = utext(na)
    ok = "amx=v1.copy()" in txt and "pv=nan_argmax(abs(v1),abs(v2))" in txt and "amx[pv]=v2[pv]" in txt
    ctx.check(ok, "nan_absmax: copies v1, replaces where |v2| > |v1| keeping the sign", na)
    mm = ctx.src.func(UTIL, "maxmin")
    txt = utext(mm)
    ok = "jx=np.nanargmax(response,axis=1)" in txt and "jn=np.nanargmin(response,axis=1)" in txt \
        and "mx=response[ind,jx]" in txt and "mn=response[ind,jn]" in txt \
        and "ext=np.column_stack((mx,mn))" in txt and "ext_x=np.column_stack((x[jx],x[jn]))" in txt
    ctx.check(ok, "maxmin: column 0 = row max with its abscissa, column 1 = row min with its abscissa", mm)
    # the two selectors of each arm of extrema are each other's mirror
    fn = ctx.src.func(UTIL, "extrema")
    sels = [s for s in ast.walk(fn) if isinstance(s, ast.Assign) and ast.unparse(s.targets[0]) == "j"]
    by = {}
    for s in sels:
        one = any(isinstance(p_, ast.If) and ast.unparse(p_.test).replace(" ", "") == "c==1" for p_ in _anc(s))
        by.setdefault("one" if one else "two", []).append(ast.unparse(s.value).replace(" ", ""))
    for arm, lst in by.items():
        if len(lst) != 2:
            ctx.error(f"extrema: two selectors in the {arm}-column arm", fn)
            continue
        mx, mn = lst
        if arm == "two":
            mirror = mx.replace("nan_argmax", "nan_argmin").replace("[:,0]", "[:,1]")
        else:
            mirror = mx.replace("nan_argmax", "nan_argmin").replace("curext.ext[:,0]", "curext.ext[:,1]")
        ok = mirror == mn
        ctx.check(ok, f"extrema [{arm}-column]: the min selector is the mirror image of the max selector", fn,
                  None if ok else {"max": mx, "min": mn, "mirror of max": mirror})


def _anc(n):
    p_ = parent(n)
    while p_ is not None:
        yield p_
        p_ = parent(p_)


def r3_envelope(ctx):
    fn = ctx.src.func(RES, "DR_Results._compute_srs")
    env_stores = [s for s in ast.walk(fn) if isinstance(s, ast.Assign) and ast.unparse(s.targets[0]).replace(" ", "") == "res.srs.ext[q]"]
    if not env_stores:
        raise AnchorError("_compute_srs: no assignment to res.srs.ext[q]")
    for st in env_stores:
        v = ast.unparse(st.value).replace(" ", "")
        names = {n.id for n in ast.walk(st.value) if isinstance(n, ast.Name)}
        # the envelope over cases processed in ANY order must not depend on which slot j the case occupies
        ok = "j" not in names
        ctx.check(ok, "_compute_srs: the envelope value does not depend on the case slot index `j` (cases may be processed in any order)", st,
                  None if ok else f"`{v}` reads slots by position: with out-of-order processing the unfilled slots are zeros and filled higher slots are dropped")
        under_first = any(isinstance(a, ast.If) and ast.unparse(a.test) == "first" and any(st is y for x in a.body for y in ast.walk(x))
                          for a in _anc(st))
        if v == "srs_cur":
            ctx.check(under_first, "_compute_srs: the envelope is set to the current spectrum only on the first case", st)
        else:
            ok = v in ("np.fmax(res.srs.ext[q],srs_cur)", "np.fmax(srs_cur,res.srs.ext[q])", "np.maximum(res.srs.ext[q],srs_cur)",
                       "np.maximum(srs_cur,res.srs.ext[q])")
            ctx.check(ok, "_compute_srs: otherwise the envelope is max(old envelope, current spectrum) - a running maximum", st, v)
    pre = [s for s in ast.walk(fn) if isinstance(s, ast.Assign) and ast.unparse(s.targets[0]).replace(" ", "") == "res.srs.srs[q][j]"]
    ok = len(pre) == 1 and ast.unparse(pre[0].value) == "srs_cur"
    ctx.check(ok, "_compute_srs: the per-case spectrum goes to slot j", pre[0] if pre else fn)
    for q in ("time_data_recovery", "frf_data_recovery"):
        f2 = ctx.src.func(RES, f"DR_Results.{q}")
        loop = [n for n in f2.body if isinstance(n, ast.For)][0]
        fdef = [s for s in loop.body if isinstance(s, ast.Assign) and ast.unparse(s.targets[0]) == "first"]
        ext = [s for s in loop.body if isinstance(s, ast.Expr) and isinstance(s.value, ast.Call) and dotted(s.value.func) == "extrema"]
        ok = len(fdef) == 1 and ast.unparse(fdef[0].value).replace(" ", "") == "res.extisNone" and len(ext) == 1 \
            and loop.body.index(fdef[0]) < loop.body.index(ext[0])
        ctx.check(ok, f"{q}: `first = res.ext is None` is evaluated before extrema() fills res.ext", fdef[0] if fdef else f2)
        calls = [n for n in ast.walk(loop) if isinstance(n, ast.Call) and dotted(n.func) == "self._compute_srs"]
        ok = len(calls) == 1 and "first" in [ast.unparse(a_) for a_ in calls[0].args]
        ctx.check(ok, f"{q}: that flag is the one passed to _compute_srs", calls[0] if calls else f2)


# ---------------------------------------------------------------------------
def _cla_attrs():
    t = {
        "sol.a": Arr("N", None), "sol.v": Arr("N", None), "sol.d": Arr("N", None),
        "solout.a": Arr("N", None), "solout.v": Arr("N", None), "solout.d": Arr("N", None),
        "solout.d_static": Arr("N", None), "solout.d_dynamic": Arr("N", None),
        'save["genforce"]': Arr("NR", None),    # genforce = non-rb part of m a + b v + k d  (comment above _pre_calcs)
        'save["avterm"]': Arr("EL", None),      # avterm = non-rb, non-rf part
        'save["elastic"]': Idx("N", "EL"),      # elastic: positions in the full modal set
        'save["elastic_norb"]': Idx("NR", "EL"),  # positions relative to the non-rb rows
        'save["rf_norb"]': Idx("NR", "RF"),
        'save["lup_elastic"]': Arr("EL", "EL"), 'save["lup_rf"]': Arr("RF", "RF"),
    }
    return t


def r6_exits_and_typing(ctx):
    fn = ctx.src.func(EVT, "apply_uf")
    rets = [n for n in walk_no_nested(fn) if isinstance(n, ast.Return)]
    n = 0
    for r in rets:
        if ast.unparse(r.value) != "solout":
            continue
        n += 1
        blk = None
        p_ = parent(r)
        for fld in ("body", "orelse"):
            b = getattr(p_, fld, None)
            if isinstance(b, list) and r in b:
                blk = b
        prev = blk[blk.index(r) - 1] if blk and blk.index(r) > 0 else None
        ok = prev is not None and utext(prev) in ("solout.d=solout.d_static+solout.d_dynamic",
                                                                       "solout.d=solout.d_dynamic+solout.d_static")
        ctx.check(ok, "apply_uf: `return solout` is immediately preceded by d = d_static + d_dynamic", r)
    ctx.check(n == 3, "apply_uf: three exits", fn, nontrivial=False)
    # typing of _pre_calcs and apply_uf
    bad = []
    params = {"m": Arr("N", "N"), "b": Arr("N", "N"), "k": Arr("N", "N"), "rfmodes": Idx("N", "RF")}
    slices = {("nrb", None): Idx("N", "NR"), (None, "nrb"): Idx("N", "RB")}
    for q in ("_pre_calcs", "apply_uf"):
        f2 = ctx.src.func(EVT, q)
        rep = {}

        def report(kind, node, detail, rep=rep):
            rep.setdefault(id(node), []).append((kind, node, detail))

        T = Typer(_cla_attrs(), dict(params), set(), report, q)
        T.slices = slices
        if q == "_pre_calcs":
            # the local partition vectors; their meaning is fixed by the two arms that define them
            T.env.update({"elastic": Idx("N", "EL"), "elastic_norb": Idx("NR", "EL"), "rf_norb": Idx("NR", "RF"),
                          "genforce": Arr("NR", None)})
            body = [s for s in f2.body if not (isinstance(s, ast.If) and "rfmodes is not None" in ast.unparse(s.test) and
                                                any(isinstance(x, ast.Assign) and ast.unparse(x.targets[0]) == "elastic" for x in s.body))
                    and not (isinstance(s, ast.Assign) and ast.unparse(s.targets[0]) == "genforce")]
        else:
            body = f2.body
        T.run(body)
        seen = set()
        for lst in rep.values():
            for kind, node, detail in lst:
                key = f"C16-R6|{q}|{kind}|{ast.unparse(node)[:80]}"
                if key in seen:
                    continue
                seen.add(key)
                ctx.fail(f"{q}: {kind}", node, detail, key=key)
        for node in T.checked:
            if id(node) not in rep:
                ctx.ok(f"{q}: `{ast.unparse(node)[:70]}` full / non-rb / elastic index spaces agree", node)
        if q == "_pre_calcs":
            want = _cla_attrs()
            for d, v, st in T.attr_stores:
                if d in want and v is not None:
                    w = want[d]
                    ok = (isinstance(v, Arr) and isinstance(w, Arr) and v.s[0] == w.s[0]) or \
                         (isinstance(v, Idx) and isinstance(w, Idx) and (v.dom, v.cod) == (w.dom, w.cod))
                    ctx.check(ok, f"_pre_calcs: `{d}` is stored with the space apply_uf assumes", st, {"stored": repr(v), "assumed": repr(w)})
    # the definitions of elastic / elastic_norb / rf_norb themselves
    f2 = ctx.src.func(EVT, "_pre_calcs")
    txt = utext(f2)
    ok = "elastic=flippv(rfmodes,n)[nrb:]" in txt and "elastic_norb=index2slice(elastic-nrb)" in txt and "rf_norb=rfmodes-nrb" in txt \
        and "elastic=slice(nrb,None)" in txt and "elastic_norb=slice(n-nrb)" in txt
    ctx.check(ok, "_pre_calcs: elastic = non-rb non-rf positions (full set); elastic_norb = elastic - nrb; rf_norb = rfmodes - nrb", f2)
    ok = "genforce=np.empty((n-nrb,sol.a.shape[1]),sol.a.dtype)" in txt
    ctx.check(ok, "_pre_calcs: genforce has one row per non-rb equation", f2)


def r4_cache_purity(ctx):
    pc = ctx.src.func(EVT, "_pre_calcs")
    args = [a.arg for a in pc.args.args]
    ok = not ({"uf_reds", "ruf", "euf", "duf", "suf"} & set(args))
    ctx.check(ok, "_pre_calcs does not receive the uncertainty factors (nothing it caches can depend on them)", pc, args)
    names = {n.id for n in ast.walk(pc) if isinstance(n, ast.Name)}
    ok = not ({"uf_reds", "ruf", "euf", "duf", "suf"} & names)
    ctx.check(ok, "_pre_calcs does not mention any uncertainty factor", pc)
    fn = ctx.src.func(EVT, "apply_uf")
    # loads from save[...] are never the target of an in-place operation
    loaded = {}
    for st in walk_no_nested(fn):
        if isinstance(st, ast.Assign) and isinstance(st.targets[0], ast.Name):
            v = st.value
            if isinstance(v, ast.NamedExpr):
                v = v.value
            if isinstance(v, ast.Subscript) and ast.unparse(v.value) == "save":
                loaded[st.targets[0].id] = st
    for n in walk_no_nested(fn):
        if isinstance(n, ast.NamedExpr) and isinstance(n.value, ast.Subscript) and ast.unparse(n.value.value) == "save":
            loaded[n.target.id] = n
    inplace = []
    for st in walk_no_nested(fn):
        tgt = None
        if isinstance(st, ast.AugAssign):
            tgt = st.target
        elif isinstance(st, ast.Assign) and isinstance(st.targets[0], ast.Subscript):
            tgt = st.targets[0]
        if tgt is None:
            continue
        base = tgt
        while isinstance(base, ast.Subscript):
            base = base.value
        inplace.append((st, ast.unparse(base)))
    for st, base in inplace:
        ok = base not in loaded and not base.startswith("save") and not base.startswith("sol.")
        ctx.check(ok, f"apply_uf: in-place write `{ast.unparse(st)[:60]}` touches neither the cache nor the caller's solution", st)
    # every array written in place was created fresh inside apply_uf
    fresh = {}
    for st in walk_no_nested(fn):
        if isinstance(st, ast.Assign) and isinstance(st.targets[0], ast.Attribute) and ast.unparse(st.targets[0]).startswith("solout."):
            v = ast.unparse(st.value).replace(" ", "")
            fresh[ast.unparse(st.targets[0])] = v.endswith(".copy()") or v.startswith("np.empty_like(") or "+" in v or "*" in v
    for st, base in inplace:
        if base.startswith("solout."):
            ok = fresh.get(base) is True
            ctx.check(ok, f"apply_uf: `{base}` written in place is a fresh array (copy / empty_like), not the caller's", st, fresh.get(base))
    # values multiplied by the factors are new arrays
    for nm in ("avterm", "gf"):
        d = [s for s in walk_no_nested(fn) if isinstance(s, ast.Assign) and ast.unparse(s.targets[0]) == nm]
        ok = bool(d) and isinstance(d[0].value, ast.BinOp) and isinstance(d[0].value.op, ast.Mult) and "save[" in ast.unparse(d[0].value)
        ctx.check(ok, f"apply_uf: `{nm}` is a new array (factor * cached value), the cache entry is left untouched", d[0] if d else fn)
    # _pre_calcs runs iff the cache is empty
    calls = [n for n in walk_no_nested(fn) if isinstance(n, ast.Call) and dotted(n.func) == "_pre_calcs"]
    ok = len(calls) == 1 and isinstance(parent(parent(calls[0])), ast.If) and \
        ast.unparse(parent(parent(calls[0])).test).replace(" ", "").replace("'", '"') == '"genforce"notinsave'
    ctx.check(ok, "apply_uf: _pre_calcs runs exactly when the cache has no 'genforce' entry", calls[0] if calls else fn)
    args = [ast.unparse(a) for a in calls[0].args] if calls else []
    ctx.check(args == ["sol", "m", "b", "k", "nrb", "rfmodes", "save"], "apply_uf: _pre_calcs receives the unscaled sol", fn, args)
    # avterm is a snapshot taken before the stiffness term is added
    body = pc.body
    av = [s for s in body if isinstance(s, ast.Assign) and ast.unparse(s.targets[0]) == "avterm"]
    kadd = [s for s in ast.walk(pc) if isinstance(s, ast.AugAssign) and "sol.d" in ast.unparse(s.value)]
    guard = [s for s in body if isinstance(s, ast.If) and "avterm.base" in ast.unparse(s.test)
             and any("avterm=avterm.copy()" in utext(x) for x in s.body)]
    ok = bool(av) and bool(kadd) and all(av[0].lineno < k_.lineno for k_ in kadd) and \
        (bool(guard) and av[0].lineno < guard[0].lineno < min(k_.lineno for k_ in kadd) or ".copy()" in ast.unparse(av[0].value))
    ctx.check(ok, "_pre_calcs: avterm is copied (not a view of genforce) before the stiffness term is accumulated into genforce", av[0] if av else pc)


def _stores_by(ev, base):
    return [(idx, val, st) for b, idx, val, st in ev.stores if b == base]


def r5_documented_factors(ctx):
    fn = ctx.src.func(EVT, "apply_uf")
    ruf, euf, duf, suf = (F.sym(x) for x in ("ruf", "euf", "duf", "suf"))
    A, V, PG, GF, AV, K = (F.sym(x) for x in ("A", "V", "PG", "GF", "AV", "K"))
    for kdim in (1, 2):
        def cond(test, ev, kdim=kdim):
            t = utext(test).replace("'", '"')
            if t == "nrb>0":
                return True
            if t == "nrb==k.shape[0]":
                return False
            if t == "rfmodesisnotNone":
                return True
            if t == "saveisNone":
                return False
            if t == '"genforce"notinsave':
                return False
            if t == "k.ndim==1":
                return kdim == 1
            if "isnotNone" in t and "lup" in t:
                return True
            return None

        def sub(node, ev):
            t = utext(node).replace("'", '"')
            if t == 'save["genforce"]':
                return GF
            if t == 'save["avterm"]':
                return AV
            if t.startswith("save["):
                return F.sym("idx")
            return NotImplemented

        def call(node, ev):
            d = dotted(node.func)
            if d == "la.lu_solve":
                b_ = ev.ev(node.args[1])
                if is_unknown(b_):
                    return b_
                return need(b_) / K
            if d == "SimpleNamespace":
                return F.sym("ns")
            if d in ("np.empty_like",):
                return F.sym("uninit")
            return NotImplemented

        env = {"solout.a": A, "solout.v": V, "sol.pg": PG, "k": K, "uf_reds": (ruf, euf, duf, suf)}
        ev = Evaluator(env=env, cond=cond, src=ctx.src, subscript=sub, call=call)
        body = [s for s in fn.body if not (isinstance(s, ast.If) and "rfmodes is not None" in ast.unparse(s.test) and
                                           "np.atleast_1d" in ast.unparse(s))]
        # statements under try: solout.pg = sol.pg * suf
        for s in body:
            if isinstance(s, ast.Try):
                ev.run(s.body)
            else:
                ev.stmt(s)
        tag = f"apply_uf (k {'diagonal' if kdim == 1 else 'full'})"
        want = {
            ("solout.a", ":nrb"): A * ruf * suf, ("solout.v", ":nrb"): V * ruf * suf,
            ("solout.a", "nrb:"): A * euf * duf, ("solout.v", "nrb:"): V * euf * duf,
            ("solout.a", "rfmodes"): F.const(0), ("solout.v", "rfmodes"): F.const(0), ("solout.d_dynamic", "rfmodes"): F.const(0),
            ("solout.d_static", ":nrb"): F.const(0), ("solout.d_dynamic", ":nrb"): F.const(0),
        }
        if kdim == 1:
            want[("solout.d_static", "nrb:")] = euf * suf * GF / K
            want[("solout.d_dynamic", "elastic")] = -euf * duf * AV / K
        else:
            want[("solout.d_static", "elastic")] = euf * suf * GF / K
            want[("solout.d_dynamic", "elastic")] = -euf * duf * AV / K
            want[("solout.d_static", "rfmodes")] = euf * suf * GF / K
        got = {}
        for b_, idx, val, st in ev.stores:
            got[(b_, idx)] = (val, st)
        for key, w in want.items():
            if key not in got:
                ctx.fail(f"{tag}: `{key[0]}[{key[1]}]` is assigned", fn, sorted(f"{a}[{b}]" for a, b in got))
                continue
            val, st = got[key]
            if is_unknown(val):
                ctx.error(f"{tag}: {key[0]}[{key[1]}]", st, repr(val))
                continue
            ok = val.equals(w)
            ctx.check(ok, f"{tag}: {key[0]}[{key[1]}] is scaled as documented ({w})", st, None if ok else {"got": repr(val), "documented": repr(w)})
        extra = [k_ for k_ in got if k_ not in want]
        ctx.check(not extra, f"{tag}: no other part of the solution is scaled", fn, [f"{a}[{b}]" for a, b in extra], nontrivial=False)
        pg = ev.env.get("solout.pg")
        ok = pg is not None and not is_unknown(pg) and pg.equals(PG * suf)
        ctx.check(ok, f"{tag}: pg is scaled by suf", fn, None if ok else repr(pg))
    # _pre_calcs: genforce - avterm = K d on the elastic rows, for 1-D and 2-D m, b, k
    pc = ctx.src.func(EVT, "_pre_calcs")
    M, B, Kk, a, v, d = (F.sym(x) for x in ("M", "B", "Kk", "a", "v", "d"))
    for md in ("none", 1, 2):
        for bd in (1, 2):
            for kd in (1, 2):
                def cond(test, ev, md=md, bd=bd, kd=kd):
                    t = utext(test)
                    return {"misNone": md == "none", "m.ndim==1": md == 1, "b.ndim==1": bd == 1, "k.ndim==1": kd == 1,
                            "rfmodesisnotNone": False, "isinstance(elastic,slice)": True, "avterm.baseisnotNone": False}.get(t)

                env = {"sol.a": a, "sol.v": v, "sol.d": d, "m": M, "b": B, "k": Kk, "genforce": F.const(0)}
                ev = Evaluator(env=env, cond=cond, src=ctx.src, store_accept=lambda b_, i, st: b_ == "genforce")
                # avterm snapshot: record value of genforce at the time avterm is assigned
                snap = {}
                for s in pc.body:
                    if isinstance(s, ast.Assign) and ast.unparse(s.targets[0]) == "genforce":
                        continue
                    ev.stmt(s)
                    if isinstance(s, ast.Assign) and ast.unparse(s.targets[0]) == "avterm":
                        snap["av"] = ev.env.get("avterm")
                gf, av = ev.env.get("genforce"), snap.get("av")
                mm = F.const(1) if md == "none" else M
                if gf is None or av is None or is_unknown(gf) or is_unknown(av):
                    ctx.error(f"_pre_calcs (m {md}, b {bd}-D, k {kd}-D)", pc, f"{gf} {av}")
                    continue
                ok = gf.equals(mm * a + B * v + Kk * d) and av.equals(mm * a + B * v)
                ctx.check(ok, f"_pre_calcs (m {md}, b {bd}-D, k {kd}-D): genforce = m a + b v + k d and avterm = m a + b v "
                              "(so d_static + d_dynamic = K^-1 (K d) = d for unit factors)", pc,
                          None if ok else {"genforce": repr(gf), "avterm": repr(av)})
    # frf_apply_uf: documented factors
    ff = ctx.src.func(EVT, "DR_Event.frf_apply_uf")
    txt = utext(ff)
    ok = all(f"SOL.{x}[:nrb]*=ruf*suf" in txt and f"SOL.{x}[nrb:]*=euf*duf" in txt for x in "avd") and "SOL.pg*=suf" in txt \
        and "ruf,euf,duf,suf=item" in txt and "solout[item]=copy.deepcopy(sol)" in txt
    ctx.check(ok, "frf_apply_uf: a, v, d rb part *= ruf*suf, elastic part *= euf*duf, pg *= suf, on a deep copy", ff)
    au = ctx.src.func(EVT, "apply_uf")
    ok = "ruf,euf,duf,suf=uf_reds" in utext(au)
    ctx.check(ok, "apply_uf: factor tuple order is (rigid, elastic, dynamic, static)", au)


RULES = [
    ("C16-R1", r1_roles, 40),
    ("C16-R2", r2_mirror, 5),
    ("C16-R3", r3_envelope, 6),
    ("C16-R4", r4_cache_purity, 20),
    ("C16-R5", r5_documented_factors, 40),
    ("C16-R6", r6_exits_and_typing, 25),
]
LEVEL = "other"
EXPLANATION = ("Static: max-side and min-side bookkeeping of extrema/_store_maxmin/maxmin are mirror images and stay in their columns, and the "
               "row selector of each role is computed from that role's data only; the SRS envelope is a running maximum; apply_uf scales each "
               "part by the documented factor (exact symbolic check for diagonal and full stiffness), its cache holds factor-independent values "
               "that are never mutated, d = d_static + d_dynamic on every exit, and full / non-rb / elastic index spaces are used consistently.")
MANIFEST = {
    "text": "Partial claim decided statically: (R1) role discipline and role information-flow in cla.extrema (both arms), _store_maxmin, frf_data_recovery; "
            "(R2) nan_argmax/min, maxmin and the two selectors are mirror images; (R3) the SRS envelope is first-or-fmax and `first` is read before extrema(); "
            "(R4) apply_uf's cache is factor-independent, never mutated, written only when empty, avterm is a snapshot; (R5) every part of the solution is "
            "scaled exactly as documented and genforce - avterm = K d for every m/b/k dimensionality; (R6) every exit sets d = d_static + d_dynamic and "
            "_pre_calcs/apply_uf use the full, non-rb and elastic index spaces consistently. Not decided: NaN semantics of numpy comparisons, report "
            "formatting, form_extreme/merge label handling.",
    "note": "Trusted: CPython ast; verifier/e2_formula.py (matrix products abstracted to scalar products), verifier/e3_spaces.py with the space table in verifier/c16.py.",
    "technique": "static role/information-flow rules on the AST + exact symbolic factor check + index-space type inference + effect analysis of the cache",
}
