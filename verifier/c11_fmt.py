"""C11 -- per-variant format tables of the OUTPUT2 / OUTPUT4 readers, decided on values.

`tables(ctx)` evaluates `OP2._op2open` and `OP4._op4open_read` once per key width (the test that selects the width is decided by an oracle, every
other test forks into a selection) and returns the attribute values (`self._intstr`, `self._Str_iii`, `self._bytes_sr`, ...) as formulas.
`strval` / `numval` turn a formula into the text / the number it denotes for one key width: string literals, concatenations, f-strings,
`.replace()` chains, `np.dtype(...)`, `struct.Struct(...)`, locals and attributes are all followed, so the spelling of a format does not matter.
The byte order is the symbol `self._endian`; it prints as ENDIAN."""
from __future__ import annotations

import ast
import re

from . import e2_formula as F
from .core import Unsupported
from .e1_srcmodel import dotted
from .e2_eval import is_unknown
from . import c11_consume as C

OP4 = "pyyeti/nastran/op4.py"
OP2 = "pyyeti/nastran/op2.py"

ENDIAN = "§"
STRUCT_SIZE = {"b": 1, "B": 1, "h": 2, "H": 2, "i": 4, "I": 4, "l": 4, "L": 4, "q": 8, "Q": 8, "f": 4, "d": 8}
STRUCT_KIND = {"b": "int", "B": "uint", "h": "int", "H": "uint", "i": "int", "I": "uint", "l": "int", "L": "uint", "q": "int", "Q": "uint",
               "f": "float", "d": "float"}
NP_KIND = {"i": "int", "u": "uint", "f": "float"}


def _width_cond(bits, what):
    """oracle deciding the test that selects the key width: `reclen == 4` (op2) / `self._bit64`, `self._ascii` (op4)"""
    def cond(test, ev):
        if what == "op2":
            if isinstance(test, ast.Compare) and len(test.ops) == 1 and isinstance(test.ops[0], ast.Eq):
                for side in (test.left, test.comparators[0]):
                    if isinstance(side, ast.Constant) and side.value in (4, 8) and not isinstance(side.value, bool):
                        return side.value * 8 == bits
            return None
        d = dotted(test)
        if d == "self._bit64":
            return bits == 64
        if d == "self._ascii":
            return False
        return None
    return cond


def _is_setter(name, f):
    """a method that only sets up attributes of the object (no loop): part of the set-up wherever it was moved"""
    stores = any(isinstance(n, ast.Attribute) and isinstance(n.ctx, ast.Store) and isinstance(n.value, ast.Name) and n.value.id == "self" for n in ast.walk(f))
    loops = any(isinstance(n, (ast.While, ast.For, ast.AsyncFor)) for n in ast.walk(f))
    return stores and not loops


def tables(ctx):
    tb = getattr(ctx, "_c11_tables", None)
    if tb is not None:
        return tb
    tb = {"op2": {}, "op4": {}}
    for what, rel, cls, q in (("op2", OP2, "OP2", "OP2._op2open"), ("op4", OP4, "OP4", "OP4._op4open_read")):
        fn = ctx.src.func(rel, q)
        for bits in (32, 64):
            w = C.Walker(ctx, rel, cls, fn, cond=_width_cond(bits, what), follow=_is_setter, files=(), pinned={"self._endian": F.sym("self._endian")})
            w.run_function()
            tb[what][bits] = {k: v for k, v in w.ev.env.items() if k.startswith("self.")}
    tb["fn"] = {"op2": ctx.src.func(OP2, "OP2._op2open"), "op4": ctx.src.func(OP4, "OP4._op4open_read")}
    ctx._c11_tables = tb
    return tb


def strval(v, tb, depth=0):
    """the text a formula denotes under an attribute table; None when it is not (known to be) text"""
    if v is None or is_unknown(v) or isinstance(v, tuple) or depth > 12:
        return None
    n = C.sym_name(v)
    if n is not None:
        if n == "self._endian":
            return ENDIAN
        if n[:1] in "'\"":
            try:
                return ast.literal_eval(n)
            except Exception:  # noqa
                return None
        if n in tb:
            return strval(tb[n], tb, depth + 1)
        return None
    p = C.fn_parts(v)
    if p is None:
        if not v.d.is_const():
            return None
        terms = [(m, c / v.d.const_value()) for m, c in v.n.t.items()]
        parts = []
        for m, c in terms:
            # c * text: repetition
            if len(m) != 1 or m[0][1] != 1 or c.denominator != 1 or c <= 0:
                return None
            at = F.Rat(F.Poly.atom(m[0][0]))
            s = strval(at, tb, depth + 1)
            if s is None:
                return None
            parts.append((C.sym_name(at) == "self._endian", s * int(c)))
        if len(parts) == 1:
            return parts[0][1]
        # byte order + text written as a (commutative) sum: the byte order character comes first
        if len(parts) == 2 and sum(1 for e, _s in parts if e) == 1:
            return "".join(s for e, s in sorted(parts, key=lambda x: not x[0]))
        return None
    nm, args = p
    if nm in ("fmt", "mod") and len(args) == 2 and not isinstance(args[1], str) and args[1].is_const() and args[1].const_value().denominator == 1:
        f_ = strval(args[0], tb, depth + 1)
        try:
            return None if f_ is None else f_ % int(args[1].const_value())
        except (TypeError, ValueError):
            return None
    if nm == "cat":
        def part(x):
            # a number interpolated into a text (f"{e}f{nbytes}") prints as its decimal digits
            n_ = numval(x, tb)
            if n_ is not None and n_.is_const() and n_.const_value().denominator == 1:
                return str(int(n_.const_value()))
            return strval(x, tb, depth + 1)
        a, b = part(args[0]), part(args[1])
        return None if a is None or b is None else a + b
    if nm in ("call:np.dtype", "call:numpy.dtype", "call:struct.Struct", "structof", "call:str") and len(args) >= 1:
        return strval(args[0], tb, depth + 1)
    if nm.startswith("call:") and nm.endswith(".replace"):
        recv = None
        rest = args
        if nm == "call:.replace":
            recv, rest = args[0], args[1:]
        else:
            recv = F.sym(nm[5:-len(".replace")])
        if len(rest) != 2:
            return None
        s, a, b = strval(recv, tb, depth + 1), strval(rest[0], tb, depth + 1), strval(rest[1], tb, depth + 1)
        return None if None in (s, a, b) else s.replace(a, b)
    return None


def numval(v, tb):
    """the formula with every attribute of the table that is a number substituted (symbols that are not in the table stay)"""
    if v is None or is_unknown(v) or isinstance(v, tuple):
        return None
    mp = {}
    for d in C.walk_atoms(v):
        if d[0] == "s" and d[1] in tb and not is_unknown(tb[d[1]]) and not isinstance(tb[d[1]], tuple) and tb[d[1]] is not None:
            if tb[d[1]].is_const():
                mp[d[1]] = tb[d[1]]
    try:
        return v.subs(mp) if mp else v
    except Unsupported:
        return None


def struct_items(text):
    """'ENDIAN%dd' / '<3q' / 'qq' -> (has byte order, [(count or '%d', code)]) ; None if it is not a struct format of the supported codes"""
    if text is None:
        return None
    m = re.fullmatch(r"([" + ENDIAN + r"<>=@!]?)((?:(?:%d|\d*)[bBhHiIlLqQfd])+)", text)
    if not m:
        return None
    items = [("%d" if c == "%d" else (int(c) if c else 1), k) for c, k in re.findall(r"(%d|\d*)([bBhHiIlLqQfd])", m.group(2))]
    return m.group(1), items


def struct_size(text, count=None):
    """size in bytes of a struct format (formula; `count` stands for %d)"""
    it = struct_items(text)
    if it is None:
        return None
    tot = F.const(0)
    for c, k in it[1]:
        if c == "%d":
            if count is None:
                return None
            tot = tot + count * STRUCT_SIZE[k]
        else:
            tot = tot + c * STRUCT_SIZE[k]
    return tot


def dtype_of(text):
    """'ENDIANf8' -> (byte order, kind letter, size)"""
    if text is None:
        return None
    m = re.fullmatch(r"([" + ENDIAN + r"<>=|]?)([iuf])(\d)", text)
    if not m:
        return None
    return m.group(1), m.group(2), int(m.group(3))


def show_cond(c):
    """readable text of a selection condition"""
    c = C.norm(c, whole_values=False) if not is_unknown(c) else c
    return _show(c)


def _show(v):
    if v is None or is_unknown(v):
        return "?"
    n = C.sym_name(v)
    if n is not None:
        return n
    p = C.fn_parts(v)
    if p is None:
        return repr(v)
    nm, a = p
    if nm == "eq0":
        d = a[0]
        # x - 'lit'  ->  x == 'lit'
        terms = list(d.n.t.items())
        if len(terms) == 2 and d.d.is_const():
            (m1, c1), (m2, c2) = terms
            if c1 == -c2 and len(m1) == 1 and len(m2) == 1:
                x, y = F.Rat(F.Poly.atom(m1[0][0])), F.Rat(F.Poly.atom(m2[0][0]))
                if (C.sym_name(x) or "")[:1] in "'\"":
                    x, y = y, x
                return f"{_show(x)} == {_show(y)}"
        return f"{_show(d)} == 0"
    if nm == "not":
        return f"not ({_show(a[0])})"
    if nm == "odd":
        return f"{_show(a[0])} & 1"
    if nm == "idx":
        q = C.fn_parts(a[0]) if not isinstance(a[0], str) else None
        if q is not None and q[0] == "dec":
            return f"header word {_show(a[1])}"
        return f"{_show(a[0])}[{_show(a[1])}]"
    if nm in ("bool:Or", "bool:And"):
        return (" or " if nm == "bool:Or" else " and ").join(_show(x) for x in a)
    if nm == "ge0":
        return f"{_show(a[0])} >= 0"
    return repr(v)
