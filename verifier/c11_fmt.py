"""C11 -- per-variant format tables of the OUTPUT2 / OUTPUT4 readers, decided on values.

`tables(ctx)` evaluates `OP2._op2open` and `OP4._op4open_read` once per key width (the test that selects the width is decided by an oracle, every
other test forks into a selection) and returns the attribute values (`self._intstr`, `self._Str_iii`, `self._bytes_sr`, ...) as formulas.
`strval` / `numval` turn a formula into the text / the number it denotes for one key width: string literals, concatenations, f-strings,
`.replace()` chains, `np.dtype(...)`, `struct.Struct(...)`, locals and attributes are all followed, so the spelling of a format does not matter.
The byte order is the symbol `self._endian`; it prints as ENDIAN."""
from __future__ import annotations

import ast
import re

from . import e2_formula as F
from .core import Unsupported
from .e1_srcmodel import dotted
from .e2_eval import is_unknown
from . import c11_consume as C
from . import c11_conc as K

OP4 = "pyyeti/nastran/op4.py"
OP2 = "pyyeti/nastran/op2.py"

ENDIAN = "§"
STRUCT_SIZE = {"b": 1, "B": 1, "h": 2, "H": 2, "i": 4, "I": 4, "l": 4, "L": 4, "q": 8, "Q": 8, "f": 4, "d": 8}
STRUCT_KIND = {"b": "int", "B": "uint", "h": "int", "H": "uint", "i": "int", "I": "uint", "l": "int", "L": "uint", "q": "int", "Q": "uint",
               "f": "float", "d": "float"}
NP_KIND = {"i": "int", "u": "uint", "f": "float"}


def _width_cond(bits, what):
    """oracle deciding the test that selects the key width: `reclen == 4` (op2) / `self._bit64`, `self._ascii` (op4)"""
    def cond(test, ev):
        if what == "op2":
            if isinstance(test, ast.Compare) and len(test.ops) == 1 and isinstance(test.ops[0], ast.Eq):
                for side in (test.left, test.comparators[0]):
                    if isinstance(side, ast.Constant) and side.value in (4, 8) and not isinstance(side.value, bool):
                        return side.value * 8 == bits
            return None
        d = dotted(test)
        if d == "self._bit64":
            return bits == 64
        if d == "self._ascii":
            return False
        return None
    return cond


def _is_setter(name, f):
    """a method that only sets up attributes of the object (no loop): part of the set-up wherever it was moved"""
    stores = any(isinstance(n, ast.Attribute) and isinstance(n.ctx, ast.Store) and isinstance(n.value, ast.Name) and n.value.id == "self" for n in ast.walk(f))
    loops = any(isinstance(n, (ast.While, ast.For, ast.AsyncFor)) for n in ast.walk(f))
    return stores and not loops


def _width_names(fn):
    """the locals that hold the width of a key in bytes: compared with 4 / 8 (`x == 4`, `x in (4, 8)`, `x == [4, 8]`) or used as the key of a
    literal table whose keys are 4 and 8"""
    def is_width(n):
        if isinstance(n, ast.Constant):
            return n.value in (4, 8) and not isinstance(n.value, bool)
        if isinstance(n, (ast.Tuple, ast.List, ast.Set)):
            return bool(n.elts) and all(is_width(e) for e in n.elts)
        return False
    out = set()
    for n in ast.walk(fn):
        if isinstance(n, ast.Compare) and len(n.ops) == 1 and isinstance(n.ops[0], (ast.Eq, ast.NotEq, ast.In, ast.NotIn)):
            for a, b in ((n.left, n.comparators[0]), (n.comparators[0], n.left)):
                if isinstance(a, ast.Name) and is_width(b):
                    out.add(a.id)
        if isinstance(n, ast.Subscript) and isinstance(n.value, ast.Dict) and isinstance(n.slice, ast.Name) and n.value.keys \
                and all(k is not None and is_width(k) for k in n.value.keys):
            out.add(n.slice.id)
    return out


def tables(ctx):
    tb = getattr(ctx, "_c11_tables", None)
    if tb is not None:
        return tb
    tb = {"op2": {}, "op4": {}}
    for what, rel, cls, q in (("op2", OP2, "OP2", "OP2._op2open"), ("op4", OP4, "OP4", "OP4._op4open_read")):
        fn = ctx.src.func(rel, C.resolve_method(ctx, rel, q))
        for bits in (32, 64):
            pinned = {"self._endian": F.sym("self._endian")}
            if what == "op2":
                # the key width is a value: whatever is tested against 4 / 8 holds it (the tests then decide themselves)
                for nm in _width_names(fn):
                    pinned[nm] = F.const(bits // 8)
            w = C.Walker(ctx, rel, cls, fn, cond=_width_cond(bits, what), follow=_is_setter, files=(), pinned=pinned)
            try:
                w.run_function()
            except Unsupported:
                raise
            except C.Stuck as e:
                raise Unsupported(f"{q}: {e}")
            except Exception as e:  # noqa  (never a crash: the set-up function cannot be lowered)
                raise Unsupported(f"{q}: the evaluator failed on the set-up of the format attributes ({type(e).__name__}: {e})")
            tb[what][bits] = {k: v for k, v in w.ev.env.items() if k.startswith("self.")}
            if what == "op4":
                tb[what][bits]["self._bit64"] = F.const(int(bits == 64))        # (the flag the oracle decided for this table)
            # the name the rules give to the width of a key / word, when the object has no attribute of that name
            tb[what][bits].setdefault(C.sym_name(WORD[what]), F.const(bits // 8))
    tb["fn"] = {"op2": ctx.src.func(OP2, "OP2._op2open"), "op4": ctx.src.func(OP4, "OP4._op4open_read")}
    ctx._c11_tables = tb
    return tb


WORD = {"op2": F.sym("self._ibytes"), "op4": F.sym("self._bytes_i")}     # the name the rules give to the size of a key / word in bytes


class SizeModel:
    """Sizes that depend on the key width, in one form.  The two format tables (4- and 8-byte keys) give every size a pair of integers
    (n4, n8); any such pair is an affine function a + b * W of the word size W (b = (n8 - n4) / 4).  The walks of the readers are given
    * every attribute of the object whose value is an integer that differs between the two tables, and the `.size` of every attribute that
      holds a struct, pre-bound to that affine form in W (so `self._Str.size`, `self._fbytes`, an attribute under any other name, or a
      property computed from them all read `W`);
    * `struct_size(format value)`: the size of a struct built on the spot (struct.Struct(f).size, struct.calcsize(f)).
    W itself is the symbol the rules use for the width (WORD[what]); nothing depends on what the attribute that holds it is called."""

    def __init__(self, ctx, what):
        self.what = what
        self.W = WORD[what]
        tbs = tables(ctx)[what]
        self.tb4, self.tb8 = tbs[32], tbs[64]

    def affine(self, n4, n8):
        if not isinstance(n4, int) or not isinstance(n8, int) or isinstance(n4, bool) or (n8 - n4) % 4:
            return None
        b = (n8 - n4) // 4
        return F.const(n4 - 4 * b) + b * self.W

    def _pair(self, f):
        try:
            a, b = f(self.tb4), f(self.tb8)
        except Unsupported:
            return None
        if a is None or b is None or is_unknown(a) or is_unknown(b) or not a.is_const() or not b.is_const() \
                or a.const_value().denominator != 1 or b.const_value().denominator != 1:
            return None
        return self.affine(int(a.const_value()), int(b.const_value()))

    def struct_size(self, fmtv):
        """size in bytes of the struct of format `fmtv` (a value of the walk: it may refer to attributes of the tables)"""
        return self._pair(lambda tb: struct_size(strval(fmtv, tb)))

    def env(self):
        out = {}
        for nm in sorted(set(self.tb4) & set(self.tb8)):
            v4, v8 = self.tb4[nm], self.tb8[nm]
            if nm == C.sym_name(self.W):
                continue
            x4, x8 = pyval(v4, self.tb4), pyval(v8, self.tb8)
            if isinstance(x4, int) and isinstance(x8, int) and not isinstance(x4, bool) and x4 != x8:
                a = self.affine(x4, x8)
                if a is not None:
                    out[nm] = a
            if isinstance(x4, str) and isinstance(x8, str):
                s4, s8 = struct_size(x4), struct_size(x8)
                if s4 is not None and s8 is not None and s4.is_const() and s8.is_const() and _is_struct_value(v4):
                    a = self.affine(int(s4.const_value()), int(s8.const_value()))
                    if a is not None:
                        out[nm + ".size"] = a
        # the width itself under another name: an attribute worth (4, 8) when the rules' name is not an attribute of the object
        return out


def _is_struct_value(v):
    p = C.fn_parts(v) if v is not None and not is_unknown(v) and not isinstance(v, tuple) and hasattr(v, "is_const") else None
    return p is not None and p[0] in ("call:struct.Struct", "call:Struct")


def size_model(ctx, what):
    cache = ctx.__dict__.setdefault("_c11_sizemodels", {})
    if what not in cache:
        try:
            cache[what] = SizeModel(ctx, what)
        except Unsupported:
            cache[what] = None
    return cache[what]


def strval(v, tb, depth=0):
    """the text a formula denotes under an attribute table; None when it is not (known to be) text"""
    x = pyval(v, tb, depth)
    return x if isinstance(x, str) else None


_NOT = K.NOT


def pyval(v, tb, depth=0):
    """the Python value (text, integer, sequence of those) a formula denotes under an attribute table: attributes are looked up, texts are
    concatenated / formatted / repeated / transformed by the str methods, struct and dtype wrappers stand for their format; K.NOT when the
    value is not known"""
    if isinstance(v, tuple):
        xs = [pyval(x, tb, depth + 1) for x in v]
        return _NOT if any(x is _NOT for x in xs) else tuple(xs)
    if v is None or is_unknown(v) or depth > 16 or not hasattr(v, "is_const"):
        return _NOT
    if v.is_const():
        c = v.const_value()
        return int(c) if c.denominator == 1 else _NOT
    n = C.sym_name(v)
    if n is not None:
        if n == "self._endian":
            return ENDIAN
        x = K.conc(v)
        if x is not _NOT:
            return x
        if n in tb:
            return pyval(tb[n], tb, depth + 1)
        # the size of a struct / dtype held under a name (`self._Str.size`, `self._rdtype.itemsize`): computed from the format text
        for suf in SIZE_ATTRS:
            if n.endswith("." + suf) and len(n) > len(suf) + 1:
                return _size_of(suf, pyval(F.sym(n[:-len(suf) - 1]), tb, depth + 1))
        return _NOT
    p = C.fn_parts(v)
    if p is None:
        if not v.d.is_const():
            return _NOT
        terms = [(m, c / v.d.const_value()) for m, c in v.n.t.items()]
        const, atoms = 0, []
        for m, c in terms:
            if m == ():
                const += c
                continue
            if len(m) != 1 or m[0][1] != 1 or c.denominator != 1:
                return _NOT
            at = F.Rat(F.Poly.atom(m[0][0]))
            x = pyval(at, tb, depth + 1)
            if x is _NOT:
                return _NOT
            atoms.append((C.sym_name(at) == "self._endian", x, int(c)))
        if atoms and const == 0 and all(isinstance(x, str) for _e, x, _c in atoms):
            # c * text: repetition; byte order + text written as a (commutative) sum: the byte order character comes first
            if any(c <= 0 for _e, _x, c in atoms):
                return _NOT
            if len(atoms) == 1:
                return atoms[0][1] * atoms[0][2]
            if len(atoms) == 2 and sum(1 for e, _x, _c in atoms if e) == 1:
                return "".join(x * c for _e, x, c in sorted(atoms, key=lambda t: not t[0]))
            return _NOT
        if all(isinstance(x, int) for _e, x, _c in atoms):
            tot = const + sum(x * c for _e, x, c in atoms)
            return int(tot) if getattr(tot, "denominator", 1) == 1 else _NOT
        return _NOT
    nm, args = p
    if any(isinstance(a, str) for a in args):
        return _NOT
    if nm in ("fmt", "mod") and len(args) == 2:
        f_, x = pyval(args[0], tb, depth + 1), pyval(args[1], tb, depth + 1)
        if not isinstance(f_, str) or x is _NOT:
            return _NOT
        try:
            return f_ % x
        except (TypeError, ValueError):
            return _NOT
    if nm == "tuple":
        xs = [pyval(a, tb, depth + 1) for a in args]
        return _NOT if any(x is _NOT for x in xs) else tuple(xs)
    if nm == "cat":
        a, b = pyval(args[0], tb, depth + 1), pyval(args[1], tb, depth + 1)
        if a is _NOT or b is _NOT or isinstance(a, tuple) or isinstance(b, tuple):
            return _NOT
        # a number interpolated into a text (f"{e}f{nbytes}") prints as its decimal digits
        return (str(a) if not isinstance(a, str) else a) + (str(b) if not isinstance(b, str) else b)
    if nm in ("call:np.dtype", "call:numpy.dtype", "call:dtype", "call:struct.Struct", "call:Struct", "structof") and len(args) >= 1:
        return pyval(args[0], tb, depth + 1)
    if nm in SIZE_CALLS and len(args) == 1:
        return _size_of(SIZE_CALLS[nm], pyval(args[0], tb, depth + 1))
    if nm == "call:str" and len(args) == 1:
        x = pyval(args[0], tb, depth + 1)
        return _NOT if x is _NOT else str(x)
    if nm == "idx" and len(args) == 2:
        base, k = pyval(args[0], tb, depth + 1), pyval(args[1], tb, depth + 1)
        if base is _NOT or k is _NOT or not isinstance(base, (str, tuple)) or not isinstance(k, int):
            return _NOT
        try:
            return base[k]
        except IndexError:
            return _NOT
    if nm == "phi" and len(args) == 3:
        c = pyval(args[0], tb, depth + 1)
        if c is _NOT:
            return _NOT
        return pyval(args[1] if c else args[2], tb, depth + 1)
    if nm.startswith("call:") and "." in nm:
        meth = nm.rsplit(".", 1)[1]
        if meth in K.STR_METHODS:
            recv, rest = (args[0], args[1:]) if nm == "call:." + meth else (F.sym(nm[5:-len(meth) - 1]), args)
            r = pyval(recv, tb, depth + 1)
            xs = [pyval(a, tb, depth + 1) for a in rest]
            if not isinstance(r, str) or any(x is _NOT for x in xs):
                return _NOT
            try:
                out = getattr(r, meth)(*xs)
            except Exception:  # noqa
                return _NOT
            return out if isinstance(out, (str, int, tuple)) else _NOT
    return _NOT


SIZE_ATTRS = ("size", "itemsize")
SIZE_CALLS = {"attr:size": "size", "attr:itemsize": "itemsize", "call:struct.calcsize": "size", "call:calcsize": "size"}


def _size_of(what, text):
    """Struct(text).size / struct.calcsize(text)  (what == 'size'),  np.dtype(text).itemsize  (what == 'itemsize'): an integer, from the
    format text alone; K.NOT when the text is not a format of that family (the `.size` of anything else is not a number of bytes)"""
    if not isinstance(text, str):
        return _NOT
    if what == "size":
        sz = struct_size(text)
        if sz is not None and sz.is_const() and sz.const_value().denominator == 1:
            return int(sz.const_value())
        return _NOT
    dt = dtype_of(text)
    return dt[2] if dt is not None else _NOT


def resolved_number(v):
    """a byte count the rules may compare: a + b * W built from integers and the width symbols only (nothing opaque left in it)"""
    if v is None or is_unknown(v) or isinstance(v, tuple) or not hasattr(v, "is_const"):
        return False
    words = {C.sym_name(w) for w in WORD.values()}
    return all(d[0] == "s" and d[1] in words for d in C.walk_atoms(v))


def numval(v, tb):
    """the formula with every attribute of the table that is a number substituted (symbols that are not in the table stay)"""
    if v is None or is_unknown(v) or isinstance(v, tuple):
        return None
    mp = {}
    for d in C.walk_atoms(v):
        if d[0] == "s" and d[1] not in mp and d[1][:1] not in "'\"":
            # an attribute of the table (or the size of a struct / dtype it holds) that denotes an integer
            x = pyval(F.sym(d[1]), tb)
            if isinstance(x, int) and not isinstance(x, bool):
                mp[d[1]] = F.const(x)
    try:
        out = v.subs(mp) if mp else v
    except Unsupported:
        return None
    if any(d[0] == "fn" and (d[1] in SIZE_CALLS or d[1] == "idx") for d in C.walk_atoms(out)):
        # the size of a struct / dtype whose format is known (Struct(...).size, struct.calcsize(...), np.dtype(...).itemsize); an element of
        # a tuple of known length (a helper that returns (numpy format, struct format, bytes per value))
        def post(name, args):
            if name in SIZE_CALLS and len(args) == 1 and not isinstance(args[0], str):
                x = _size_of(SIZE_CALLS[name], strval(args[0], tb))
                return F.const(x) if x is not _NOT else None
            if name == "idx" and len(args) == 2 and not any(isinstance(a, str) for a in args) and args[1].is_const():
                q = C.fn_parts(args[0])
                k = args[1].const_value()
                if q is not None and q[0] == "tuple" and k.denominator == 1 and -len(q[1]) <= int(k) < len(q[1]) and not isinstance(q[1][int(k)], str):
                    return q[1][int(k)]
            return None
        out = C.rewrite(out, post=post)
    if mp and any(d[0] == "fn" and d[1] == "phi" for d in C.walk_atoms(out)):
        out = C.settle(out)          # selections on a flag of the table are taken
    return out


def struct_items(text):
    """'ENDIAN%dd' / '<3q' / 'qq' -> (has byte order, [(count or '%d', code)]) ; None if it is not a struct format of the supported codes"""
    if text is None:
        return None
    m = re.fullmatch(r"([" + ENDIAN + r"<>=@!]?)((?:(?:%d|\d*)[bBhHiIlLqQfd])+)", text)
    if not m:
        return None
    items = [("%d" if c == "%d" else (int(c) if c else 1), k) for c, k in re.findall(r"(%d|\d*)([bBhHiIlLqQfd])", m.group(2))]
    return m.group(1), items


def struct_size(text, count=None):
    """size in bytes of a struct format (formula; `count` stands for %d)"""
    it = struct_items(text)
    if it is None:
        return None
    tot = F.const(0)
    for c, k in it[1]:
        if c == "%d":
            if count is None:
                return None
            tot = tot + count * STRUCT_SIZE[k]
        else:
            tot = tot + c * STRUCT_SIZE[k]
    return tot


def dtype_of(text):
    """'ENDIANf8' -> (byte order, kind letter, size)"""
    if text is None:
        return None
    m = re.fullmatch(r"([" + ENDIAN + r"<>=|]?)([iuf])(\d)", text)
    if not m:
        return None
    return m.group(1), m.group(2), int(m.group(3))


def show_cond(c):
    """readable text of a selection condition"""
    c = C.norm(c, whole_values=False) if not is_unknown(c) else c
    return _show(c)


def _show(v):
    if v is None or is_unknown(v):
        return "?"
    n = C.sym_name(v)
    if n is not None:
        return n
    p = C.fn_parts(v)
    if p is None:
        return repr(v)
    nm, a = p
    if nm == "eq0":
        d = a[0]
        # x - 'lit'  ->  x == 'lit'
        terms = list(d.n.t.items())
        if len(terms) == 2 and d.d.is_const():
            (m1, c1), (m2, c2) = terms
            if c1 == -c2 and len(m1) == 1 and len(m2) == 1:
                x, y = F.Rat(F.Poly.atom(m1[0][0])), F.Rat(F.Poly.atom(m2[0][0]))
                if C.sym_name(x) and C.sym_name(x)[:1] in "'\"":
                    x, y = y, x
                return f"{_show(x)} == {_show(y)}"
        return f"{_show(d)} == 0"
    if nm == "not":
        return f"not ({_show(a[0])})"
    if nm == "odd":
        return f"{_show(a[0])} & 1"
    if nm == "idx":
        q = C.fn_parts(a[0]) if not isinstance(a[0], str) else None
        if q is not None and q[0] == "dec":
            return f"header word {_show(a[1])}"
        return f"{_show(a[0])}[{_show(a[1])}]"
    if nm in ("bool:Or", "bool:And"):
        return (" or " if nm == "bool:Or" else " and ").join(_show(x) for x in a)
    if nm == "ge0":
        return f"{_show(a[0])} >= 0"
    return repr(v)
