"""C05 -- confirmation of a difference between two transition systems in a finite world.

The comparison of e7_sym.compare proves two counters equal when it succeeds.  When it does not, the reason may be a real difference or only
the engine's inability to relate two spellings (another set of cut points, bookkeeping no change of variables relates, a test made at
another place).  A VIOLATION needs more than that: an *input* on which the two lowered programs hand back different tables.  This module
executes a transition system (the checker's own IR - nothing of pyyeti is imported or run) on every sequence of a small finite world:

    lengths 2..5 over {0, 1, 2, 3}, length 6 over {0, 1, 2}, the permutations of 0..4 and 0..5, lengths 2..4 over {0, 1, nan},
    lengths 3..4 over {0, 1, 2, 3} * 2^-60 and over {0, 1, 1 + 2^-50, 2}

The counters touch the data only through comparisons of ranges (C05-R6), so ties, strict/non-strict tests, the order of the discards, the
bookkeeping of rows and offsets and NaN-sensitive negations all show in such a world; the emitted values are small dyadic numbers, exact in
double arithmetic.  The search can only turn an undecided comparison into a violation with a concrete witness - it never discharges
an obligation: without a witness the comparison stays undecided (exit 2)."""
from __future__ import annotations

import itertools
import math

from . import e7_sym as Y
from .e8_karr import Aff

NAN = float("nan")


class Undefined(Exception):
    """the run reads something the model gives no value to (an unwritten cell, an opaque value): nothing is concluded from this input"""


def worlds():
    """the finite world, small inputs first"""
    base = (0.0, 1.0, 2.0, 3.0)
    for n in (2, 3, 4):
        for seq in itertools.product(base, repeat=n):
            yield seq
    for n in (2, 3, 4):                                        # NaN: `not (X < Y)` is not `X >= Y`
        for seq in itertools.product((0.0, 1.0, NAN), repeat=n):
            if any(x != x for x in seq):
                yield seq
    tiny = 2.0 ** -60                                          # scale invariance: an absolute tolerance shows on very small data ...
    for n in (3, 4):
        for seq in itertools.product(base, repeat=n):
            if len(set(seq)) > 1:
                yield tuple(x * tiny for x in seq)
    near = (0.0, 1.0, 1.0 + 2.0 ** -50, 2.0)                   # ... a relative one on near-ties
    for n in (3, 4):
        for seq in itertools.product(near, repeat=n):
            if near[2] in seq:
                yield seq
    for seq in itertools.product(base, repeat=5):
        yield seq
    for n in (5, 6):                                           # nested cycles closed in cascade need strictly shrinking ranges
        for seq in itertools.permutations(range(n)):
            yield tuple(float(x) for x in seq)
    for seq in itertools.product((0.0, 1.0, 2.0), repeat=6):
        yield seq


def _num(q):
    return int(q) if q.denominator == 1 else float(q)


class Machine:
    def __init__(self, ts, peaks):
        self.ts = ts
        self.peaks = list(peaks)
        ex = ts.ex
        self.env = {ex.params[1]: len(self.peaks)}
        self.mem = {}
        self.node = Y.START
        self.by_src = {}
        for t in ts.trans:
            self.by_src.setdefault(t["src"], []).append(t)

    def aff(self, a):
        s = a.k
        for v, c in a.c.items():
            if v not in self.env:
                raise Undefined(v)
            s += c * self.env[v]
        if s.denominator != 1:
            raise Undefined("fractional index")
        return int(s)

    def val(self, e):
        k = e[0]
        if k == "num":
            return _num(e[1])
        if k == "var":
            if e[1] not in self.env:
                raise Undefined(e[1])
            return self.env[e[1]]
        if k == "aff":
            return self.aff(Aff(dict(e[1]), e[2]))
        if k == "sel":
            i = self.val(e[2])
            if e[1] == "peaks":
                if not 0 <= i < len(self.peaks):
                    raise Undefined("input index out of range")
                return self.peaks[i]
            cell = self.mem.get(e[1], {}).get(i)
            if cell is None:
                raise Undefined(f"{e[1]}[{i}] is read before it is written")
            return cell
        if k == "bin":
            a, b = self.val(e[2]), self.val(e[3])
            op = e[1]
            if op == "+":
                return a + b
            if op == "-":
                return a - b
            if op == "*":
                return a * b
            if op == "/":
                if b == 0:
                    raise Undefined("division by zero")
                return a / b
            raise Undefined(op)
        if k == "abs":
            return abs(self.val(e[1]))
        if k == "neg":
            return -self.val(e[1])
        if k == "bool":
            return bool(e[1])
        if k == "cmp":
            a, b = self.val(e[2]), self.val(e[3])
            return {"<": a < b, "<=": a <= b, ">": a > b, ">=": a >= b, "==": a == b, "!=": a != b}[e[1]]
        if k == "not":
            return not self.truth(self.val(e[1]))
        if k == "truth":
            return self.truth(self.val(e[1]))
        if k == "ige":
            return self.val(e[1]) >= 0
        if k == "ieq":
            return self.val(e[1]) == 0
        raise Undefined(k)

    @staticmethod
    def truth(v):
        return bool(v)          # nan is true, as in C and Python

    def step(self):
        for t in self.by_src.get(self.node, []):
            if all(self.truth(self.val(a)) == taken for a, taken in t["key"]):
                env = dict(self.env)
                for v, x in t["scal"].items():
                    if x == ("unknown",):
                        env.pop(v, None)
                    else:
                        try:
                            env[v] = self.val(x)
                        except Undefined:
                            env.pop(v, None)          # a value that is not defined here only matters when something reads it
                writes = []
                for b, st in t["arrays"].items():
                    for i, x in st:
                        writes.append((b, self.aff(i), self.val(x)))
                for b, i, x in writes:
                    self.mem.setdefault(b, {})[i] = x
                self.env = env
                self.node = t["dst"]
                return t
        raise Undefined(f"no transition of {self.node} applies")

    def run(self, limit=400):
        for _ in range(limit):
            t = self.step()
            if t["dst"] in (Y.END, Y.RAISE, Y.FAIL):
                return t
        raise Undefined("the run does not end")


def result(ts, peaks, only=None):
    """what the counter hands back for this input: ('tables', {role: [cells of the returned rows]}) | ('gives up', where); Undefined when the
    model does not determine it"""
    m = Machine(ts, peaks)
    t = m.run()
    if t["dst"] != Y.END:
        return ("gives up", t["dst"])
    ret = t["ret"]
    vals = list(ret[2:]) if ret is not None and ret[0] == "obj" and ret[1] == "tuple" else [ret]
    out = {}
    for v in vals:
        if v is None:
            raise Undefined("nothing is returned")
        if v[0] == "obj" and v[1] == "view":
            role, stop = v[2], m.val(v[3])
        elif v[0] == "ptr" and v[2] == Y.ZERO:
            role = v[1]
            stop = m.aff(ts.allocs[role]["rows"])
        else:
            raise Undefined("returned value")
        info = ts.allocs.get(role)
        if info is None or not info.get("cols"):
            raise Undefined("returned value")
        if only is not None and role not in only:
            continue
        cols = info["cols"]
        cap = m.aff(info["rows"])
        if cap < 0:
            return ("gives up", f"a table of {cap} rows")
        stop = max(cap + stop, 0) if stop < 0 else min(stop, cap)          # a[:stop] as Python / numpy read it
        cells = []
        for i in range(stop * cols):
            c = m.mem.get(role, {}).get(i)
            cells.append(c)
        out[role] = (stop, cols, cells)
    return ("tables", out)


def _same_cell(x, y):
    if x is None or y is None:
        return x is None and y is None
    if x != x or y != y:
        return x != x and y != y
    return x == y and math.copysign(1.0, x) == math.copysign(1.0, y)


def _rows(t):
    stop, cols, cells = t
    return [[("unwritten" if c is None else ("nan" if c != c else c)) for c in cells[r * cols:(r + 1) * cols]] for r in range(stop)]


def witness(ts_a, ts_b, only=None, cache=None, ka=None, kb=None):
    """the first input of the finite world on which the two systems hand back different tables: dict(input, left, right), or None.
    `cache`: {(key, input): result} shared between the rules of one run"""
    cache = {} if cache is None else cache

    def res(ts, key, w):
        ck = (key, only and tuple(sorted(only)), tuple("nan" if x != x else x for x in w))
        if key is None or ck not in cache:
            try:
                r = result(ts, w, only)
            except Undefined as e:
                r = ("undefined", str(e))
            if key is None:
                return r
            cache[ck] = r
        return cache[ck]
    nworld = 0
    for w in worlds():
        ra, rb = res(ts_a, ka, w), res(ts_b, kb, w)
        if ra[0] == "undefined" or rb[0] == "undefined":
            continue
        nworld += 1
        diff = ra[0] != rb[0]
        if not diff and ra[0] == "gives up":
            continue
        if not diff:
            ta, tb = ra[1], rb[1]
            diff = set(ta) != set(tb) or any(ta[r][0] != tb[r][0] or not all(_same_cell(x, y) for x, y in zip(ta[r][2], tb[r][2])) for r in ta)
        if diff:
            def show(r):
                return r[1] if r[0] != "tables" else {role: _rows(t) for role, t in r[1].items()}
            return {"input": ["nan" if x != x else x for x in w], "left returns": show(ra), "right returns": show(rb)}
    return None
