"""C05 -- confirmation of a difference between two transition systems in a finite world.

The comparison of e7_sym.compare proves two counters equal when it succeeds.  When it does not, the reason may be a real difference or only
the engine's inability to relate two spellings (another set of cut points, bookkeeping no change of variables relates, a test made at
another place).  A VIOLATION needs more than that: an *input* on which the two lowered programs hand back different tables.  This module
executes a transition system (the checker's own IR - nothing of pyyeti is imported or run) on every sequence of a small finite world:

    lengths 2..5 over {0, 1, 2, 3}, length 6 over {0, 1, 2}, the permutations of 0..4 and 0..5, lengths 2..4 over {0, 1, nan},
    lengths 3..4 over {0, 1, 2, 3} * 2^-60 and over {0, 1, 1 + 2^-50, 2}

The counters touch the data only through comparisons of ranges (C05-R6), so ties, strict/non-strict tests, the order of the discards, the
bookkeeping of rows and offsets and NaN-sensitive negations all show in such a world; the emitted values are small dyadic numbers, exact in
double arithmetic.  The search can only turn an undecided comparison into a violation with a concrete witness - it never discharges
an obligation: without a witness the comparison stays undecided (exit 2)."""
from __future__ import annotations

import itertools
import math

from . import e7_sym as Y
from .e8_karr import Aff

NAN = float("nan")


class Undefined(Exception):
    """the run reads something the model gives no value to (an unwritten cell, an opaque value): nothing is concluded from this input"""


class OutOfInput(Undefined):
    """the run reads the input array or a work array outside its elements: whatever happens then (IndexError, a wrapped negative index,
    garbage) is not what a counter does that stays inside"""


class NoEnd(Undefined):
    """the run makes far more moves than any counter needs for an input of at most six points: it does not return"""


class _Garbage:
    """the content of a cell that was never written (np.empty; calloc's zero is not modelled): it spreads through arithmetic, lands in the
    table as it is, and a decision that depends on it is not determined by the input"""

    def _g(self, *a):
        return self
    __add__ = __radd__ = __sub__ = __rsub__ = __mul__ = __rmul__ = __truediv__ = __rtruediv__ = __neg__ = __abs__ = _g

    def _c(self, o=None):
        raise Undefined("a decision depends on a cell that was never written")
    __lt__ = __le__ = __gt__ = __ge__ = __bool__ = _c

    def __repr__(self):
        return "never-written"


G = _Garbage()


def worlds():
    """the finite world, small inputs first"""
    base = (0.0, 1.0, 2.0, 3.0)
    for n in (2, 3, 4):
        for seq in itertools.product(base, repeat=n):
            yield seq
    for n in (2, 3, 4):                                        # NaN: `not (X < Y)` is not `X >= Y`
        for seq in itertools.product((0.0, 1.0, NAN), repeat=n):
            if any(x != x for x in seq):
                yield seq
    tiny = 2.0 ** -60                                          # scale invariance: an absolute tolerance shows on very small data ...
    for n in (3, 4):
        for seq in itertools.product(base, repeat=n):
            if len(set(seq)) > 1:
                yield tuple(x * tiny for x in seq)
    near = (0.0, 1.0, 1.0 + 2.0 ** -50, 2.0)                   # ... a relative one on near-ties
    for n in (3, 4):
        for seq in itertools.product(near, repeat=n):
            if near[2] in seq:
                yield seq
    for seq in itertools.product(base, repeat=5):
        yield seq
    for n in (5, 6):                                           # nested cycles closed in cascade need strictly shrinking ranges
        for seq in itertools.permutations(range(n)):
            yield tuple(float(x) for x in seq)
    for seq in itertools.product((0.0, 1.0, 2.0), repeat=6):
        yield seq


def _num(q):
    return int(q) if q.denominator == 1 else float(q)


def _caff(a):
    """Aff -> f(env) -> int"""
    items = [(v, (int(c) if c.denominator == 1 else c)) for v, c in a.c.items()]
    k = int(a.k) if a.k.denominator == 1 else a.k
    exact = isinstance(k, int) and all(isinstance(c, int) for _, c in items)

    def f(env):
        s = k
        try:
            for v, c in items:
                s += c * env[v]
        except KeyError as e:
            raise Undefined(str(e))
        if exact:
            return s
        if s.denominator != 1:
            raise Undefined("fractional index")
        return int(s)
    return f


def _comp(e):
    """value of the IR -> f(env, mem, peaks)"""
    k = e[0]
    if k == "num":
        c = _num(e[1])
        return lambda env, mem, peaks: c
    if k == "bool":
        c = bool(e[1])
        return lambda env, mem, peaks: c
    if k == "var":
        n = e[1]

        def fv(env, mem, peaks):
            try:
                return env[n]
            except KeyError:
                raise Undefined(n)
        return fv
    if k == "aff":
        fa = _caff(Aff(dict(e[1]), e[2]))
        return lambda env, mem, peaks: fa(env)
    if k == "sel":
        fi = _comp(e[2])
        base = e[1]
        if base == "peaks":
            def fp(env, mem, peaks):
                i = fi(env, mem, peaks)
                if not 0 <= i < len(peaks):
                    raise OutOfInput(f"peaks[{i}] with {len(peaks)} elements")
                return peaks[i]
            return fp

        lkey = "#len:" + base

        def fs(env, mem, peaks):
            i = fi(env, mem, peaks)
            try:
                return mem[base][i]
            except KeyError:
                n = env.get(lkey)
                if n is not None and not 0 <= i < n:
                    raise OutOfInput(f"{base}[{i}] with {n} elements")
                if n is None:
                    raise Undefined(f"{base}[{i}] is read before it is written")
                return G
        return fs
    if k == "bin":
        fa, fb, op = _comp(e[2]), _comp(e[3]), e[1]
        if op == "+":
            return lambda env, mem, peaks: fa(env, mem, peaks) + fb(env, mem, peaks)
        if op == "-":
            return lambda env, mem, peaks: fa(env, mem, peaks) - fb(env, mem, peaks)
        if op == "*":
            return lambda env, mem, peaks: fa(env, mem, peaks) * fb(env, mem, peaks)
        if op == "/":
            def fd(env, mem, peaks):
                y = fb(env, mem, peaks)
                if y == 0:
                    raise Undefined("division by zero")
                return fa(env, mem, peaks) / y
            return fd
    if k == "abs":
        fa = _comp(e[1])
        return lambda env, mem, peaks: abs(fa(env, mem, peaks))
    if k == "neg":
        fa = _comp(e[1])
        return lambda env, mem, peaks: -fa(env, mem, peaks)
    if k == "cmp":
        fa, fb, op = _comp(e[2]), _comp(e[3]), e[1]
        if op == "<":
            return lambda env, mem, peaks: fa(env, mem, peaks) < fb(env, mem, peaks)
        if op == "<=":
            return lambda env, mem, peaks: fa(env, mem, peaks) <= fb(env, mem, peaks)
        if op == ">":
            return lambda env, mem, peaks: fa(env, mem, peaks) > fb(env, mem, peaks)
        if op == ">=":
            return lambda env, mem, peaks: fa(env, mem, peaks) >= fb(env, mem, peaks)
        if op == "==":
            return lambda env, mem, peaks: fa(env, mem, peaks) == fb(env, mem, peaks)
        if op == "!=":
            return lambda env, mem, peaks: fa(env, mem, peaks) != fb(env, mem, peaks)
    if k in ("not",):
        fa = _comp(e[1])
        return lambda env, mem, peaks: not fa(env, mem, peaks)          # nan is true, as in C and Python
    if k == "truth":
        fa = _comp(e[1])
        return lambda env, mem, peaks: bool(fa(env, mem, peaks))
    if k == "ige":
        fa = _comp(e[1])
        return lambda env, mem, peaks: fa(env, mem, peaks) >= 0
    if k == "ieq":
        fa = _comp(e[1])
        return lambda env, mem, peaks: fa(env, mem, peaks) == 0

    def bad(env, mem, peaks):
        raise Undefined(str(k))
    return bad


class Prog:
    """a transition system compiled for execution on concrete inputs"""

    def __init__(self, ts):
        self.ts = ts
        self.Ln = ts.ex.params[1]
        self.by_src = {}
        self.length = {b: _caff(i["n"]) for b, i in ts.allocs.items() if i.get("n") is not None and not i.get("cols")}
        self.outs = {b: (_caff(i["rows"]), i["cols"]) for b, i in ts.allocs.items() if i.get("cols")}
        for t in ts.trans:
            keys = [(_comp(a), taken) for a, taken in t["key"]]
            scal = [(v, None if x == ("unknown",) else _comp(x)) for v, x in t["scal"].items()]
            stores = [(b, _caff(i), _comp(x)) for b, st in t["arrays"].items() for i, x in st]
            acc = [(b, _caff(i), rw) for b, i, rw in t["acc"]]
            self.by_src.setdefault(t["src"], []).append((keys, scal, stores, acc, t))

    def run(self, peaks, check=False, limit=400, bad=None):
        """(last transition, env, mem, what went wrong in the sense of C05-R4 when `check`: appended to `bad`, also when the run is cut short)"""
        peaks = list(peaks)
        L = len(peaks)
        env = {self.Ln: L}
        mem = {}
        node = Y.START
        bad = [] if bad is None else bad
        lens = {b: f(env) for b, f in self.length.items()}
        for b, n in lens.items():
            env["#len:" + b] = n
        caps = {b: f(env) * c for b, (f, c) in self.outs.items()} if check else {}
        for _ in range(limit):
            for keys, scal, stores, acc, t in self.by_src.get(node, ()):
                ok = True
                for f, taken in keys:
                    if bool(f(env, mem, peaks)) != taken:
                        ok = False
                        break
                if not ok:
                    continue
                if check:
                    for b, fi, rw in acc:
                        n = L if b == "peaks" else lens.get(b)
                        if n is not None:
                            ix = fi(env)
                            if not 0 <= ix < n:
                                bad.append(("bounds", f"{t['src']} -> {t['dst']}: {'read' if rw == 'r' else 'write'} {b}[{ix}] with {n} elements"))
                new = dict(env)
                for v, f in scal:
                    if f is None:
                        new.pop(v, None)
                    else:
                        try:
                            new[v] = f(env, mem, peaks)
                        except Undefined:
                            new.pop(v, None)          # a value that is not defined here only matters when something reads it
                writes = [(b, fi(env), fx(env, mem, peaks)) for b, fi, fx in stores]
                for b, i, x in writes:
                    if check and b in caps:
                        if not 0 <= i < caps[b]:
                            bad.append(("rows", f"{t['src']} -> {t['dst']}: store {b}[{i}] in a table of {caps[b]} cells"))
                        if b == "rf" and self.outs[b][1] == 3 and i % 3 == 2 and (x is G or x not in (0.5, 1)):
                            bad.append(("rows", f"{t['src']} -> {t['dst']}: the count stored with a row is {x}"))
                    mem.setdefault(b, {})[i] = x
                env = new
                node = t["dst"]
                break
            else:
                raise Undefined(f"no transition of {node} applies")
            if node in (Y.END, Y.RAISE, Y.FAIL):
                return t, env, mem, bad
        raise NoEnd(f"no result after {limit} moves")


def prog(ts):
    p = ts.__dict__.get("_c05prog")
    if p is None:
        p = ts.__dict__["_c05prog"] = Prog(ts)
    return p


def _returned(ts, t, env, mem):
    """[(role, rows returned, cols, capacity)] of the value an END transition returns"""
    ret = t["ret"]
    vals = list(ret[2:]) if ret is not None and ret[0] == "obj" and ret[1] == "tuple" else [ret]
    out = []
    for v in vals:
        if v is None:
            raise Undefined("nothing is returned")
        if v[0] == "obj" and v[1] == "view":
            role, stop = v[2], _comp(v[3])(env, mem, ())
        elif v[0] == "ptr" and v[2] == Y.ZERO and v[1] in ts.allocs:
            role = v[1]
            stop = _caff(ts.allocs[role]["rows"])(env)
        else:
            raise Undefined("returned value")
        info = ts.allocs.get(role)
        if info is None or not info.get("cols"):
            raise Undefined("returned value")
        cap = _caff(info["rows"])(env)
        if cap >= 0:
            stop = max(cap + stop, 0) if stop < 0 else min(stop, cap)          # a[:stop] as Python / numpy read it
        out.append((role, stop, info["cols"], cap))
    return out


def observe(ts, peaks):
    """one run of the counter on one input: dict(res = ('tables', {role: (rows, cols, cells)}) | ('gives up', where) | ('undefined', why),
    bad = [(category, text)] of what goes wrong in the sense of C05-R4:
       'bounds'  an access outside the stack / the input,     'rows'  an output store outside the table, a count that is neither 0.5 nor 1,
       'exit'    the returned rows are not exactly the rows written, counts that do not sum to (L - 1) / 2, tables of different height)"""
    bad = []
    try:
        t, env, mem, bad = prog(ts).run(peaks, check=True, bad=bad)
    except OutOfInput as e:
        return dict(res=("gives up", f"reads outside an array: {e}"), bad=bad + [("bounds", f"read {e}")])
    except NoEnd as e:
        return dict(res=("gives up", f"does not return: {e}"), bad=bad + [("exit", f"the counter does not return: {e}")])
    except Undefined as e:
        return dict(res=("undefined", str(e)), bad=bad + [("undefined", str(e))])
    L = len(peaks)
    if t["dst"] != Y.END:
        return dict(res=("gives up", t["dst"]), bad=bad + [("exit", f"the counter gives up ({t['dst']})")])
    try:
        rets = _returned(ts, t, env, mem)
    except Undefined as e:
        return dict(res=("undefined", str(e)), bad=bad + [("undefined", str(e))])
    out = {}
    heights = {}
    for role, stop, cols, cap in rets:
        if cap < 0:
            return dict(res=("gives up", f"a table of {cap} rows"), bad=bad + [("exit", f"a table of {cap} rows")])
        cells = [mem.get(role, {}).get(i) for i in range(stop * cols)]
        out[role] = (stop, cols, cells)
        heights[role] = stop
        written = set(mem.get(role, {}))
        want = set(range(stop * cols))
        if written != want:
            bad.append(("exit", f"{role}: {stop} rows returned, cells written: {sorted(written)[:12]}{'...' if len(written) > 12 else ''}"))
        elif role == "rf" and cols == 3 and not any(mem[role][3 * r + 2] is G for r in range(stop)):
            tot = sum(mem[role][3 * r + 2] for r in range(stop)) if stop else 0
            if 2 * tot != L - 1:
                bad.append(("exit", f"the counts of the returned rows sum to {tot}, not (L - 1) / 2 = {(L - 1) / 2}"))
    if len(set(heights.values())) > 1:
        bad.append(("exit", f"tables of different height: {heights}"))
    return dict(res=("tables", out), bad=bad)


def _wkey(w):
    return tuple("nan" if x != x else x for x in w)


def observed(ts, key, w, cache):
    if cache is None or key is None:
        return observe(ts, w)
    ck = (key, _wkey(w))
    if ck not in cache:
        cache[ck] = observe(ts, w)
    return cache[ck]


def _same_cell(x, y):
    if x is None or y is None:
        return x is None and y is None
    if x is G or y is G:
        return True          # (worlds in which a never-written cell reaches a compared table are left out by the caller)
    if x != x or y != y:
        return x != x and y != y
    return x == y and math.copysign(1.0, x) == math.copysign(1.0, y)


def _rows(t):
    stop, cols, cells = t
    return [[("unwritten" if c is None else ("never-written" if c is G else ("nan" if c != c else c))) for c in cells[r * cols:(r + 1) * cols]] for r in range(stop)]


def witness(ts_a, ts_b, only=None, cache=None, ka=None, kb=None):
    """the first input of the finite world on which the two systems hand back different tables (restricted to the tables named in `only`):
    dict(input, left returns, right returns), or None.  `cache`: runs shared between the rules of one checker run"""
    def show(r):
        return r[1] if r[0] != "tables" else {role: _rows(t) for role, t in r[1].items() if only is None or role in only}
    for w in worlds():
        ra, rb = observed(ts_a, ka, w, cache)["res"], observed(ts_b, kb, w, cache)["res"]
        if ra[0] == "undefined" or rb[0] == "undefined":
            continue
        diff = ra[0] != rb[0]
        if not diff and ra[0] == "gives up":
            continue
        if not diff:
            ta = {r: t for r, t in ra[1].items() if only is None or r in only}
            tb = {r: t for r, t in rb[1].items() if only is None or r in only}
            if any(c is G for tt in (ta, tb) for t in tt.values() for c in t[2]):
                continue          # the table holds the content of a cell that was never written: nothing is concluded from its values
            diff = set(ta) != set(tb) or any(ta[r][0] != tb[r][0] or not all(_same_cell(x, y) for x, y in zip(ta[r][2], tb[r][2])) for r in ta)
        if diff:
            return {"input": list(_wkey(w)), "left returns": show(ra), "right returns": show(rb)}
    return None


def r4_witness(ts, cats, cache=None, key=None):
    """{category: dict(input, what)} for the categories of `cats` that some input of the finite world violates (C05-R4 in the finite world: what
    the abstract interpretation could not derive is a VIOLATION only when some input really breaks it)"""
    found = {}
    for w in worlds():
        if all(c in found for c in cats):
            break
        for c, text in observed(ts, key, w, cache)["bad"]:
            if c in cats and c not in found:
                found[c] = {"input": list(_wkey(w)), "what": text}
    return found
