"""C01 helper: e3_masks.MaskTyper widened for the spellings clean-ups use (the typing rules themselves are unchanged):

  * helpers are followed: a call to a function of the `inline` table (bare name / `self.name`, also through a loop variable that holds the
    function) is typed on the argument types; its return type (tuples elementwise) is the type of the call; its resolved operations and
    reports join the caller's;
  * tuple values: `a, b = (x, y) if c else (u, v)`, `p, q, r = (np.zeros(n, bool) for _ in range(3))`, `a, b = f(...)`;
  * walrus targets; `for` loops over literal tuples (of tuples) and `zip(...)` of them are typed iteration by iteration with the loop
    variables bound;
  * (second pass) local helpers (nested `def`) are followed with the enclosing scope visible; dicts with constant string keys (`dict(F=..., ...)`,
    `dict(zip(NAMES, arrays))`, dict comprehensions, `.items()`), constant strings held by loop variables, module-level tuples of names, `*args` of
    a tuple; a mask keeps the selector name it was created under (`A2`), so a selection by it is the same sub-space under any parameter / loop
    variable name; an index vector built in an argument list is named after the parameter; `x = None` placeholders do not erase the other arm's type;
  * (fourth pass) masked stores spelled as library calls are typed by what each function does with the VALUES: np.place(arr, mask, vals) is the store
    arr[mask] = vals (one value per selected entry); np.putmask / np.copyto(where=) need values with one entry per entry of the destination (np.putmask
    repeats shorter values by position); np.put / x.put take positions (a boolean mask is read as the positions 0 and 1).  A proved mismatch is reported;
    a call whose operand spaces cannot be typed is recorded in `unsure` (the rule reports ANALYSIS-ERROR: the value-level rules read all of them as
    arr[sel] = vals).  np.take / .take / np.compress / .compress / np.extract are subscripts; the rows of np.zeros((k, n)) unpacked are arrays over the
    space of n; library names are canonicalised under the module's import aliases.
"""
from __future__ import annotations

import ast

from .e1_srcmodel import dotted
from .e3_masks import MaskTyper, A, I, NZ, S, EMPTY, _join as join_types


class A2(A):
    """a mask that remembers the selector name it was created under: a selection by it is the same sub-space in whatever function, and under whatever
    parameter / loop-variable name, the mask is used"""
    __slots__ = ("sel",)

    def __init__(self, s, kind, sel):
        super().__init__(s, kind)
        self.sel = sel


_SERIAL = [0]


class Tup(list):
    """types of the elements of a tuple value"""


class Gen:
    """a generator expression: every element has type t"""

    def __init__(self, t):
        self.t = t


class NZ2:
    """result of np.nonzero(mask) / mask.nonzero() for a named mask: a tuple whose element 0 is the index vector `ix`"""

    def __init__(self, ix):
        self.ix = ix


class Fn:
    def __init__(self, name):
        self.name = name


class Str:
    """a constant string (a coefficient name held by a loop variable)"""

    def __init__(self, v):
        self.v = v


class DictT(dict):
    """types of the entries of a dict with constant string keys (rows / arrays by coefficient name)"""


NONEV = "the value None"        # `x = None` as a placeholder: the other arm of the branch says what x is when it is used


class AMix(A):
    """an array that lives in different (known) spaces on different paths through the function: unknown for every operation (s is None), but a rule that
    knows which space a published value must live in can say that one of the paths is wrong"""
    __slots__ = ("mixed",)

    def __init__(self, kind, mixed):
        super().__init__(None, kind)
        self.mixed = frozenset(mixed)

    def __repr__(self):
        return f"A(spaces {sorted(self.mixed)}: different on different paths, or rows / columns of different sets)"


class IMix(I):
    """an index vector whose positions are relative to different (known) spaces on different paths"""
    __slots__ = ("mixed",)

    def __init__(self, mixed):
        super().__init__(None, None)
        self.mixed = frozenset(mixed)

    def __repr__(self):
        return f"I(positions relative to one of {sorted(self.mixed)} depending on the path)"


def _join_any(a, b, in1=True, in2=True):
    if isinstance(a, str) and a == NONEV:
        return b
    if isinstance(b, str) and b == NONEV:
        return a
    if isinstance(a, A) and isinstance(b, A):
        sa = a.mixed if isinstance(a, AMix) else ({a.s} if a.s is not None else None)
        sb = b.mixed if isinstance(b, AMix) else ({b.s} if b.s is not None else None)
        if sa and sb and set(sa) != set(sb):
            return AMix(a.kind if a.kind == b.kind else None, set(sa) | set(sb))
    if isinstance(a, I) and isinstance(b, I):
        da = a.mixed if isinstance(a, IMix) else ({a.dom} if a.dom is not None else None)
        db = b.mixed if isinstance(b, IMix) else ({b.dom} if b.dom is not None else None)
        if da and db and set(da) != set(db):
            return IMix(set(da) | set(db))
    if isinstance(a, Tup) and isinstance(b, Tup) and (not a or not b):
        return a or b            # `x if c else ()`: iterating the empty tuple does nothing
    if isinstance(a, DictT) and isinstance(b, DictT) and set(a) == set(b):
        return DictT((k, _join_any(a[k], b[k])) for k in a)
    if isinstance(a, Tup) and isinstance(b, Tup) and len(a) == len(b):
        return Tup(_join_any(x, y) for x, y in zip(a, b))
    return join_types(a, b, in1, in2)


class _Typed(ast.Name):
    """an argument whose type is already known (element of an expanded *args)"""

    def __init__(self, t):
        super().__init__(id="<typed>", ctx=ast.Load())
        self.t = t


class MaskTyper01(MaskTyper):
    def __init__(self, params, sizes=None, report=None, passthrough=(), cond=None, inline=None, depth=0):
        super().__init__(params, sizes, report, passthrough, cond)
        self.inline = dict(inline or {})
        self.depth = depth
        self.rets = []
        self.closures = set()       # names of local helpers (nested def): followed with the enclosing scope visible
        self.serial = 0
        self.unsure = []            # (call node, reason): masked stores through a library function whose operand spaces could not be typed

    def _sel_name(self, node):
        if isinstance(node, ast.Name):
            t = self.env.get(node.id)
            if isinstance(t, A2):
                return t.sel
        return super()._sel_name(node)

    # ---- expressions
    def module_const(self, name):
        """a module-level tuple of strings (coefficient names) the function refers to by name"""
        mod = getattr(self, "mod", None)
        if mod is None:
            return None
        hits = [st for st in mod.tree.body if isinstance(st, ast.Assign) and any(isinstance(t, ast.Name) and t.id == name for t in st.targets)]
        if len(hits) == 1 and isinstance(hits[0].value, (ast.Tuple, ast.List)) and all(isinstance(e, ast.Constant) and isinstance(e.value, str) for e in hits[0].value.elts):
            return Tup(Str(e.value) for e in hits[0].value.elts)
        if len(hits) == 1 and isinstance(hits[0].value, ast.Call):
            c = hits[0].value
            d = dotted(c.func)
            if d in ("np.arange", "np.zeros", "np.empty") and len(c.args) == 1 and isinstance(c.args[0], ast.Constant) and c.args[0].value == 0:
                return EMPTY          # a module-level empty index vector (`_NOROWS = np.arange(0)`)
            if d in ("np.array", "np.asarray") and c.args and isinstance(c.args[0], (ast.List, ast.Tuple)) and not c.args[0].elts:
                return EMPTY
        return None

    def ty(self, node):
        if isinstance(node, _Typed):
            return node.t
        if isinstance(node, ast.Constant) and node.value is None:
            return NONEV
        if isinstance(node, ast.Constant) and isinstance(node.value, str):
            return Str(node.value)
        if isinstance(node, ast.Name) and node.id not in self.env and node.id not in self.inline:
            t = self.module_const(node.id)
            if t is not None:
                return t
        if isinstance(node, ast.Dict) and all(isinstance(k, ast.Constant) and isinstance(k.value, str) for k in node.keys):
            return DictT((k.value, self.ty(v)) for k, v in zip(node.keys, node.values))         # also `{}`: entries are added by stores
        if isinstance(node, (ast.GeneratorExp, ast.ListComp)) and len(node.generators) > 1 and not any(g.ifs for g in node.generators):
            out = []

            def rec(k):
                if k == len(node.generators):
                    out.append(self.ty(node.elt))
                    return True
                items = self.items(node.generators[k].iter)
                if items is None or len(items) > 16:
                    return False
                for it in items:
                    self.bind(node.generators[k].target, it, node)
                    if not rec(k + 1):
                        return False
                return True
            if rec(0) and len(out) <= 64:
                return Tup(out)
        if isinstance(node, (ast.DictComp, ast.GeneratorExp, ast.ListComp)) and len(node.generators) == 1 and not node.generators[0].ifs:
            items = self.items(node.generators[0].iter)
            if items is not None and len(items) <= 16:
                out = []
                for it in items:
                    self.bind(node.generators[0].target, it, node)
                    if isinstance(node, ast.DictComp):
                        k = self.ty(node.key)
                        if not isinstance(k, Str):
                            return None
                        out.append((k.v, self.ty(node.value)))
                    else:
                        out.append(self.ty(node.elt))
                return DictT(out) if isinstance(node, ast.DictComp) else Tup(out)
        if isinstance(node, ast.Subscript) and isinstance(node.slice, (ast.Call, ast.Name)):
            # a square array cut by np.ix_(I, J) with selectors of two different (known) sub-spaces lives in neither: rows in one, columns in the other
            t = self.ty(node.slice)
            if isinstance(t, tuple) and len(t) == 3 and t[0] == "ix" and all(isinstance(x, I) and x.cod is not None for x in t[1:]) and t[1].cod != t[2].cod \
                    and isinstance(self.ty(node.value), A):
                super().ty(node)          # the index-space checks of the base class (resolved operations, reports)
                return AMix(None, {t[1].cod, t[2].cod})
        if isinstance(node, ast.Subscript):
            b = self.ty(node.value)
            if isinstance(b, NZ2):
                return b.ix if isinstance(node.slice, ast.Constant) and node.slice.value == 0 else None
            if isinstance(b, DictT):
                k = self.ty(node.slice)
                return b.get(k.v) if isinstance(k, Str) else None
            if isinstance(b, Tup) and isinstance(node.slice, ast.Constant) and isinstance(node.slice.value, int) and -len(b) <= node.slice.value < len(b):
                return b[node.slice.value]
        if isinstance(node, ast.BinOp) and isinstance(node.op, ast.Add):
            a, b = self.ty(node.left), self.ty(node.right)
            if isinstance(a, Tup) and isinstance(b, Tup):
                return Tup(list(a) + list(b))
            if isinstance(a, Tup) or isinstance(b, Tup):
                return None
        if isinstance(node, ast.Name) and node.id not in self.env and node.id in self.inline:
            return Fn(node.id)
        if isinstance(node, (ast.Tuple, ast.List)):
            return Tup(self.ty(e) for e in node.elts)
        if isinstance(node, ast.NamedExpr):
            v = self.ty(node.value)
            self.assign(node.target, v, node)
            return self.ty(node.target) if isinstance(node.target, ast.Name) else v
        if isinstance(node, ast.GeneratorExp) and len(node.generators) == 1:
            return Gen(self.ty(node.elt))
        if isinstance(node, ast.IfExp):
            a, b = self.ty(node.body), self.ty(node.orelse)
            if isinstance(a, Tup) or isinstance(b, Tup):
                self.ty(node.test)
                return _join_any(a, b) if isinstance(a, Tup) and isinstance(b, Tup) else None
        return super().ty(node)

    # ---- masked stores spelled as library calls.  They differ in what they do with the VALUES, which only the spaces of the operands can tell:
    #   np.place(arr, mask, vals)           arr[mask] = vals     vals: one entry per True of mask (the first N are used, shorter ones repeated)
    #   np.putmask(a, mask, values)         a[mask] = values[mask]   values: one entry per entry of a (a shorter one is repeated by POSITION)
    #   np.copyto(dst, src, where=mask)     dst[mask] = src[mask]    src broadcast to dst
    #   np.put(a, ind, v)                   a[ind] = v           ind: POSITIONS (a boolean mask would be read as the positions 0 and 1)
    MASKED_SIGS = {"np.place": ("arr", "mask", "vals"), "np.putmask": ("a", "mask", "values"), "np.put": ("a", "ind", "v"), "np.copyto": ("dst", "src")}

    def masked_store_call(self, d, node):
        sig = self.MASKED_SIGS[d]
        got = dict(zip(sig, node.args))
        extra = {}
        for k in node.keywords:
            if k.arg in sig and k.arg not in got:
                got[k.arg] = k.value
            else:
                extra[k.arg] = k.value
        if len(node.args) > len(sig) or any(isinstance(a, ast.Starred) for a in node.args) or set(got) != set(sig):
            self.unsure.append((node, "arguments that cannot be placed on the signature"))
            return None
        text = ast.unparse(node)[:140]

        def known(t):
            return t == S or (isinstance(t, A) and t.s is not None)
        if d == "np.place":
            arr, v = self.ty(got["arr"]), self.ty(got["vals"])
            n0 = self.resolved
            self.store(ast.copy_location(ast.Subscript(value=got["arr"], slice=got["mask"], ctx=ast.Store()), node), v, node)
            if not (isinstance(arr, A) and arr.s is not None and known(v) and (v == S or self.resolved > n0)):
                self.unsure.append((node, f"np.place uses the first N values (N = number of selected entries): array {arr!r}, values {v!r}"))
            return None
        if d == "np.put":
            arr, ind, v = self.ty(got["a"]), self.ty(got["ind"]), self.ty(got["v"])
            if isinstance(ind, A) and ind.kind == "mask":
                self.resolved += 1
                self.report("store-space", node, f"`{text}`: np.put takes positions; the boolean mask `{ast.unparse(got['ind'])[:60]}` is read as the positions 0 and 1")
                return None
            n0 = self.resolved
            self.store(ast.copy_location(ast.Subscript(value=got["a"], slice=got["ind"], ctx=ast.Store()), node), v, node)
            if not (isinstance(arr, A) and arr.s is not None and isinstance(ind, I) and known(v) and (v == S or self.resolved > n0)):
                self.unsure.append((node, f"np.put stores at positions: array {arr!r}, positions {ind!r}, values {v!r}"))
            return None
        # np.putmask / np.copyto(where=): destination, mask and values all have one entry per entry of the destination
        if d == "np.copyto":
            mask = extra.pop("where", None)
            extra.pop("casting", None)
            arr, v = self.ty(got["dst"]), self.ty(got["src"])
        else:
            mask = got["mask"]
            arr, v = self.ty(got["a"]), self.ty(got["values"])
            extra = dict(extra)
        if extra:
            self.unsure.append((node, f"keyword(s) {sorted(str(k) for k in extra)}"))
            return None
        mt = self.ty(mask) if mask is not None else S
        types = [t for t in (arr, mt, v) if isinstance(t, A)]
        sp = {t.s for t in types}
        if None not in sp and len(sp) > 1:
            self.resolved += 1
            self.report("store-space", node, f"`{text}`: destination, mask and values must have one entry per entry of the destination, but they live in "
                                             f"spaces {arr!r}, {mt!r}, {v!r}" + (" (np.putmask repeats shorter values by position, it does not use them one per selected entry "
                                                                                 "as np.place does)" if d == "np.putmask" else ""))
            return None
        if isinstance(arr, A) and arr.s is not None and known(v) and (mask is None or (isinstance(mt, A) and mt.s is not None and mt.kind == "mask")):
            self.resolved += 1
        else:
            self.unsure.append((node, f"destination {arr!r}, mask {mt!r}, values {v!r}"))
        return None

    def canon_call(self, node):
        """the call with its callee in the canonical library spelling (np.exp for `_exp` imported `from numpy import exp as _exp`, np.zeros for numpy.zeros /
        xp.zeros): which name a module binds the library to is not behaviour"""
        from .c01_ev import import_aliases, canon_dotted, _dotted_node
        d = dotted(node.func)
        if d is None or d.split(".")[0] in self.env or d in self.inline:
            return node
        c = canon_dotted(d, import_aliases(getattr(self, "mod", None)))
        if c == d:
            return node
        nf = _dotted_node(c, node)
        if nf is None:
            return node
        return ast.copy_location(ast.Call(func=nf, args=node.args, keywords=node.keywords), node)

    def call(self, node):
        node = self.canon_call(node)
        d = dotted(node.func)
        if d in self.MASKED_SIGS:
            return self.masked_store_call(d, node)
        f = node.func
        meth = f.attr if isinstance(f, ast.Attribute) and not (isinstance(f.value, ast.Name) and f.value.id in ("np", "numpy") and f.value.id not in self.env) else None
        if meth == "put" and not any(k.arg is None for k in node.keywords):
            return self.masked_store_call("np.put", ast.copy_location(ast.Call(func=f, args=[f.value] + list(node.args), keywords=node.keywords), node))
        # selections spelled as calls: np.take(x, i) / x.take(i) -> x[i];  np.compress(c, x) / x.compress(c) / np.extract(c, x) -> x[c]
        kw = {k.arg: k.value for k in node.keywords}
        if not (set(kw) - {"a", "indices", "condition", "arr"}):
            x = ix = None
            pos = list(node.args)
            if d == "np.take":
                got = dict(zip(("a", "indices"), pos), **kw)
                x, ix = got.get("a"), got.get("indices")
            elif d == "np.compress":
                got = dict(zip(("condition", "a"), pos), **kw)
                x, ix = got.get("a"), got.get("condition")
            elif d == "np.extract":
                got = dict(zip(("condition", "arr"), pos), **kw)
                x, ix = got.get("arr"), got.get("condition")
            elif meth in ("take", "compress") and len(pos) + len(kw) == 1:
                x, ix = f.value, (pos[0] if pos else next(iter(kw.values())))
            if x is not None and ix is not None and len(pos) <= 2:
                return self.ty(ast.copy_location(ast.Subscript(value=x, slice=ix, ctx=ast.Load()), node))
        if d == "dict":
            out = DictT()
            if len(node.args) == 1:
                items = self.items(node.args[0])
                if items is None or not all(isinstance(it, Tup) and len(it) == 2 and isinstance(it[0], Str) for it in items):
                    return None
                out.update((it[0].v, it[1]) for it in items)
            elif node.args:
                return None
            for k in node.keywords:
                if k.arg is None:
                    return None
                out[k.arg] = self.ty(k.value)
            return out
        if d in ("tuple", "list") and len(node.args) == 1:
            t = self.ty(node.args[0])
            return t if isinstance(t, Tup) else None
        if d in ("np.where", "numpy.where") and len(node.args) == 3:
            return self._join(node, [self.ty(a) for a in node.args], "elementwise operation")          # np.where(c, x, y): one entry per entry of c
        if d in ("np.flatnonzero", "np.nonzero", "np.where", "np.argwhere") and len(node.args) == 1 and not node.keywords:
            # the positions of the True entries of a *named* mask select the sub-space the mask itself selects: X[np.flatnonzero(pv)] is X[pv]
            t = self.ty(node.args[0])
            if isinstance(t, A) and t.kind == "mask" and t.s is not None and isinstance(node.args[0], ast.Name):
                ix = I(t.s, f"{t.s}/{self._sel_name(node.args[0])}")
                return ix if d == "np.flatnonzero" else NZ2(ix)
        if isinstance(node.func, ast.Attribute) and node.func.attr == "nonzero" and not node.args and isinstance(node.func.value, ast.Name):
            t = self.ty(node.func.value)
            if isinstance(t, A) and t.kind == "mask" and t.s is not None:
                return NZ2(I(t.s, f"{t.s}/{self._sel_name(node.func.value)}"))
        if d in ("np.logical_and.reduce", "np.logical_or.reduce", "np.bitwise_and.reduce", "np.bitwise_or.reduce") and len(node.args) == 1:
            t = self.ty(node.args[0])
            if isinstance(t, Tup) and t:
                return self._join(node, list(t), "boolean operation")
            return None
        if d in ("np.logical_and", "np.logical_or", "np.logical_xor", "np.bitwise_and", "np.bitwise_or") and len(node.args) == 2:
            return self._join(node, [self.ty(a) for a in node.args], "boolean operation" if "logical" in d else "mask operation")
        if isinstance(node.func, ast.Attribute) and node.func.attr == "get" and 1 <= len(node.args) <= 2 and not node.keywords:
            b = self.ty(node.func.value)
            if isinstance(b, DictT):
                k = self.ty(node.args[0])
                dv = self.ty(node.args[1]) if len(node.args) == 2 else NONEV
                if not isinstance(k, Str):
                    return None
                return _join_any(b[k.v], dv) if k.v in b else dv
        from .e3_masks import CTORS
        if d in CTORS and node.args and isinstance(node.args[0], (ast.Tuple, ast.List)) and len(node.args[0].elts) == 2 \
                and isinstance(node.args[0].elts[0], ast.Constant) and isinstance(node.args[0].elts[0].value, int):
            # np.zeros((3, n), dtype=bool): a table of rows over the space of n; unpacked / iterated, every row is an array of that space
            row = self.call(ast.copy_location(ast.Call(func=node.func, args=[node.args[0].elts[1]] + list(node.args[1:]), keywords=node.keywords), node))
            if isinstance(row, A) and row.s is not None:
                return Gen(row)
        if d in CTORS and node.args:
            # np.zeros(len(x)) / np.zeros(x.shape[0]) / np.zeros(x.size): an array over the space of x
            a0 = node.args[0]
            src = None
            if isinstance(a0, ast.Call) and dotted(a0.func) == "len" and len(a0.args) == 1:
                src = a0.args[0]
            elif isinstance(a0, ast.Attribute) and a0.attr == "size":
                src = a0.value
            elif isinstance(a0, ast.Subscript) and isinstance(a0.value, ast.Attribute) and a0.value.attr == "shape" and isinstance(a0.slice, ast.Constant) and a0.slice.value == 0:
                src = a0.value.value
            t = self.ty(src) if src is not None else None
            if isinstance(t, A) and t.s is not None:
                dt = [ast.unparse(x) for x in list(node.args[1:]) + [k.value for k in node.keywords if k.arg == "dtype"]]
                return A(t.s, "mask" if any(x in ("bool", "np.bool_", "'bool'") for x in dt) else "val")
        if isinstance(node.func, ast.Name) and isinstance(self.env.get(node.func.id), Fn):
            d = self.env[node.func.id].name
        fn = self.inline.get(d) if d else None
        if fn is not None and self.depth < 4 and any(isinstance(a, ast.Starred) for a in node.args) and not any(k.arg is None for k in node.keywords):
            flat = []
            for a in node.args:
                t = self.ty(a.value) if isinstance(a, ast.Starred) else None
                if isinstance(a, ast.Starred) and not isinstance(t, Tup):
                    flat = None
                    break
                flat.extend([_Typed(x) for x in t] if isinstance(a, ast.Starred) else [a])
            if flat is not None:
                node = ast.copy_location(ast.Call(func=node.func, args=flat, keywords=node.keywords), node)
        if fn is not None and self.depth < 4 and not any(isinstance(a, ast.Starred) for a in node.args) and not any(k.arg is None for k in node.keywords):
            r = self.follow(node, d, fn)
            if r is not NotImplemented:
                return r
        return super().call(node)

    def follow(self, node, name, fn):
        a = fn.args
        params = [x.arg for x in a.posonlyargs + a.args]
        deco = {dotted(x) for x in fn.decorator_list}
        if name.startswith("self.") and "staticmethod" not in deco and params:
            params = params[1:]
        if len(node.args) > len(params) and not a.vararg:
            return NotImplemented
        env = {k: v for k, v in self.env.items() if "." in k or name in self.closures}
        for p, x in zip(params, node.args):
            env[p] = self.ty(x)
        if a.vararg:
            env[a.vararg.arg] = Tup(self.ty(x) for x in node.args[len(params):])
        kwonly = [x.arg for x in a.kwonlyargs]
        extra = DictT()
        for k in node.keywords:
            if k.arg not in params and k.arg not in kwonly:
                if not a.kwarg:
                    return NotImplemented
                extra[k.arg] = self.ty(k.value)          # **kwargs: a dict of the surplus keywords
                continue
            env[k.arg] = self.ty(k.value)
        if a.kwarg:
            env[a.kwarg.arg] = extra
        for p, dd in zip(kwonly, a.kw_defaults):
            if p not in env and dd is not None:
                env[p] = self.ty(dd)
        dflt = dict(zip(params[::-1], (a.defaults or [])[::-1]))
        for p in params:
            if p not in env:
                if p not in dflt:
                    return NotImplemented
                env[p] = self.ty(dflt[p])
        from .e3_masks import I as _I
        for p in list(env):
            t = env[p]
            if isinstance(t, _I) and t.cod is None and t.dom is not None and "." not in p:
                env[p] = _I(t.dom, f"{t.dom}/{p}")       # an index vector built in the argument list: its selection is named after the parameter
        sub = type(self)(env, self.sizes, self.report, self.passthrough, self.cond, self.inline, self.depth + 1)
        _SERIAL[0] += 1
        sub.serial = _SERIAL[0]
        sub.mod = getattr(fn, "_vmod", getattr(self, "mod", None))
        sub.closures = set(self.closures)
        sub.unsure = self.unsure
        sub.ver = dict(self.ver)
        sub.run(fn.body)
        self.resolved += sub.resolved
        for k, v in sub.attr_types.items():
            self.env[k] = v
            self.attr_types[k] = v
        out = None
        for i, r in enumerate(sub.rets):
            out = r if i == 0 else _join_any(out, r)
        return out

    # ---- statements
    def stmt(self, st):
        if isinstance(st, ast.FunctionDef):
            self.inline[st.name] = st          # a local helper: typed at its calls, with the enclosing scope visible
            self.closures.add(st.name)
            self.env.pop(st.name, None)
            return
        if isinstance(st, ast.Return):
            self.rets.append(self.ty(st.value) if st.value is not None else None)
            return
        if isinstance(st, ast.If) and ast.unparse(st.test).replace(" ", "") not in self.cond:
            # both arms, then the join (as in the base class) - a `None` placeholder on one side leaves the other side's type
            self.ty(st.test)
            env0 = dict(self.env)
            # `if X is None:` / `if X is not None:` - in the arm where X is None it is the value None, whatever array it may be on the other arm
            none_in = None
            t_ = st.test
            neg = False
            while isinstance(t_, ast.UnaryOp) and isinstance(t_.op, ast.Not):
                t_, neg = t_.operand, not neg
            if isinstance(t_, ast.Compare) and len(t_.ops) == 1 and isinstance(t_.ops[0], (ast.Is, ast.IsNot, ast.Eq, ast.NotEq)) and isinstance(t_.left, ast.Name) \
                    and isinstance(t_.comparators[0], ast.Constant) and t_.comparators[0].value is None:
                is_none_true = isinstance(t_.ops[0], (ast.Is, ast.Eq)) != neg
                none_in = (t_.left.id, "body" if is_none_true else "orelse")
            if none_in and none_in[1] == "body":
                self.env[none_in[0]] = NONEV
            self.run(st.body)
            env1 = self.env
            self.env = dict(env0)
            if none_in and none_in[1] == "orelse":
                self.env[none_in[0]] = NONEV
            self.run(st.orelse)
            env2 = self.env
            merged = {}
            for k in set(env1) | set(env2):
                a, b = env1.get(k, env0.get(k)), env2.get(k, env0.get(k))
                merged[k] = _join_any(a, b, k in env1, k in env2)
            self.env = merged
            return
        if isinstance(st, ast.For):
            items = self.items(st.iter)
            if items is not None and len(items) <= 16:
                for it in items:
                    self.bind(st.target, it, st)
                    self.run(st.body)
                self.run(st.orelse)
                return
        return super().stmt(st)

    def items(self, node):
        if isinstance(node, (ast.Tuple, ast.List)):
            return [self.ty(e) for e in node.elts]
        if isinstance(node, ast.Call) and dotted(node.func) == "zip" and node.args:
            its = [self.items(a) for a in node.args]
            if any(i is None for i in its):
                return None
            return [Tup(x) for x in zip(*its)]
        if isinstance(node, ast.Call) and isinstance(node.func, ast.Attribute) and node.func.attr in ("items", "keys", "values") and not node.args:
            t = self.ty(node.func.value)
            if isinstance(t, DictT):
                return [Tup([Str(k), v]) if node.func.attr == "items" else (Str(k) if node.func.attr == "keys" else v) for k, v in t.items()]
            return None
        if isinstance(node, (ast.Name, ast.Attribute, ast.Subscript, ast.BinOp, ast.Call, ast.IfExp)):
            t = self.ty(node)
            if isinstance(t, Tup):
                return list(t)
            if isinstance(t, DictT):
                return [Str(k) for k in t]
        return None

    def bind(self, target, t, st):
        if isinstance(target, ast.Name):
            self.ver[target.id] = self.ver.get(target.id, -1) + 1
            self.env[target.id] = t
        elif isinstance(target, (ast.Tuple, ast.List)):
            for i, e in enumerate(target.elts):
                self.bind(e, t[i] if isinstance(t, Tup) and len(t) == len(target.elts) else None, st)

    def assign(self, target, v, st):
        if isinstance(target, (ast.Tuple, ast.List)):
            if isinstance(v, Tup) and len(v) == len(target.elts):
                for t, x in zip(target.elts, v):
                    self.assign(t, x, st)
                return
            if isinstance(v, Gen):
                for t in target.elts:
                    self.assign(t, v.t, st)
                return
            for t in target.elts:
                self.assign(t, None, st)
            return
        if isinstance(target, ast.Subscript):
            b = self.ty(target.value)
            if isinstance(b, DictT):
                k = self.ty(target.slice)
                if isinstance(k, Str):
                    if isinstance(v, I) and v.cod is None and v.dom is not None:
                        v = I(v.dom, f"{v.dom}/{k.v}")
                    b[k.v] = v          # tab["name"] = value
                return None
        if isinstance(v, (Tup, Gen, Fn, Str, DictT, NZ2)) and not isinstance(target, ast.Name):
            v = None
        r = super().assign(target, v, st)
        if isinstance(target, ast.Name) and type(v) is A and v.kind == "mask" and self.env.get(target.id) is v:
            label = MaskTyper._sel_name(self, target)
            if self.depth:
                label += f"~{self.serial}"
            self.env[target.id] = A2(v.s, v.kind, label)
        return r
