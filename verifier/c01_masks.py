"""C01 helper: e3_masks.MaskTyper widened for the spellings clean-ups use (the typing rules themselves are unchanged):

  * helpers are followed: a call to a function of the `inline` table (bare name / `self.name`, also through a loop variable that holds the
    function) is typed on the argument types; its return type (tuples elementwise) is the type of the call; its resolved operations and
    reports join the caller's;
  * tuple values: `a, b = (x, y) if c else (u, v)`, `p, q, r = (np.zeros(n, bool) for _ in range(3))`, `a, b = f(...)`;
  * walrus targets; `for` loops over literal tuples (of tuples) and `zip(...)` of them are typed iteration by iteration with the loop
    variables bound.
"""
from __future__ import annotations

import ast

from .e1_srcmodel import dotted
from .e3_masks import MaskTyper, _join as join_types


class Tup(list):
    """types of the elements of a tuple value"""


class Gen:
    """a generator expression: every element has type t"""

    def __init__(self, t):
        self.t = t


class Fn:
    def __init__(self, name):
        self.name = name


def _join_any(a, b):
    if isinstance(a, Tup) and isinstance(b, Tup) and len(a) == len(b):
        return Tup(_join_any(x, y) for x, y in zip(a, b))
    return join_types(a, b, True, True)


class MaskTyper01(MaskTyper):
    def __init__(self, params, sizes=None, report=None, passthrough=(), cond=None, inline=None, depth=0):
        super().__init__(params, sizes, report, passthrough, cond)
        self.inline = dict(inline or {})
        self.depth = depth
        self.rets = []

    # ---- expressions
    def ty(self, node):
        if isinstance(node, ast.Name) and node.id not in self.env and node.id in self.inline:
            return Fn(node.id)
        if isinstance(node, (ast.Tuple, ast.List)):
            return Tup(self.ty(e) for e in node.elts)
        if isinstance(node, ast.NamedExpr):
            v = self.ty(node.value)
            self.assign(node.target, v, node)
            return self.ty(node.target) if isinstance(node.target, ast.Name) else v
        if isinstance(node, ast.GeneratorExp) and len(node.generators) == 1:
            return Gen(self.ty(node.elt))
        if isinstance(node, ast.IfExp):
            a, b = self.ty(node.body), self.ty(node.orelse)
            if isinstance(a, Tup) or isinstance(b, Tup):
                self.ty(node.test)
                return _join_any(a, b) if isinstance(a, Tup) and isinstance(b, Tup) else None
        return super().ty(node)

    def call(self, node):
        d = dotted(node.func)
        if isinstance(node.func, ast.Name) and isinstance(self.env.get(node.func.id), Fn):
            d = self.env[node.func.id].name
        fn = self.inline.get(d) if d else None
        if fn is not None and self.depth < 4 and not any(isinstance(a, ast.Starred) for a in node.args) and not any(k.arg is None for k in node.keywords):
            r = self.follow(node, d, fn)
            if r is not NotImplemented:
                return r
        return super().call(node)

    def follow(self, node, name, fn):
        a = fn.args
        params = [x.arg for x in a.posonlyargs + a.args]
        deco = {dotted(x) for x in fn.decorator_list}
        if name.startswith("self.") and "staticmethod" not in deco and params:
            params = params[1:]
        if a.vararg or a.kwarg or len(node.args) > len(params):
            return NotImplemented
        env = {k: v for k, v in self.env.items() if "." in k}
        for p, x in zip(params, node.args):
            env[p] = self.ty(x)
        for k in node.keywords:
            if k.arg not in params:
                return NotImplemented
            env[k.arg] = self.ty(k.value)
        dflt = dict(zip(params[::-1], (a.defaults or [])[::-1]))
        for p in params:
            if p not in env:
                if p not in dflt:
                    return NotImplemented
                env[p] = self.ty(dflt[p])
        sub = type(self)(env, self.sizes, self.report, self.passthrough, self.cond, self.inline, self.depth + 1)
        sub.ver = dict(self.ver)
        sub.run(fn.body)
        self.resolved += sub.resolved
        for k, v in sub.attr_types.items():
            self.env[k] = v
            self.attr_types[k] = v
        out = None
        for i, r in enumerate(sub.rets):
            out = r if i == 0 else _join_any(out, r)
        return out

    # ---- statements
    def stmt(self, st):
        if isinstance(st, ast.Return):
            self.rets.append(self.ty(st.value) if st.value is not None else None)
            return
        if isinstance(st, ast.For):
            items = self.items(st.iter)
            if items is not None and len(items) <= 16:
                for it in items:
                    self.bind(st.target, it, st)
                    self.run(st.body)
                self.run(st.orelse)
                return
        return super().stmt(st)

    def items(self, node):
        if isinstance(node, (ast.Tuple, ast.List)):
            return [self.ty(e) for e in node.elts]
        if isinstance(node, ast.Call) and dotted(node.func) == "zip" and node.args:
            its = [self.items(a) for a in node.args]
            if any(i is None for i in its):
                return None
            return [Tup(x) for x in zip(*its)]
        if isinstance(node, ast.Name):
            t = self.env.get(node.id)
            if isinstance(t, Tup):
                return list(t)
        return None

    def bind(self, target, t, st):
        if isinstance(target, ast.Name):
            self.ver[target.id] = self.ver.get(target.id, -1) + 1
            self.env[target.id] = t
        elif isinstance(target, (ast.Tuple, ast.List)):
            for i, e in enumerate(target.elts):
                self.bind(e, t[i] if isinstance(t, Tup) and len(t) == len(target.elts) else None, st)

    def assign(self, target, v, st):
        if isinstance(target, (ast.Tuple, ast.List)):
            if isinstance(v, Tup) and len(v) == len(target.elts):
                for t, x in zip(target.elts, v):
                    self.assign(t, x, st)
                return
            if isinstance(v, Gen):
                for t in target.elts:
                    self.assign(t, v.t, st)
                return
            for t in target.elts:
                self.assign(t, None, st)
            return
        if isinstance(v, (Tup, Gen, Fn)) and not isinstance(target, ast.Name):
            v = None
        return super().assign(target, v, st)
