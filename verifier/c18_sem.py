"""Value-level evaluation for the C18 rules (helper of verifier/c18.py; built on e2_eval.AutoEvaluator / sem.py).

`explore(ctx, rel, qual)` evaluates a function body on symbols once per *regime* - one combination of truth values of its branch
tests - and returns one `Path` per regime: the decisions taken (keyed by the *value* of the test, `<=` / `<` / `>=` / `!=` / `not`
folded onto `>` / `==`), the value returned or the `raise` reached, and the look-up call sites met on the way.  No solver and no
search: a test the evaluator has not met before splits the regime in two and the body is evaluated again for each half.

On top of AutoEvaluator the evaluator used here

  * binds the parameters to their own symbols, so `uset.loc[pv]` is idx(attr:loc(uset), pv) whether or not `uset` was rebound;
  * gives a subscript store `x[i] = v` the value  upd(x, i, v)  (no name of a local survives in a value);
  * ends a path at `raise` (Path.raised);
  * unpacks a non-tuple value `a, b = v` as idx(v, 0), idx(v, 1);
  * evaluates comprehensions with bound variables numbered by nesting depth (alpha-invariant);
  * evaluates a method call on a local as  call:.method(value of the object, ...);
  * follows private helpers (`_name` of the same module, or functions nested in the analysed function): the helper's body is
    evaluated with the argument values, so extracting or inlining a helper does not change any value;
  * writes equivalent library idioms the same way:  np.any(x) / x.any() / any(x);  np.where(c) / np.nonzero(c) / c.nonzero();
    np.shape(x) / x.shape;  np.argsort(x) / x.argsort();  np.searchsorted(a, v, ..) / a.searchsorted(v, ..);
    x.astype(T) / np.array(x, dtype=T) / np.asarray(x, T) / np.ascontiguousarray(x, T).

Second hardening pass (neutral patches N5-N8):

  * the functions are read *as written* (c18_fold.raw_func): no alpha-renaming / temporary-inlining pass in between;
  * helpers are followed when they are not part of the module's interface (`__all__` if the module has one, else: underscore or undocumented),
    module-level constants are folded (sem.module_consts);
  * local lists / dicts with known items are values (`L = []`, `L.append(x)`, `L[k] = x`, `a, b = L`, `T = {}`, `T["k"] = x`); a loop over a
    literal sequence / a list of known items / range(constants) / enumerate / zip of such is executed item by item (break / continue
    honoured), a comprehension over such a sequence is the list of its element values;
  * a loop nest that only appends to a list is the comprehension with the same generators and conditions (loops <-> comprehensions);
  * ufunc / operator-module spellings are the operators: np.not_equal / equal / greater / ... -> cmp:*, np.bitwise_and / or / xor -> mask:*,
    np.logical_and / or (boolean operands; otherwise (x != 0) & (y != 0)), np.logical_not / invert, np.take -> idx, np.compress -> idx;
  * `x in (a, b)` on a literal collection is cmp:In(x, tuple(a, b));  f"{x}" / "%d" % x / "{}".format(x) / format(x) are str(x);
  * arrays without elements (np.empty(0), np.zeros((0, 2)), np.array([])) are the one value EMPTY (`is_empty`);
  * a test written as a count of true elements (count_nonzero(m) > 0, m.sum(), len(nonzero(m)[0])) is any(m) (`truthy`).

Met in three further rounds of independently written refactoring patches (stored as neutral/C18-N9..):

  * `explore(..., pinned={flag: F.const(1)})` evaluates a function for one value of a flag (bool() / int() / arithmetic on it fold);
    None / True / False compared with each other or with a pinned 0 / 1 are decided, so a helper that returns None "when there is none"
    does not open infeasible regimes;
  * helpers of *another* module of the package (`locate._helper(...)` with `from pyyeti import locate`, `from .m import _helper`) are followed;
  * instances of record classes of the module (typing.NamedTuple, @dataclass, namedtuple) are their field values (`Rec`), `r.field` is the value;
  * `match` statements are tried case by case like an if / elif chain (value, singleton, class(), wildcard, or-, capture and sequence patterns,
    guards);
  * in-place forms: `out=X` stores the call's value in X, np.putmask / np.place / np.copyto / np.add.at / np.subtract.at are item stores,
    `X.sort()` / `.fill()` ... forget X; values handed to an opaque call *statement* are remembered (`escaped`): a rule must not conclude
    "unchanged" for them;
  * np.add / subtract / multiply / ... and operator.add ... are the arithmetic operators; tuple(x) / list(x) of known items are the items;
    a local bound to a method (`level = idx.get_level_values`) calls that method.

Fourth pass (fresh round N35, own refactorings O1..O5):

  * `with` blocks are executed in place; `try` runs body / else / finally (the handlers are paths the evaluator does not follow); a loop
    `for x in X: if test(x): raise` is the guard `if any(test(x) for x in X): raise`.  A block that is skipped although it holds a raise /
    return is remembered (`Path.hidden`, `ctx._c18_hidden`): the rules then record failed obligations as not decided, never as violations;
  * any / all over a one-generator comprehension is the reduction of the vector expression with the same elements (`elementwise`:
    (c > 6 for c in X), (r[1] > 6 for r in ROWS), (a and not b for a, b in zip(A, B)));  .max() / .min() of a boolean vector is any / all;
    len(X[M]) / X[M].size / X[M].shape[0] compared with 0 is any(M);  np.array_equal(a, b) is all(a == b);
  * X @ (c0, c1) / X.dot((c0, c1)) / np.dot is c0*X[:, 0] + c1*X[:, 1];  X[1:] - X[:-1] is np.diff(X);  take(.., mode="clip" / "wrap") is an
    index with the clamp / the modulus written out;  ufunc(.., out=X, where=M) stores ufunc(..)[M] in X[M];
  * plain classes of the module are followed: `C(args)` evaluates __init__ (the attributes stored on self are the object, `Obj`), a method
    call evaluates the method's body; types.SimpleNamespace(a=.., b=..) is an object with these attributes; a helper may return an object;
    `(f if c else g)(args)` calls the selected function; `a, b, *rest = v` unpacks the leading items;
  * a helper with a decorator other than lru_cache / cache / staticmethod / wraps is not inlined (functools.singledispatch, registries: the
    body is not what a call runs).
"""
from __future__ import annotations

import ast
from fractions import Fraction

from . import e2_formula as F
from .core import Unsupported
from .e1_srcmodel import dotted
from .e2_eval import AutoEvaluator, Unknown, is_unknown, need, IDENT_METHODS, ZERO_CTORS, ONE_CTORS, DictValue, _assigned_names
from .sem import unfn, module_consts
from .c18_fold import raw_module, raw_func

MAX_PATHS = 600
MAX_DEPTH = 3


class NeedDecision(Exception):
    def __init__(self, key):
        super().__init__(str(key)[:80])
        self.key = key


# --------------------------------------------------------------------------------------------------------------- values
def vkey(v):
    if isinstance(v, tuple):
        return ("tuple",) + tuple(vkey(x) for x in v)
    if is_unknown(v) or v is None:
        return None
    return ("rat", v.n.key(), v.d.key())


def same(a, b):
    if a is None or b is None or is_unknown(a) or is_unknown(b):
        return False
    if isinstance(a, tuple) or isinstance(b, tuple):
        return isinstance(a, tuple) and isinstance(b, tuple) and len(a) == len(b) and all(same(x, y) for x, y in zip(a, b))
    try:
        return need(a).equals(need(b))
    except Unsupported:
        return False


def wrap(v):
    """a value usable as an argument of an opaque application (tuples become tuple(...))"""
    if isinstance(v, tuple):
        return F.fn("tuple", *[wrap(x) for x in v])
    return need(v)


_UNFN = {}


def unfn_m(v):
    """sem.unfn, remembered per value (values are immutable)"""
    if v is None or is_unknown(v) or isinstance(v, (tuple, list, str)):
        return None
    k = vkey(v)
    if k not in _UNFN:
        _UNFN[k] = unfn(v)
    return _UNFN[k]


def app(v, name):
    """argument values if v is exactly the application `name(...)`, else None"""
    u = unfn_m(v)
    if u is None or u[0] != name:
        return None
    return u[1]


def head(v):
    u = unfn_m(v)
    return u[0] if u else None


def const_of(v):
    if v is None or is_unknown(v) or isinstance(v, tuple):
        return None
    try:
        if v.is_const():
            return v.const_value()
    except Exception:  # noqa
        return None
    return None


def sym_of(v):
    """name if v is exactly one symbol"""
    if v is None or is_unknown(v) or isinstance(v, tuple):
        return None
    try:
        if not v.d.is_const() or v.d.const_value() != 1 or len(v.n.t) != 1:
            return None
        (m, c), = v.n.t.items()
        if c != 1 or len(m) != 1 or m[0][1] != 1:
            return None
        d = F.atom_desc(m[0][0])
    except Exception:  # noqa
        return None
    return d[1] if d[0] == "s" else None


def _atom_value(a):
    return F.Rat(F.Poly.atom(a))


_SUBS = {}


def _walk(v, stop):
    if isinstance(v, (tuple, list)):
        for x in v:
            yield from _walk(x, stop)
        return
    if v is None or is_unknown(v):
        return
    yield v
    if stop is not None and stop(v):
        return
    single = unfn_m(v) is not None or sym_of(v) is not None
    for a in sorted(v.n.atoms() | v.d.atoms()):
        d = F.atom_desc(a)
        av = _atom_value(a)
        if not single:
            yield av
            if stop is not None and stop(av):
                continue
        if d[0] == "fn":
            for k in d[2]:
                if not isinstance(k, str):
                    yield from _walk(F.Rat(F._poly_from_key(k[1]), F._poly_from_key(k[2])), stop)


def subvalues(v):
    """(distinct sub-values of v, set of their keys), remembered per value"""
    if isinstance(v, (tuple, list)):
        vals, keys = [], set()
        for x in v:
            a, b = subvalues(x)
            for y in a:
                ky = vkey(y)
                if ky not in keys:
                    keys.add(ky)
                    vals.append(y)
        return vals, keys
    if v is None or is_unknown(v):
        return [], set()
    k = vkey(v)
    r = _SUBS.get(k)
    if r is None:
        vals, keys = [], set()
        for y in _walk(v, None):
            ky = vkey(y)
            if ky not in keys:
                keys.add(ky)
                vals.append(y)
        r = _SUBS[k] = (vals, keys)
    return r


def walk(v, stop=None):
    """v and every value nested in it (atoms of sums / products, arguments of applications); `stop(x)` true: x is yielded, not entered"""
    if stop is None:
        return iter(subvalues(v)[0])
    return _walk(v, stop)


def contains(v, w, stop=None):
    if stop is None:
        return vkey(w) in subvalues(v)[1]
    return any(same(x, w) for x in _walk(v, stop))


def find(v, pred, stop=None):
    return [x for x in walk(v, stop) if pred(x)]


def depends_on_sym(v, name):
    return any(sym_of(x) == name for x in walk(v))


def strip(v, names=("astype",)):
    """drop conversions / reshapes that do not change which elements a value holds"""
    while True:
        u = unfn_m(v)
        if u is None:
            return v
        if u[0] in names or u[0] in ("call:.reshape", "call:np.ravel", "call:np.squeeze", "call:.view_same"):
            v = u[1][0]
            continue
        return v


def rewrite(v, f):
    """v with every application name(args) replaced, innermost first, by f(name, args) (a value; None: keep the application)"""
    if isinstance(v, (tuple, list)):
        return type(v)(rewrite(x, f) for x in v) if not isinstance(v, Rec) else v
    if v is None or is_unknown(v):
        return v
    memo = {}

    def atom(a):
        if a in memo:
            return memo[a]
        d = F.atom_desc(a)
        r = _atom_value(a)
        if d[0] == "fn":
            args = [k if isinstance(k, str) else poly(F._poly_from_key(k[1])) / poly(F._poly_from_key(k[2])) for k in d[2]]
            r = f(d[1], args)
            if r is None:
                r = F.fn(d[1], *args)
        memo[a] = r
        return r

    def poly(p):
        res = F.const(0)
        for m, c in p.t.items():
            term = F.const(c)
            for a, e in m:
                term = term * atom(a) ** e
            res = res + term
        return res

    return poly(v.n) / poly(v.d)


def size_forms(x):
    """the spellings of `number of items of x` (rows of a 2-D array)"""
    return [F.fn("attr:size", x), F.fn("call:len", x), F.fn("idx", F.fn("attr:shape", x), F.const(0))]


# ---------------------------------------------------------------------------------------------------------------- atoms
_LITERALS = ("None", "True", "False")


def norm_atom(v):
    """test value -> (canonical value or None, polarity, constant truth or None)"""
    pol = True
    while True:
        if v is None or is_unknown(v) or isinstance(v, tuple):
            return None, pol, None
        c = const_of(v)
        if c is not None:
            return None, pol, (c != 0) == pol
        s = sym_of(v)
        if s in ("True", "False", "None"):
            return None, pol, (s == "True") == pol
        u = unfn_m(v)
        if u is None:
            return v, pol, None
        nm, a = u
        if nm == "not" and len(a) == 1:
            pol = not pol
            v = a[0]
            continue
        if nm.startswith("cmp:") and len(a) == 2 and not isinstance(a[0], str) and not isinstance(a[1], str):
            op = nm[4:]
            x, y = a
            cx, cy = const_of(x), const_of(y)
            if cx is not None and cy is not None and op in ("Eq", "NotEq", "Lt", "LtE", "Gt", "GtE"):
                r = {"Eq": cx == cy, "NotEq": cx != cy, "Lt": cx < cy, "LtE": cx <= cy, "Gt": cx > cy, "GtE": cx >= cy}[op]
                return None, pol, r == pol
            if op in ("Eq", "NotEq", "Is", "IsNot"):
                # None / True / False against each other or against a number: decided (a flag pinned to 1 / 0 stands for True / False)
                lx, ly = sym_of(x) if sym_of(x) in _LITERALS else None, sym_of(y) if sym_of(y) in _LITERALS else None
                vx = lx if lx is not None else (("True" if cx == 1 else "False") if cx in (0, 1) else ("number" if cx is not None else None))
                vy = ly if ly is not None else (("True" if cy == 1 else "False") if cy in (0, 1) else ("number" if cy is not None else None))
                if vx is not None and vy is not None and (lx is not None or ly is not None):
                    r = vx == vy
                    return None, pol, (r if op in ("Eq", "Is") else not r) == pol
            if op in ("NotEq", "IsNot", "NotIn"):
                pol = not pol
                op = {"NotEq": "Eq", "IsNot": "Is", "NotIn": "In"}[op]
            elif op == "LtE":
                pol = not pol
                op = "Gt"
            elif op == "Lt":
                op, x, y = "Gt", y, x
            elif op == "GtE":
                pol = not pol
                op, x, y = "Gt", y, x
            if op in ("Eq", "Is") and repr(vkey(x)) > repr(vkey(y)):
                x, y = y, x
            return F.fn("cmp:" + op, x, y), pol, None
        return v, pol, None


def _count_true(v):
    """X when v counts the true elements of the boolean vector X: count_nonzero(X), X.sum(), len / size of nonzero(X)[0]"""
    u = unfn_m(v)
    if u is None:
        return None
    nm, a = u
    if nm in ("call:np.count_nonzero", "call:np.sum", "call:sum", "call:.sum") and len(a) == 1 and is_boolean(a[0]):
        return a[0]
    if nm == "idx" and len(a) == 2 and const_of(a[1]) == 0 and app(a[0], "attr:shape"):
        nm, a = "call:len", app(a[0], "attr:shape")          # X.shape[0] is len(X)
    if nm in ("attr:size", "call:len", "call:np.size") and len(a) == 1:
        i = app(a[0], "idx")
        if i and const_of(i[1]) == 0 and app(i[0], "nonzero") and is_boolean(app(i[0], "nonzero")[0]):
            return app(i[0], "nonzero")[0]
        # the items of X selected by the boolean vector M (X[M]): there are some exactly when M has a true element (the callers compare the
        # count with 0 / 1 only; X has at least one column)
        if i and len(i) == 2 and is_boolean(i[1]) and head(i[1]) not in ("any", "all"):
            return i[1]
        # positions of A that are not / are also positions of B: the true elements of A & ~B / A & B
        for fn_, neg in (("call:np.setdiff1d", True), ("call:np.intersect1d", False)):
            sd = app(a[0], fn_)
            if sd and len(sd) >= 2:
                ms = [_positions_of(x) for x in sd[:2]]
                if ms[0] is not None and ms[1] is not None and all(app(k, "kw:assume_unique") for k in sd[2:]):
                    x, y = ms[0], (F.fn("invert", ms[1]) if neg else ms[1])
                    x, y = (x, y) if repr(vkey(x)) <= repr(vkey(y)) else (y, x)
                    return F.fn("mask:BitAnd", x, y)
    return None


def _positions_of(v):
    """M when v is the vector of positions of the true elements of the boolean vector M (np.flatnonzero(M), np.nonzero(M)[0])"""
    i = app(v, "idx")
    if i and const_of(i[1]) == 0 and app(i[0], "nonzero") and is_boolean(app(i[0], "nonzero")[0]):
        return app(i[0], "nonzero")[0]
    return None


def truthy(v):
    """a test value written as a count of true elements (count > 0, count != 0, count >= 1, the bare count; count == 0 negated) is any(X)"""
    if v is None or is_unknown(v) or isinstance(v, tuple):
        return v
    x = _count_true(v)
    if x is not None:
        return F.fn("any", x)
    u = unfn_m(v)
    if u and u[0] in ("call:.max", "call:np.max", "call:np.amax", "call:max", "call:.min", "call:np.min", "call:np.amin", "call:min") \
            and len(u[1]) == 1 and not isinstance(u[1][0], str) and is_boolean(u[1][0]) and head(u[1][0]) not in ("any", "all"):
        return F.fn("any" if "max" in u[0] else "all", u[1][0])            # the largest / smallest of truth values
    if u and u[0].startswith("cmp:") and len(u[1]) == 2:
        op, (p, q) = u[0][4:], u[1]
        flip = {"Gt": "Lt", "Lt": "Gt", "GtE": "LtE", "LtE": "GtE", "Eq": "Eq", "NotEq": "NotEq"}
        if _count_true(q) is not None and op in flip:
            p, q, op = q, p, flip[op]
        x, k = _count_true(p), const_of(q)
        if x is not None and k is not None:
            if (op, k) in (("Gt", 0), ("NotEq", 0), ("GtE", 1)):
                return F.fn("any", x)
            if (op, k) in (("Eq", 0), ("LtE", 0), ("Lt", 1)):
                return F.fn("not", F.fn("any", x))
    return v


# ------------------------------------------------------------------------------------------------------------ evaluator
def plain_first(node):
    return bool(node.args) and not isinstance(node.args[0], ast.Starred)


def _binop18(node, a, b, ev):
    op = node.op
    if is_unknown(a) or is_unknown(b) or isinstance(a, tuple) or isinstance(b, tuple):
        return NotImplemented
    if isinstance(op, ast.Sub):
        # X[1:] - X[:-1] is np.diff(X) (numbers; the rules read it on index vectors)
        ia, ib = app(a, "idx"), app(b, "idx")
        if ia and ib and len(ia) == 2 and len(ib) == 2 and same(ia[0], ib[0]):
            sa, sb = app(ia[1], "slice"), app(ib[1], "slice")
            if sa and sb and const_of(sa[0]) == 1 and sym_of(sa[1]) == "None" and sym_of(sa[2]) == "None" \
                    and sym_of(sb[0]) == "None" and const_of(sb[1]) == -1 and sym_of(sb[2]) == "None":
                return F.fn("call:np.diff", ia[0])
        return NotImplemented
    if isinstance(op, (ast.BitAnd, ast.BitOr, ast.BitXor)):
        ca, cb = const_of(a), const_of(b)
        if ca is not None and cb is not None and ca.denominator == 1 and cb.denominator == 1:
            ia, ib = int(ca), int(cb)
            return F.const(ia & ib if isinstance(op, ast.BitAnd) else (ia | ib if isinstance(op, ast.BitOr) else ia ^ ib))
        x, y = (a, b) if repr(vkey(a)) <= repr(vkey(b)) else (b, a)
        return F.fn("mask:" + type(op).__name__, need(x), need(y))
    if isinstance(op, (ast.Mod, ast.FloorDiv, ast.LShift, ast.RShift)):
        ca, cb = const_of(a), const_of(b)
        if ca is not None and cb is not None and ca.denominator == 1 and cb.denominator == 1 and (cb > 0 or isinstance(op, (ast.LShift, ast.RShift))):
            ia, ib = int(ca), int(cb)
            if isinstance(op, ast.Mod):
                return F.const(ia % ib)
            if isinstance(op, ast.FloorDiv):
                return F.const(ia // ib)
            if 0 <= ib < 128:
                return F.const(ia << ib if isinstance(op, ast.LShift) else ia >> ib)
        return F.fn("op:" + type(op).__name__, need(a), need(b))
    return NotImplemented


_REDUCE = {"np.any": "any", "any": "any", "np.all": "all", "all": "all"}
# ufunc spellings of the operators
_UF_CMP = {"not_equal": "NotEq", "equal": "Eq", "greater": "Gt", "greater_equal": "GtE", "less": "Lt", "less_equal": "LtE"}
_OP_CMP = {"ne": "NotEq", "eq": "Eq", "gt": "Gt", "ge": "GtE", "lt": "Lt", "le": "LtE"}
_UF_BIT = {"bitwise_and": ast.BitAnd, "bitwise_or": ast.BitOr, "bitwise_xor": ast.BitXor}
_UF_LOGICAL = {"logical_and": ast.BitAnd, "logical_or": ast.BitOr, "logical_xor": ast.BitXor}
_OP_BIT = {"and_": ast.BitAnd, "or_": ast.BitOr, "xor": ast.BitXor}
_UF_ARITH = {"add": ast.Add, "subtract": ast.Sub, "sub": ast.Sub, "multiply": ast.Mult, "mul": ast.Mult, "true_divide": ast.Div, "divide": ast.Div,
             "truediv": ast.Div, "floor_divide": ast.FloorDiv, "floordiv": ast.FloorDiv, "mod": ast.Mod, "remainder": ast.Mod,
             "left_shift": ast.LShift, "lshift": ast.LShift, "right_shift": ast.RShift, "rshift": ast.RShift}
_LIST_MUTATORS = {"append", "extend", "insert", "pop", "remove", "clear", "sort", "reverse", "update", "add", "discard", "setdefault", "popitem"}
EMPTY = F.sym("@empty")            # an array with no element (np.empty(0), np.zeros((0, 2)), np.array([]), ...)
UNINIT = F.sym("@uninit")          # the content of a buffer that was allocated and not written (np.empty((r, c)))
MAX_UNROLL = 16


def is_empty(v):
    """the value is an array / list without elements"""
    return (isinstance(v, tuple) and len(v) == 0) or sym_of(v) == "@empty"


def is_boolean(v):
    """the value is boolean by construction (a comparison, a reduction, a combination / selection of such)"""
    u = unfn_m(v)
    if u is None:
        return sym_of(v) in ("True", "False")
    nm, a = u
    if nm.startswith("cmp:") or nm in ("any", "all", "not") or nm.startswith("bool:"):
        return True
    if nm in ("invert", "idx") or nm.startswith("mask:"):
        vals = [x for x in a if not isinstance(x, str)]
        return bool(vals) and (is_boolean(vals[0]) if nm == "idx" else all(is_boolean(x) for x in vals))
    if nm == "astype" and len(a) == 2:
        return sym_of(a[1]) in ("bool", "np.bool_")
    return False


def column(x, j):
    """column j of the 2-D array x: x[:, j]"""
    return F.fn("idx", need(x), F.fn("tuple", F.fn("slice", F.sym("None"), F.sym("None"), F.sym("None")), need(j)))


def _nonzero_test(x):
    """any(a - b): some element of a - b is not zero - the test  a != b  element by element"""
    if is_unknown(x) or isinstance(x, tuple) or is_boolean(x):
        return x
    try:
        if not x.d.is_const() or len(x.n.t) != 2:
            return x
        (m1, c1), (m2, c2) = x.n.t.items()
        if c1 != -c2 or not m1 or not m2:
            return x
        a, b = F.Rat(F.Poly({m1: Fraction(1)})), F.Rat(F.Poly({m2: Fraction(1)}))
    except Exception:  # noqa
        return x
    if repr(vkey(a)) > repr(vkey(b)):
        a, b = b, a
    return F.fn("cmp:NotEq", a, b)


def elementwise(v):
    """a one-generator comprehension without conditions whose element is computed from the loop item alone, written as the vector expression
    that holds the same elements:  (c > 6 for c in X) -> X > 6;  (r[1] > 6 for r in ROWS) -> ROWS[:, 1] > 6;  (a and not b for a, b in
    zip(A, B)) -> A & ~B.  None when v is not of that form (the callers reduce the result with any / all, so only the elements matter)"""
    a = app(v, "comp")
    if not a or len(a) != 2:
        return None
    g = app(a[1], "gen")
    if not g or len(g) != 1:
        return None
    elt, it = a[0], g[0]
    names = {sym_of(x) for x in walk(elt) if (sym_of(x) or "").startswith(("@v", "@i"))}
    if len(names) != 1 or not next(iter(names)).startswith("@v"):
        return None
    var = F.sym(next(iter(names)))
    z = app(it, "call:zip")
    bad = []
    holes = {}          # placeholder symbol -> value (filled in last, so that bound variables inside the iterated value are not captured)

    def hole(key, val):
        nm = f"@hole{key}"
        holes[nm] = val
        return F.sym(nm)

    def f(name, args):
        if name == "idx" and len(args) == 2 and not isinstance(args[0], str) and same(args[0], var):
            k = const_of(args[1])
            if k is None or k.denominator != 1:
                bad.append(1)
                return None
            if z:
                if not -len(z) <= int(k) < len(z):
                    bad.append(1)
                    return None
                return hole(int(k), z[int(k)])
            return hole(int(k), column(it, args[1]))
        if name in ("bool:And", "bool:Or") and len(args) >= 2 and not any(isinstance(x, str) for x in args):
            out = args[0]
            for y in args[1:]:
                out = F.fn("@and" if name == "bool:And" else "@or", out, y)
            return out
        if name == "not" and len(args) == 1 and not isinstance(args[0], str):
            return F.fn("@not", args[0])
        return None
    try:
        r = rewrite(elt, f)
        if bad:
            return None
        if any(same(x, var) for x in walk(r)):
            if z:
                return None
            r = _subst_sym(r, var, hole("w", it))          # the bare item: the element of the vector iterated over
        for nm, val in holes.items():
            r = _subst_sym(r, F.sym(nm), val)

        def order(name, args):
            if name in ("@and", "@or") and len(args) == 2:
                if not (is_boolean(args[0]) and is_boolean(args[1])):
                    bad.append(1)
                    return None
                p, q = (args[0], args[1]) if repr(vkey(args[0])) <= repr(vkey(args[1])) else (args[1], args[0])
                return F.fn("mask:BitAnd" if name == "@and" else "mask:BitOr", p, q)
            if name == "@not" and len(args) == 1:
                if not is_boolean(args[0]):
                    bad.append(1)
                    return None
                return F.fn("invert", args[0])
            return None
        r = rewrite(r, order)
    except Unsupported:
        return None
    return None if bad else r


def _subst_sym(v, var, val):
    """v with the symbol var replaced by the value val"""
    memo = {}

    def atom(a):
        if a in memo:
            return memo[a]
        d = F.atom_desc(a)
        r = _atom_value(a)
        if d[0] == "s" and same(r, var):
            r = val
        elif d[0] == "fn":
            args = [k if isinstance(k, str) else poly(F._poly_from_key(k[1])) / poly(F._poly_from_key(k[2])) for k in d[2]]
            r = F.fn(d[1], *args)
        memo[a] = r
        return r

    def poly(p):
        res = F.const(0)
        for m, c in p.t.items():
            term = F.const(c)
            for a, e in m:
                term = term * atom(a) ** e
            res = res + term
        return res

    return poly(v.n) / poly(v.d)


def _sized(n):
    """X when the value n is the number of items of X: len(X), X.shape[0], X.size"""
    u = unfn_m(n)
    if u is None:
        return None
    if u[0] in ("call:len", "attr:size") and len(u[1]) == 1 and not isinstance(u[1][0], str):
        return u[1][0]
    if u[0] == "idx" and len(u[1]) == 2 and const_of(u[1][1]) == 0 and app(u[1][0], "attr:shape"):
        return app(u[1][0], "attr:shape")[0]
    return None


def _truth_index(ix):
    """the truth value t when the index value ix is one of  t,  bool(t),  int(t),  int(bool(t))  with t boolean by construction (bool(x): x)"""
    u = unfn_m(ix)
    if u is not None and u[0] == "call:bool" and len(u[1]) == 1:
        return u[1][0]
    if u is not None and u[0] in ("call:int", "call:operator.index") and len(u[1]) == 1:
        return _truth_index(u[1][0])
    return ix if is_boolean(ix) else None


_ATTRFN = {"np.shape": "shape", "np.size": "size", "np.ndim": "ndim"}
_CONVERT = {"np.array", "np.asarray", "np.ascontiguousarray", "np.asanyarray", "np.require"}


def _consts(ctx, rel):
    """module-level names bound once to a literal (sem.module_consts), per source model and file (remembered on the source model itself)"""
    tab = ctx.src.__dict__.setdefault("_c18_consts", {})
    if rel not in tab:
        try:
            tab[rel] = module_consts(ctx, rel)
        except Exception:  # noqa
            tab[rel] = {}
    return tab[rel]


def _is_public(m, name):
    """is the module-level function part of the module's interface (`__all__` when the module has one; otherwise: no leading underscore
    and documented)?  Calls to interface functions stay opaque - they are what the rules name; everything else is a helper and is followed."""
    if "_c18_public" not in m.__dict__:
        names = None
        for st in m.tree.body:
            if isinstance(st, ast.Assign) and any(isinstance(t, ast.Name) and t.id == "__all__" for t in st.targets) \
                    and isinstance(st.value, (ast.List, ast.Tuple)):
                names = {e.value for e in st.value.elts if isinstance(e, ast.Constant) and isinstance(e.value, str)}
        m.__dict__["_c18_public"] = names
    names = m.__dict__["_c18_public"]
    if names is not None:
        return name in names
    f = m.funcs.get(name)
    return not name.startswith("_") and f is not None and ast.get_docstring(f) is not None


class Rec(tuple):
    """an instance of a NamedTuple / dataclass / namedtuple defined in the analysed module: its field values, by position and by name"""
    fields = ()


def _records(m):
    """{class name: (field names, {field: default expression})} for the record classes of a module (typing.NamedTuple subclasses, @dataclass
    classes, `X = namedtuple("X", ...)`)"""
    if "_c18_records" not in m.__dict__:
        out = {}
        for st in m.tree.body:
            if isinstance(st, ast.ClassDef):
                bases = {dotted(b) for b in st.bases}
                decos = {dotted(x.func if isinstance(x, ast.Call) else x) for x in st.decorator_list}
                if bases & {"NamedTuple", "typing.NamedTuple"} or decos & {"dataclass", "dataclasses.dataclass"}:
                    fields, dflt = [], {}
                    for x in st.body:
                        if isinstance(x, ast.AnnAssign) and isinstance(x.target, ast.Name):
                            fields.append(x.target.id)
                            if x.value is not None:
                                dflt[x.target.id] = x.value
                    out[st.name] = (fields, dflt)
            elif isinstance(st, ast.Assign) and len(st.targets) == 1 and isinstance(st.targets[0], ast.Name) and isinstance(st.value, ast.Call) \
                    and dotted(st.value.func) in ("namedtuple", "collections.namedtuple") and len(st.value.args) == 2:
                spec = st.value.args[1]
                names = None
                if isinstance(spec, ast.Constant) and isinstance(spec.value, str):
                    names = spec.value.replace(",", " ").split()
                elif isinstance(spec, (ast.List, ast.Tuple)) and all(isinstance(e, ast.Constant) and isinstance(e.value, str) for e in spec.elts):
                    names = [e.value for e in spec.elts]
                if names:
                    out[st.targets[0].id] = (names, {})
        m.__dict__["_c18_records"] = out
    return m.__dict__["_c18_records"]


def _imports(ctx, rel):
    """({alias: file of a module of the package}, {name: (file, function)}) for the top-level imports of `rel` that lead into the package"""
    m = raw_module(ctx, rel)
    if "_c18_imports" not in m.__dict__:
        import os
        mods, funcs = {}, {}

        def path_of(dotted_name):
            p = dotted_name.replace(".", "/")
            for cand in (p + ".py", p + "/__init__.py"):
                if os.path.exists(os.path.join(ctx.src.repo, cand)):
                    return cand
            return None

        pkg = rel.split("/")[:-1]
        for st in m.tree.body:
            if isinstance(st, ast.Import):
                for a in st.names:
                    f = path_of(a.name)
                    if f and a.asname:
                        mods[a.asname] = f
            elif isinstance(st, ast.ImportFrom):
                base = pkg[:len(pkg) - (st.level - 1)] if st.level else []
                prefix = ".".join(base + ([st.module] if st.module else []))
                for a in st.names:
                    full = (prefix + "." if prefix else "") + a.name
                    f = path_of(full)
                    if f:
                        mods[a.asname or a.name] = f
                    elif prefix and path_of(prefix):
                        funcs[a.asname or a.name] = (path_of(prefix), a.name)
        m.__dict__["_c18_imports"] = (mods, funcs)
    return m.__dict__["_c18_imports"]


_LIB_CANON = {"numpy": "np"}
_LIB_MODULES = {"numpy", "functools", "operator", "itertools", "math", "collections", "builtins"}


def _alias_entries(st, table):
    """names an import statement binds to a library module / function -> canonical dotted spelling (`np.` for numpy)"""
    if isinstance(st, ast.Import):
        for a in st.names:
            if a.name.split(".")[0] not in _LIB_MODULES:
                continue
            canon = _LIB_CANON.get(a.name, a.name)
            local = a.asname or a.name.split(".")[0]
            if a.asname is None and "." in a.name:
                continue
            if local != canon:
                table[local] = canon
            else:
                table.pop(local, None)
    elif isinstance(st, ast.ImportFrom) and not st.level and st.module and st.module.split(".")[0] in _LIB_MODULES:
        mod = _LIB_CANON.get(st.module, st.module)
        for a in st.names:
            if a.name != "*":
                table[a.asname or a.name] = (mod + "." + a.name) if mod != "builtins" else a.name


def _lib_aliases(ctx, rel):
    m = raw_module(ctx, rel)
    if "_c18_aliases" not in m.__dict__:
        table = {}
        for st in m.tree.body:
            _alias_entries(st, table)
        m.__dict__["_c18_aliases"] = table
    return m.__dict__["_c18_aliases"]


_DOTTED = None


def _parse_dotted(name):
    return ast.parse(name, mode="eval").body


_INPLACE_METHODS = {"sort", "fill", "resize", "partition", "put", "itemset", "setfield", "setflags"}


def _str_of(x):
    return F.fn("call:str", need(x))


class Closure(Unknown):
    """a lambda bound to a local: called with the values of its arguments (free names are read when it is called, as Python does)"""

    def __init__(self, node, defaults):
        super().__init__("a lambda (followed when it is called by name)")
        self.node, self.defaults = node, defaults


class Obj(Unknown):
    """an instance of a plain class of the analysed module (or a types.SimpleNamespace): the values its attributes were given; a method call
    on it is the method's body evaluated with `self` standing for the instance"""

    def __init__(self, cls, fields):
        super().__init__("an object (its attributes and methods are followed)")
        self.cls, self.fields = cls, fields


def _plain_classes(m):
    """{name: ClassDef} of the module-level classes without bases / decorators / metaclass (a helper object extracted from a function)"""
    if "_c18_classes" not in m.__dict__:
        out = {}
        for st in m.tree.body:
            if isinstance(st, ast.ClassDef) and not st.decorator_list and not st.keywords and all(dotted(b) == "object" for b in st.bases):
                out[st.name] = st
        m.__dict__["_c18_classes"] = out
    return m.__dict__["_c18_classes"]


_HARMLESS_DECORATORS = {"functools.lru_cache", "lru_cache", "functools.cache", "cache", "staticmethod", "functools.wraps"}


def _opaque_decorators(fn):
    """decorators that may replace the function by something else (functools.singledispatch, a registry, numba ...): its body is then not what
    a call runs"""
    out = []
    for x in getattr(fn, "decorator_list", []):
        d = dotted(x.func if isinstance(x, ast.Call) else x)
        if d not in _HARMLESS_DECORATORS:
            out.append(d or ast.unparse(x))
    return out


class Partial(Unknown):
    """functools.partial(f, *args, **kw) bound to a local: calling it is calling f with the stored arguments first"""

    def __init__(self, func, pos, kw):
        super().__init__("a functools.partial object (followed when it is called by name)")
        self.func, self.pos, self.kw = func, pos, kw


def _has_yield(fn):
    from .e1_srcmodel import walk_no_nested
    return any(isinstance(n, (ast.Yield, ast.YieldFrom)) for n in walk_no_nested(fn))


class _Degen(ast.NodeTransformer):
    """a generator function read as the function that returns the list of what it yields: `yield x` -> `@yield.append(x)`,
    `yield from X` -> `@yield.extend(X)` (nested functions are left alone)"""

    def visit_FunctionDef(self, node):
        return node

    visit_AsyncFunctionDef = visit_Lambda = visit_FunctionDef

    def visit_Expr(self, node):
        v = node.value
        if isinstance(v, (ast.Yield, ast.YieldFrom)):
            arg = v.value if v.value is not None else ast.Constant(value=None)
            call = ast.Call(func=ast.Attribute(value=ast.Name(id="@yield", ctx=ast.Load()), attr="append" if isinstance(v, ast.Yield) else "extend",
                                               ctx=ast.Load()), args=[arg], keywords=[])
            return ast.fix_missing_locations(ast.copy_location(ast.Expr(value=call), node))
        return node


def _degen_body(fn):
    body = fn.__dict__.get("_c18_degen")
    if body is None:
        import copy
        t = _Degen()
        body = []
        for st in fn.body:
            st2 = copy.deepcopy(st)
            r = t.visit(st2) if not isinstance(st2, (ast.FunctionDef, ast.AsyncFunctionDef)) else st2
            body.append(r)
        fn.__dict__["_c18_degen"] = body
    return body


class PathEval(AutoEvaluator):
    def __init__(self, fn, ctx, rel, decisions, trace, sites, depth=0, env=None, qual=None):
        super().__init__(fn, src=ctx.src, cond=self._oracle, call=self._hook, binop=_binop18, env=env)
        self.buffers = set()
        self.fn, self.ctx, self.rel, self.depth = fn, ctx, rel, depth
        self.qual = qual or getattr(fn, "_vqual", fn.name)
        self.decisions, self.trace, self.sites = decisions, trace, sites
        self.raised = None
        self._bv = 0
        self._canon_depth = 0
        self._positions = []       # (position symbol @i<n>, sequence walked by position, its item @v<n>) of the index loops being evaluated
        self._brk = self._cont = False
        self.escaped = []          # values handed to calls whose result is thrown away (an opaque call statement may change them in place)
        self._objs = {}            # call node -> object a followed helper returned for it
        self.hidden = []           # compound statements that were not executed although they hold a raise / return (control flow the paths miss)
        self.module_consts = _consts(ctx, rel)
        self.aliases = dict(_lib_aliases(ctx, rel))      # import aliases of library modules / functions -> canonical dotted spelling
        a = fn.args
        for p in a.posonlyargs + a.args + a.kwonlyargs + ([a.vararg] if a.vararg else []) + ([a.kwarg] if a.kwarg else []):
            self.env.setdefault(p.arg, F.sym(p.arg))

    # ---- branch oracle: decide by value, split the regime on a test not met before
    def _oracle(self, test, ev):
        if isinstance(test, ast.BoolOp) or (isinstance(test, ast.UnaryOp) and isinstance(test.op, ast.Not)):
            return None
        return self._decide_value(self.ev(test), test)

    def _decide_value(self, v, test):
        """truth of a test *value*.  A value that is itself `a and b` / `a or b` (a flag computed as an expression and tested later, a
        helper that returns one) is decided part by part with the short circuit of the operator, exactly like the test `if a and b:` written
        in place - the regimes and the atoms the rules see do not depend on where the combination is spelled"""
        v = truthy(v)
        canon, pol, truth = norm_atom(v)
        if truth is not None:
            return truth
        if canon is None:
            key = ("src", ast.unparse(test))
            pol = True
        else:
            u = unfn_m(canon)
            if u is not None and u[0] in ("call:bool", "call:operator.truth") and len(u[1]) == 1 and not isinstance(u[1][0], str):
                r = self._decide_value(u[1][0], test)             # the truth of bool(x) is the truth of x
                return r if pol else (not r)
            if u is not None and u[0] == "invert" and len(u[1]) == 1 and is_boolean(u[1][0]):
                r = not self._decide_value(u[1][0], test)          # ~flag on a boolean is `not flag`
                return r if pol else (not r)
            if u is not None and u[0] in ("mask:BitAnd", "mask:BitOr") and len(u[1]) == 2 and all(is_boolean(x) for x in u[1]):
                u = ("bool:And" if u[0] == "mask:BitAnd" else "bool:Or", u[1])     # `&` / `|` of two truth values: `and` / `or` without the short circuit
            if u is not None and u[0] in ("bool:And", "bool:Or") and u[1] and not any(isinstance(x, str) for x in u[1]):
                isand = u[0] == "bool:And"
                r = isand
                for part in u[1]:
                    if self._decide_value(part, test) is (not isand):
                        r = not isand
                        break
                return r if pol else (not r)
            key = vkey(canon)
        d = self.decisions.get(key)
        if d is None:
            raise NeedDecision(key)
        self.trace.append((key, canon, d, test))
        return d if pol else (not d)

    # ---- statements
    def run(self, stmts):
        for st in stmts:
            if self.done or self._brk or self._cont:
                break
            self.stmt(st)

    def stmt(self, st):
        if self.done or self._brk or self._cont:
            return
        if isinstance(st, ast.Raise):
            self.raised = st
            self.done = True
            return
        if isinstance(st, ast.Break):
            self._brk = True
            return
        if isinstance(st, ast.Continue):
            self._cont = True
            return
        if isinstance(st, ast.Expr) and isinstance(st.value, ast.Call) and self._list_method(st.value):
            return
        if isinstance(st, ast.Expr) and isinstance(st.value, ast.Call):
            c = st.value
            if isinstance(c.func, ast.Attribute) and isinstance(c.func.value, ast.Name) and c.func.attr in _INPLACE_METHODS \
                    and c.func.value.id in self.env and c.func.value.id not in self.pinned:
                self.ev(c)
                self.env[c.func.value.id] = Unknown(f"changed in place by .{c.func.attr}()")
                return
            v = self.ev(c)
            u = unfn_m(v) if not isinstance(v, tuple) else None
            if u is not None and u[0].startswith("call:") and not any(k.arg == "out" for k in c.keywords):
                # an opaque call whose result is dropped: whatever it was given may have been changed in place
                self.escaped.extend(x for x in u[1] if not isinstance(x, str))
            return
        if isinstance(st, ast.Match):
            self._match(st)
            return
        if isinstance(st, (ast.Import, ast.ImportFrom)):
            _alias_entries(st, self.aliases)
            return
        if isinstance(st, ast.Assign) and len(st.targets) == 1 and isinstance(st.targets[0], ast.Name) and isinstance(st.value, ast.Call) \
                and dotted(st.value.func) in ("functools.partial", "partial") and st.targets[0].id not in self.pinned:
            pt = self._partial(st.value)
            if pt is not None:
                self.env[st.targets[0].id] = pt
                return
        if isinstance(st, ast.AugAssign) and isinstance(st.op, ast.Add) and isinstance(st.target, ast.Name) \
                and isinstance(st.value, (ast.List, ast.Tuple)) and isinstance(self.env.get(st.target.id), tuple):
            # L += [x]  on a local list: concatenation (the generic evaluator would add element by element)
            self.env[st.target.id] = self.env[st.target.id] + tuple(self.ev(e) for e in st.value.elts)
            return
        if isinstance(st, ast.For) and not st.orelse and self._for(st):
            return
        if isinstance(st, ast.With) and not any(isinstance(n, (ast.Yield, ast.YieldFrom)) for n in ast.walk(st)):
            # a context manager (np.errstate, warnings.catch_warnings, suppress of nothing the rules model ...) does not change a value: the
            # body is executed in place
            for item in st.items:
                v = self.ev(item.context_expr)
                if item.optional_vars is not None:
                    self._assign(item.optional_vars, v, st)
            self.run(st.body)
            return
        if isinstance(st, ast.Try):
            # the path on which nothing is raised: body, else, finally.  The handlers are paths this evaluator does not follow: a raise /
            # return inside them is control flow the regimes miss (`hidden`)
            if any(isinstance(n, (ast.Raise, ast.Return)) for h in st.handlers for n in ast.walk(h)):
                self.hidden.append(st)
            self.run(st.body)
            self.run(st.orelse)
            self.run(st.finalbody)
            return
        if isinstance(st, ast.For) and not st.orelse and len(st.body) == 1 and isinstance(st.body[0], ast.If) and not st.body[0].orelse \
                and len(st.body[0].body) == 1 and isinstance(st.body[0].body[0], ast.Raise) and "any" not in self.env:
            # `for x in X: if test(x): raise E`  refuses exactly when  any(test(x) for x in X)
            gen = ast.GeneratorExp(elt=st.body[0].test, generators=[ast.comprehension(target=st.target, iter=st.iter, ifs=[], is_async=0)])
            test = ast.Call(func=ast.Name(id="any", ctx=ast.Load()), args=[gen], keywords=[])
            guard = ast.If(test=test, body=st.body[0].body, orelse=[])
            self.stmt(ast.fix_missing_locations(ast.copy_location(guard, st)))
            return
        if isinstance(st, (ast.For, ast.While)):
            if any(isinstance(n, (ast.Raise, ast.Return)) for n in ast.walk(st)):
                self.hidden.append(st)
            super().stmt(st)
            self._forget_mutated(st)
            return
        super().stmt(st)

    # ---- match: the cases are tried in order like an if / elif chain on tests of the subject
    def _pattern(self, subj, pat, binds):
        """test expression (ast) for `subj` matching `pat`, True for an irrefutable pattern, None for a pattern this evaluator does not lower"""
        loc = lambda n: ast.fix_missing_locations(ast.copy_location(n, pat))
        if isinstance(pat, ast.MatchValue):
            return loc(ast.Compare(left=subj, ops=[ast.Eq()], comparators=[pat.value]))
        if isinstance(pat, ast.MatchSingleton):
            return loc(ast.Compare(left=subj, ops=[ast.Is()], comparators=[ast.Constant(value=pat.value)]))
        if isinstance(pat, ast.MatchAs):
            t = True if pat.pattern is None else self._pattern(subj, pat.pattern, binds)
            if pat.name is not None:
                binds.append((pat.name, subj))
            return t
        if isinstance(pat, ast.MatchOr):
            ts = [self._pattern(subj, q, []) for q in pat.patterns]
            if any(t is None for t in ts):
                return None
            if any(t is True for t in ts):
                return True
            return loc(ast.BoolOp(op=ast.Or(), values=ts))
        if isinstance(pat, ast.MatchClass) and not pat.patterns and not pat.kwd_attrs:
            return loc(ast.Call(func=ast.Name(id="isinstance", ctx=ast.Load()), args=[subj, pat.cls], keywords=[]))
        if isinstance(pat, ast.MatchSequence) and isinstance(subj, (ast.Tuple, ast.List)) and len(subj.elts) == len(pat.patterns) \
                and not any(isinstance(q, ast.MatchStar) for q in pat.patterns):
            ts = [self._pattern(e, q, binds) for e, q in zip(subj.elts, pat.patterns)]
            if any(t is None for t in ts):
                return None
            ts = [t for t in ts if t is not True]
            return True if not ts else (ts[0] if len(ts) == 1 else loc(ast.BoolOp(op=ast.And(), values=ts)))
        return None

    def _match(self, st):
        for case in st.cases:
            binds = []
            t = self._pattern(st.subject, case.pattern, binds)
            c = None if t is None else (True if t is True else self.decide(t))
            if c is None:
                for n in _assigned_names(st):
                    if n not in self.pinned:
                        self.env[n] = Unknown("assigned under a match pattern that is not lowered")
                self._forget_mutated(st)
                return
            if not c:
                continue
            for name, expr in binds:
                self.env[name] = self.ev(expr)
            if case.guard is not None:
                g = self.decide(case.guard)
                if g is None:
                    for n in _assigned_names(st):
                        if n not in self.pinned:
                            self.env[n] = Unknown("assigned under an undecided match guard")
                    return
                if not g:
                    continue
            self.run(case.body)
            return

    # ---- local lists: `L = []`, `L.append(x)`, `a, b = L`; loops
    def _list_method(self, call):
        """a method call statement on a local list whose items are known: the list after the call"""
        f = call.func
        if not (isinstance(f, ast.Attribute) and isinstance(f.value, ast.Name) and isinstance(self.env.get(f.value.id), tuple)):
            return False
        nm, cur = f.value.id, self.env[f.value.id]
        if f.attr == "append" and len(call.args) == 1 and not call.keywords and not isinstance(call.args[0], ast.Starred):
            self.env[nm] = cur + (self.ev(call.args[0]),)
        elif f.attr == "extend" and len(call.args) == 1 and not call.keywords and isinstance(self.ev(call.args[0]), tuple):
            self.env[nm] = cur + self.ev(call.args[0])
        elif f.attr == "extend" and len(call.args) == 1 and not call.keywords and cur == () and head(self.ev(call.args[0])) == "comp":
            self.env[nm] = self.ev(call.args[0])            # an empty list extended by a comprehension holds the comprehension's items
        elif f.attr in _LIST_MUTATORS:
            self.env[nm] = Unknown(f"list changed by .{f.attr}()")
        else:
            return False
        return True

    def _forget_mutated(self, st):
        """after a loop / block that was not executed: locals it changes through a method call or an item store are not known any more"""
        for n in ast.walk(st):
            nm = None
            if isinstance(n, ast.Call) and isinstance(n.func, ast.Attribute) and isinstance(n.func.value, ast.Name) and n.func.attr in _LIST_MUTATORS:
                nm = n.func.value.id
            elif isinstance(n, ast.Subscript) and isinstance(n.ctx, (ast.Store, ast.Del)) and isinstance(n.value, ast.Name):
                nm = n.value.id
            if nm is not None and nm in self.env and nm not in self.pinned:
                self.env[nm] = Unknown(f"{nm} is changed inside {type(st).__name__}")

    def _items(self, node, it):
        """the items of a loop over a literal sequence / a list of known items / range(constants) / enumerate or zip of such, else None"""
        if isinstance(it, tuple):
            return list(it)
        if isinstance(node, ast.Call) and isinstance(node.func, ast.Name) and not node.keywords and node.func.id not in self.env:
            args = [self.ev(a) for a in node.args if not isinstance(a, ast.Starred)]
            if len(args) != len(node.args):
                return None
            if node.func.id == "range" and 1 <= len(args) <= 3:
                ks = [const_of(a) for a in args]
                if all(k is not None and k.denominator == 1 for k in ks):
                    r = range(*[int(k) for k in ks])
                    return [F.const(k) for k in r] if len(r) <= MAX_UNROLL else None
            if node.func.id == "enumerate" and len(args) == 1 and isinstance(args[0], tuple):
                return [(F.const(k), x) for k, x in enumerate(args[0])]
            if node.func.id == "zip" and args and all(isinstance(a, tuple) for a in args) and len({len(a) for a in args}) == 1:
                return [tuple(x) for x in zip(*args)]
            if node.func.id == "reversed" and len(args) == 1 and isinstance(args[0], tuple):
                return list(args[0])[::-1]
        return None

    def _for(self, st):
        items = self._items(st.iter, self.ev(st.iter))
        if items is not None and len(items) <= MAX_UNROLL:
            # a loop over a sequence whose items are known is executed item by item
            for x in items:
                self._assign(st.target, x, st)
                self._cont = False
                self.run(st.body)
                if self.done or self._brk:
                    break
            self._brk = self._cont = False
            return True
        return self._loop_as_comp(st)

    def _loop_as_comp(self, st):
        """a loop (nest) that only appends to local lists is the comprehension with the same generators and conditions:
        `L = []` + `for a in A: for b in B: if c: L.append(e)`  gives L the value of  `[e for a in A for b in B if c]`"""
        saved, bv, npos = dict(self.env), self._bv, len(self._positions)
        accs = {}
        try:
            ok = self._comp_for(st, [], accs)
        except Unsupported:
            ok = False
        finally:
            self.env, self._bv = saved, bv
        positions, self._positions = self._positions, self._positions[:npos]
        if not ok or not accs:
            return False
        for nm, sites in accs.items():
            if saved.get(nm) == () and len(sites) == 1:
                elt, gens = sites[0]
                try:
                    v = F.fn("comp", wrap(elt), *[F.fn("gen", *g) for g in gens])
                    self._positions = positions
                    try:
                        v = self._fold_positions(v)
                    finally:
                        self._positions = positions[:npos]
                    self.env[nm] = v
                except Unsupported as e:
                    self.env[nm] = Unknown(str(e))
            else:
                self.env[nm] = Unknown(f"{nm} is filled by a loop this evaluator does not express as a comprehension")
        for n in _assigned_names(st):
            if n not in accs and n not in self.pinned:
                self.env[n] = Unknown("assigned inside a loop")
        return True

    def _bind_loop(self, iter_node, target):
        """bind the target of `for target in iter` to the loop's bound variable @v<n> and return the value iterated over (Unknown: not lowered).
        `for k, x in enumerate(X)` iterates X with k the position @i<n> of the item;  `for k in range(len(X))` (X.shape[0], X.size) iterates
        X by position: k is @i<n> and X[k] is the item (`_fold_positions`) - three spellings of one loop"""
        n = self._bv
        b, pos = F.sym(f"@v{n}"), F.sym(f"@i{n}")
        if isinstance(iter_node, ast.Call) and isinstance(iter_node.func, ast.Name) and iter_node.func.id not in self.env and not iter_node.keywords \
                and len(iter_node.args) == 1 and not isinstance(iter_node.args[0], ast.Starred):
            if iter_node.func.id == "enumerate" and isinstance(target, (ast.Tuple, ast.List)) and len(target.elts) == 2:
                it = self._ev(iter_node.args[0])
                if is_unknown(it):
                    return it
                self._bv += 1
                self._bind(target.elts[0], pos)
                self._bind(target.elts[1], b)
                return it
            if iter_node.func.id == "range" and isinstance(target, ast.Name):
                nval = self._ev(iter_node.args[0])
                x = _sized(nval)
                if x is not None:
                    self._bv += 1
                    self._bind(target, pos)
                    self._positions.append((pos, x, b))
                    return x
        it = self._ev(iter_node)
        if is_unknown(it):
            return it
        self._bv += 1
        self._bind(target, b)
        return it

    def _fold_positions(self, v):
        """X[@i] is the item @v of the loop that walks X by position; X[@i, j] is @v[j]"""
        if not self._positions or is_unknown(v):
            return v
        table = list(self._positions)

        def f(name, args):
            if name != "idx" or len(args) != 2 or isinstance(args[0], str) or isinstance(args[1], str):
                return None
            for pos, x, b in table:
                if not same(args[0], x):
                    continue
                if same(args[1], pos):
                    return b
                t = app(args[1], "tuple")
                if t and len(t) >= 2 and same(t[0], pos):
                    return F.fn("idx", b, t[1] if len(t) == 2 else F.fn("tuple", *t[1:]))
            return None
        try:
            return rewrite(v, f)
        except Unsupported:
            return v

    def _comp_for(self, st, gens, accs):
        if st.orelse:
            return False
        it = self._bind_loop(st.iter, st.target)
        if is_unknown(it):
            return False
        return self._comp_stmts(st.body, gens + [[wrap(it)]], accs)

    def _as_append_loop(self, lst, arg, loc):
        """`L.extend(e for t in it if c)` is the loop nest `for t in it: if c: L.append(e)`; `L.extend(X)` is `for x in X: L.append(x)`"""
        def app_stmt(e):
            return ast.Expr(value=ast.Call(func=ast.Attribute(value=ast.Name(id=lst, ctx=ast.Load()), attr="append", ctx=ast.Load()), args=[e], keywords=[]))
        if isinstance(arg, (ast.GeneratorExp, ast.ListComp)):
            body = [app_stmt(arg.elt)]
            for g in reversed(arg.generators):
                if g.is_async:
                    return None
                for c in reversed(g.ifs):
                    body = [ast.If(test=c, body=body, orelse=[])]
                body = [ast.For(target=g.target, iter=g.iter, body=body, orelse=[])]
            loop = body[0]
        elif isinstance(arg, (ast.List, ast.Tuple)) and not any(isinstance(e, ast.Starred) for e in arg.elts):
            return [ast.fix_missing_locations(ast.copy_location(app_stmt(e), loc)) for e in arg.elts]
        else:
            tmp = f"@x{self._bv}"
            loop = ast.For(target=ast.Name(id=tmp, ctx=ast.Store()), iter=arg, body=[app_stmt(ast.Name(id=tmp, ctx=ast.Load()))], orelse=[])
        return [ast.fix_missing_locations(ast.copy_location(loop, loc))]

    def _comp_stmts(self, stmts, gens, accs):
        for s in stmts:
            if isinstance(s, ast.For):
                if not self._comp_for(s, gens, accs):
                    return False
            elif isinstance(s, ast.If) and not s.orelse:
                c = self._ev(s.test)
                if is_unknown(c) or isinstance(c, tuple):
                    return False
                if not self._comp_stmts(s.body, gens[:-1] + [gens[-1] + [need(c)]], accs):
                    return False
            elif isinstance(s, ast.Expr) and isinstance(s.value, ast.Call) and isinstance(s.value.func, ast.Attribute) and s.value.func.attr == "append" \
                    and isinstance(s.value.func.value, ast.Name) and len(s.value.args) == 1 and not s.value.keywords \
                    and not isinstance(s.value.args[0], ast.Starred):
                elt = self._ev(s.value.args[0])
                if is_unknown(elt):
                    return False
                accs.setdefault(s.value.func.value.id, []).append((elt, [list(g) for g in gens]))
            elif isinstance(s, ast.Expr) and isinstance(s.value, ast.Call) and isinstance(s.value.func, ast.Attribute) and s.value.func.attr == "extend" \
                    and isinstance(s.value.func.value, ast.Name) and len(s.value.args) == 1 and not s.value.keywords \
                    and not isinstance(s.value.args[0], ast.Starred):
                loops = self._as_append_loop(s.value.func.value.id, s.value.args[0], s)
                if loops is None or not self._comp_stmts(loops, gens, accs):
                    return False
            elif isinstance(s, ast.AugAssign) and isinstance(s.op, ast.Add) and isinstance(s.target, ast.Name) \
                    and (s.target.id in accs or self.env.get(s.target.id) == ()):
                loops = self._as_append_loop(s.target.id, s.value, s)          # L += X  on a list is L.extend(X)
                if loops is None or not self._comp_stmts(loops, gens, accs):
                    return False
            elif isinstance(s, ast.Assign) and len(s.targets) == 1 and isinstance(s.targets[0], ast.Name) and s.targets[0].id not in accs:
                v = self._ev(s.value)
                if is_unknown(v):
                    return False
                self.env[s.targets[0].id] = v
            elif isinstance(s, ast.Pass) or (isinstance(s, ast.Expr) and isinstance(s.value, ast.Constant)):
                continue
            else:
                return False
        return True

    def _assign(self, target, v, st, aug=False):
        if isinstance(target, ast.Subscript) and isinstance(target.value, ast.Name):
            nm = target.value.id
            cur = self.ev(target.value)
            try:
                ix = self._index_value(target.slice)
            except Unsupported as e:
                ix = Unknown(str(e))
            self.seq += 1
            self.cell_seq.append(self.seq)
            self.cells.append((nm, ix, v, st))
            k = const_of(ix)
            if isinstance(cur, tuple) and not aug and k is not None and k.denominator == 1 and -len(cur) <= int(k) < len(cur):
                lst = list(cur)                 # a local list whose items are known: the item is replaced
                lst[int(k)] = v
                self.env[nm] = tuple(lst)
                return
            if isinstance(cur, DictValue) and not aug and isinstance(target.slice, ast.Constant) and isinstance(target.slice.value, (str, int)):
                self.env[nm] = DictValue({**cur.d, target.slice.value: v})
                return
            if isinstance(cur, DictValue):
                self.env[nm] = Unknown(f"store into the table {nm} under a key that is not a literal")
                return
            if is_unknown(cur) or is_unknown(ix) or is_unknown(v) or isinstance(cur, tuple):
                self.env[nm] = Unknown(f"store into {nm}[...] of a value that is not lowered")
            else:
                try:
                    self.env[nm] = F.fn("upd", need(cur), ix, wrap(v))
                except Unsupported as e:
                    self.env[nm] = Unknown(str(e))
            return
        if isinstance(target, (ast.Tuple, ast.List)) and not isinstance(v, tuple) and not is_unknown(v) and target.elts \
                and isinstance(target.elts[-1], ast.Starred) and not any(isinstance(t, ast.Starred) for t in target.elts[:-1]):
            # a, b, *rest = v : the leading items by position; the rest is not a value the rules follow
            for j, t in enumerate(target.elts[:-1]):
                self._assign(t, F.fn("idx", need(v), F.const(j)), st)
            self._assign(target.elts[-1].value, Unknown("starred rest of an unpacking"), st)
            return
        if isinstance(target, (ast.Tuple, ast.List)) and not isinstance(v, tuple) and not is_unknown(v) \
                and not any(isinstance(t, ast.Starred) for t in target.elts):
            tr = app(v, "attr:T")
            for j, t in enumerate(target.elts):
                # a, b = X.T : the columns of X
                self._assign(t, column(tr[0], F.const(j)) if tr else F.fn("idx", need(v), F.const(j)), st)
            return
        return super()._assign(target, v, st, aug)

    # ---- expressions
    def _weighted_columns(self, x, w):
        """X @ (c0, c1, ..) for a table X and a short vector of known weights: the sum of the columns times the weights"""
        if is_unknown(x) or isinstance(x, tuple) or not isinstance(w, tuple) or not 1 < len(w) <= 4 \
                or any(is_unknown(c) or isinstance(c, tuple) or const_of(c) is None for c in w):
            return None
        tot = F.const(0)
        for j, c in enumerate(w):
            tot = tot + column(x, F.const(j)) * need(c)
        return tot

    def _ev(self, node):
        v = self._ev_inner(node)
        if isinstance(node, ast.Call) and self._objs:
            hit = self._objs.pop(id(getattr(node, "_c18_orig", node)), None)
            if hit is not None:
                return hit              # a helper that returned an object (the generic call evaluation keeps only formula values)
        return v

    def _ev_inner(self, node):
        if isinstance(node, ast.Call):
            r = self._object_call(node)
            if r is not NotImplemented:
                return r
        if isinstance(node, ast.BinOp) and isinstance(node.op, ast.MatMult):
            r = self._weighted_columns(self._ev(node.left), self._ev(node.right))
            if r is not None:
                return r
        if isinstance(node, ast.Compare) and len(node.ops) > 1:
            parts = []
            left = node.left
            for op, right in zip(node.ops, node.comparators):
                parts.append(self._ev(ast.Compare(left=left, ops=[op], comparators=[right])))
                left = right
            if any(is_unknown(p) or isinstance(p, tuple) for p in parts):
                return next((p for p in parts if is_unknown(p)), Unknown("comparison of tuples"))
            return F.fn("bool:And", *[need(p) for p in parts])
        if isinstance(node, ast.Compare) and len(node.ops) == 1 and isinstance(node.ops[0], (ast.In, ast.NotIn)) \
                and isinstance(node.comparators[0], (ast.Tuple, ast.List, ast.Set)):
            a, b = self._ev(node.left), self._ev(ast.Tuple(elts=node.comparators[0].elts, ctx=ast.Load()))
            if is_unknown(a) or isinstance(a, tuple) or not isinstance(b, tuple) or any(is_unknown(x) for x in b):
                return a if is_unknown(a) else Unknown("membership test not lowered")
            return F.fn("cmp:" + type(node.ops[0]).__name__, need(a), wrap(b))           # x in (a, b): the literal collection as one value
        if isinstance(node, (ast.ListComp, ast.GeneratorExp, ast.SetComp)):
            return self._comp(node)
        if isinstance(node, ast.Name) and node.id in self.aliases and node.id not in self.env and node.id not in self.buffers:
            return self._ev(ast.copy_location(_parse_dotted(self.aliases[node.id]), node))
        if isinstance(node, ast.Attribute):
            d = dotted(node)
            if d is not None:
                root = d.split(".")[0]
                if root in self.aliases and root not in self.env and root not in self.buffers:
                    return self._ev(ast.copy_location(_parse_dotted(self.aliases[root] + d[len(root):]), node))
        if isinstance(node, ast.Lambda):
            a = node.args
            if a.vararg or a.kwarg or a.posonlyargs or a.kwonlyargs:
                return Unknown("lambda signature")
            return Closure(node, [self.ev(x) for x in a.defaults])
        if isinstance(node, ast.Subscript) and not isinstance(node.slice, (ast.Slice, ast.Tuple)):
            r = self._select(node)
            if r is not NotImplemented:
                return r
        if isinstance(node, ast.Constant) and isinstance(node.value, bool):
            return F.sym(repr(node.value))
        if isinstance(node, ast.Dict) and not node.keys:
            return DictValue({})
        if isinstance(node, ast.Attribute) and not (isinstance(node.value, ast.Name) and node.value.id not in self.env):
            base = self._ev(node.value)
            if isinstance(base, Rec):
                if node.attr in base.fields:
                    return base[base.fields.index(node.attr)]
                return Unknown(f"attribute {node.attr} of a record")
            if isinstance(base, Obj):
                if node.attr in base.fields:
                    return base.fields[node.attr]
                return Unknown(f"attribute {node.attr} of an object")
        if isinstance(node, ast.BinOp) and isinstance(node.op, ast.Mult) and isinstance(node.left, (ast.List, ast.Tuple)) and len(node.left.elts) == 1 \
                and isinstance(node.right, ast.Constant) and isinstance(node.right.value, int) and 0 <= node.right.value <= MAX_UNROLL:
            return (self.ev(node.left.elts[0]),) * node.right.value            # [x] * k: a list of k known items
        # the text of one value: f"{x}", "%d" % x, "%s" % x  are str(x) (x is an integer wherever the rules look at such a text)
        if isinstance(node, ast.JoinedStr) and len(node.values) == 1 and isinstance(node.values[0], ast.FormattedValue) \
                and node.values[0].format_spec is None and node.values[0].conversion in (-1, 115):
            x = self._ev(node.values[0].value)
            return x if is_unknown(x) or isinstance(x, tuple) else _str_of(x)
        if isinstance(node, ast.BinOp) and isinstance(node.op, ast.Mod) and isinstance(node.left, ast.Constant) and node.left.value in ("%d", "%s", "%i") \
                and not isinstance(node.right, ast.Tuple):
            x = self._ev(node.right)
            return x if is_unknown(x) or isinstance(x, tuple) else _str_of(x)
        return super()._ev(node)

    def _select(self, node):
        """`(a, b)[flag]` / `{True: b, False: a}[flag]` with a truth value as the index is the conditional expression `b if flag else a`: the
        regime is split on the flag like on any other test;  `X.T[j]` with a constant j is column j of X"""
        if isinstance(node.value, ast.Name) and node.value.id in self.buffers:
            return NotImplemented
        if isinstance(node.value, (ast.Tuple, ast.List, ast.Dict)) or (isinstance(node.value, ast.Name) and isinstance(self.env.get(node.value.id), (tuple, DictValue))):
            base = self._ev(node.value)
            pair = None
            if isinstance(base, tuple) and not isinstance(base, Rec) and len(base) == 2:
                pair = (base[0], base[1])
            elif isinstance(base, DictValue) and len(base.d) == 2 and all(k in (0, 1) for k in base.d) and {bool(k) for k in base.d} == {True, False}:
                pair = (next(v for k, v in base.d.items() if not k), next(v for k, v in base.d.items() if k))
            if pair is None:
                return NotImplemented
            ix = self._ev(node.slice)
            if is_unknown(ix) or isinstance(ix, tuple) or const_of(ix) is not None:
                return NotImplemented
            t = _truth_index(ix)
            if t is None:
                return NotImplemented
            return pair[1] if self._decide_value(t, node.slice) else pair[0]
        if isinstance(node.value, ast.Attribute) and node.value.attr == "T":
            base = self._ev(node.value)
            j = self._ev(node.slice)
            a = app(base, "attr:T") if not is_unknown(base) and not isinstance(base, tuple) else None
            if a and not is_unknown(j) and not isinstance(j, tuple) and const_of(j) is not None:
                return column(a[0], j)
        return NotImplemented

    def _call_closure(self, c, node):
        pos, kw = self._args(node)
        names = [x.arg for x in c.node.args.args]
        if len(pos) > len(names) or any(k not in names for k in kw) or any(k in names[:len(pos)] for k in kw):
            raise Unsupported("lambda call shape")
        bound = dict(zip(names, pos))
        bound.update(kw)
        for nm, dv in zip(names[len(names) - len(c.defaults):], c.defaults):
            bound.setdefault(nm, dv)
        if set(bound) != set(names):
            raise Unsupported("lambda call misses an argument")
        saved = dict(self.env)
        try:
            self.env.update(bound)
            return self._ev(c.node.body)
        finally:
            self.env = saved

    def _partial(self, node):
        """the Partial object for a call functools.partial(f, *args, **kw) with known argument values, else None"""
        d = dotted(node.func)
        if d.split(".")[0] in self.env or not node.args or any(isinstance(a, ast.Starred) for a in node.args) or not all(k.arg for k in node.keywords):
            return None
        pos = [self.ev(a) for a in node.args[1:]]
        kw = {k.arg: self.ev(k.value) for k in node.keywords}
        if any(is_unknown(v) for v in pos + list(kw.values())):
            return None
        return Partial(node.args[0], pos, kw)

    def _call_partial(self, pt, node):
        saved = dict(self.env)
        try:
            args, kws = [], []
            for k, v in enumerate(pt.pos):
                self.env[f"@p{k}"] = v
                args.append(ast.Name(id=f"@p{k}", ctx=ast.Load()))
            given = {k.arg for k in node.keywords}
            for k, v in pt.kw.items():
                if k not in given:
                    self.env[f"@pk_{k}"] = v
                    kws.append(ast.keyword(arg=k, value=ast.Name(id=f"@pk_{k}", ctx=ast.Load())))
            call = ast.Call(func=pt.func, args=args + list(node.args), keywords=kws + list(node.keywords))
            return self._ev(ast.fix_missing_locations(ast.copy_location(call, node)))
        finally:
            self.env = saved

    def _comp(self, node):
        saved, bv, npos = dict(self.env), self._bv, len(self._positions)
        try:
            if len(node.generators) == 1 and not node.generators[0].ifs and not isinstance(node, ast.SetComp):
                # a comprehension over a sequence whose items are known is the list of the element values
                items = self._items(node.generators[0].iter, self.ev(node.generators[0].iter))
                if items is not None and len(items) <= MAX_UNROLL:
                    out = []
                    for x in items:
                        self._assign(node.generators[0].target, x, node)
                        out.append(self.ev(node.elt))
                    return tuple(out)
            gens = []
            for g in node.generators:
                it = self._bind_loop(g.iter, g.target)
                if is_unknown(it):
                    return it
                conds = [self._ev(c) for c in g.ifs]
                if any(is_unknown(c) for c in conds):
                    return next(c for c in conds if is_unknown(c))
                gens.append(F.fn("gen", wrap(it), *[wrap(c) for c in conds]))
            elt = self._ev(node.elt)
            if is_unknown(elt):
                return elt
            return self._fold_positions(F.fn("comp", wrap(elt), *gens))
        except Unsupported as e:
            return Unknown(str(e))
        finally:
            self.env = saved
            self._bv = bv
            del self._positions[npos:]

    def _bind(self, target, v):
        if isinstance(target, ast.Name):
            self.env[target.id] = v
        elif isinstance(target, (ast.Tuple, ast.List)) and not any(isinstance(t, ast.Starred) for t in target.elts):
            for j, t in enumerate(target.elts):
                self._bind(t, F.fn("idx", need(v), F.const(j)))
        else:
            raise Unsupported("comprehension target")

    # ---- calls
    def _args(self, node):
        pos = []
        for a in node.args:
            if isinstance(a, ast.Starred):
                raise Unsupported("*args")
            pos.append(self._ev(a))
        kw = {}
        for k in node.keywords:
            if k.arg is None:
                raise Unsupported("**kwargs")
            kw[k.arg] = self._ev(k.value)
        for v in pos + list(kw.values()):
            if is_unknown(v):
                raise Unsupported(v.why)
        return pos, kw

    def _object_call(self, node):
        """calls that make or use an object (an Unknown-derived value the generic call evaluation would drop)"""
        f = node.func
        d = dotted(f)
        if d is not None and d.split(".")[0] in self.aliases and d.split(".")[0] not in self.env:
            d = self.aliases[d.split(".")[0]] + d[len(d.split(".")[0]):]
        # types.SimpleNamespace(a=.., b=..): an object with these attributes
        if d in ("SimpleNamespace", "types.SimpleNamespace") and not node.args and all(k.arg for k in node.keywords) and d.split(".")[0] not in self.env:
            return Obj(None, {k.arg: self.ev(k.value) for k in node.keywords})
        # an instance of a plain class of the module: __init__ is evaluated with the argument values, the attributes it stores are the object
        if isinstance(f, ast.Name) and f.id not in self.env:
            cls = _plain_classes(raw_module(self.ctx, self.rel)).get(f.id)
            if cls is not None:
                init = next((x for x in cls.body if isinstance(x, ast.FunctionDef) and x.name == "__init__"), None)
                if init is None or not init.args.args or _opaque_decorators(init):
                    raise Unsupported("class without a plain __init__")
                sub = self._method(init, Obj(cls, {}), node)
                fields = {k[5:]: v for k, v in sub.env.items() if isinstance(k, str) and k.startswith("self.") and "." not in k[5:]}
                return Obj(cls, fields)
        # a method of such an object
        is_obj = isinstance(f, ast.Attribute) and (
            (isinstance(f.value, ast.Name) and isinstance(self.env.get(f.value.id), Obj)) or
            (isinstance(f.value, ast.Call) and isinstance(f.value.func, ast.Name) and f.value.func.id not in self.env
             and f.value.func.id in _plain_classes(raw_module(self.ctx, self.rel))))
        if is_obj:
            recv = self._ev(f.value)
            if isinstance(recv, Obj):
                meth_def = None if recv.cls is None else next((x for x in recv.cls.body if isinstance(x, ast.FunctionDef) and x.name == f.attr), None)
                if meth_def is None or not meth_def.args.args or [z for z in _opaque_decorators(meth_def)]:
                    raise Unsupported(f"method {f.attr} of an object")
                sub = self._method(meth_def, recv, node)
                if sub.raised is not None:
                    self.raised = sub.raised
                    self.done = True
                    return Unknown("the method raised")
                for k, v in sub.env.items():
                    if isinstance(k, str) and k.startswith("self.") and "." not in k[5:]:
                        recv.fields[k[5:]] = v          # attributes the method stored
                if sub.returns and sub.returns[-1][0] is not None:
                    return sub.returns[-1][0]
                return F.sym("None")
        return NotImplemented

    def _hook(self, node, ev):
        try:
            return self._hook2(node)
        except Unsupported as e:
            return Unknown(str(e))

    def _canonical_callee(self, d):
        """the dotted callee name with a leading import alias (`numpy.` / `from numpy import x` / `import functools as ft`) or a local that
        is bound to a library function or another name (`search = np.searchsorted`) replaced by what it stands for; None: nothing to replace"""
        root = d.split(".")[0]
        if root in self.env and root not in self.pinned and root not in self.buffers:
            v = self.env[root]
            s = None if is_unknown(v) or isinstance(v, (tuple, DictValue)) else sym_of(v)
            if s and s != root and not s.startswith(("@", "'")) and all(part.isidentifier() for part in s.split(".")):
                return s + d[len(root):]
            return None
        if root in self.aliases:
            return self.aliases[root] + d[len(root):]
        return None

    def _hook2(self, node):
        f = node.func
        d = dotted(f)
        if d is not None and self._canon_depth < 4:
            cd = self._canonical_callee(d)
            if cd is not None and cd != d:
                self._canon_depth += 1
                try:
                    call = ast.Call(func=ast.copy_location(_parse_dotted(cd), f), args=node.args, keywords=node.keywords)
                    call._c18_orig = getattr(node, "_c18_orig", node)        # the call site in the source this evaluation stands for
                    return self._ev(ast.fix_missing_locations(ast.copy_location(call, node)))
                finally:
                    self._canon_depth -= 1
        meth = f.attr if isinstance(f, ast.Attribute) else None
        # a method call on a value of the function (a local, a parameter, an expression) - not on a module such as np
        on_value = meth is not None and (d is None or d.split(".")[0] in self.env)
        # out=X : the call's value is also stored in X
        kout = next((k for k in node.keywords if k.arg == "out"), None)
        if kout is not None:
            kwhere = next((k for k in node.keywords if k.arg == "where"), None)
            plain = ast.copy_location(ast.Call(func=node.func, args=node.args, keywords=[k for k in node.keywords if k.arg not in ("out", "where")]), node)
            v = self._ev(plain)
            tg = kout.value.elts[0] if isinstance(kout.value, ast.Tuple) and len(kout.value.elts) == 1 else kout.value
            if kwhere is not None:
                # ufunc(.., out=X, where=M): X[M] = ufunc(..)[M], the other elements of X stay
                w = self._ev(kwhere.value)
                if isinstance(tg, ast.Name) and not is_unknown(v) and not is_unknown(w) and not isinstance(v, tuple) and not isinstance(w, tuple) \
                        and tg.id in self.env and not is_unknown(self.env[tg.id]) and not isinstance(self.env[tg.id], tuple):
                    if tg.id not in self.pinned:
                        self.env[tg.id] = F.fn("upd", need(self.env[tg.id]), need(w), F.fn("idx", need(v), need(w)))
                    return self.env[tg.id]
                raise Unsupported("ufunc call with out= and where=")
            if isinstance(tg, ast.Name):
                if tg.id not in self.pinned:
                    self.env[tg.id] = v
            else:
                b = tg
                while isinstance(b, (ast.Subscript, ast.Attribute)):
                    b = b.value
                if isinstance(b, ast.Name) and b.id not in self.pinned:
                    self.env[b.id] = Unknown("written through out=")
            return v
        # np.putmask(a, mask, v) / np.place(a, mask, v): a[mask] = v;  np.copyto(a, v[, where=mask]);  np.add.at / np.subtract.at(a, i, v)
        if d in ("np.putmask", "np.place") and len(node.args) == 3 and not node.keywords and isinstance(node.args[0], ast.Name):
            self._assign(ast.copy_location(ast.Subscript(value=node.args[0], slice=node.args[1], ctx=ast.Store()), node), self.ev(node.args[2]), node)
            return F.sym("None")
        if d == "np.copyto" and len(node.args) == 2 and isinstance(node.args[0], ast.Name) and all(k.arg == "where" for k in node.keywords):
            if node.keywords:
                self._assign(ast.copy_location(ast.Subscript(value=node.args[0], slice=node.keywords[0].value, ctx=ast.Store()), node), self.ev(node.args[1]), node)
            elif node.args[0].id not in self.pinned:
                self.env[node.args[0].id] = self.ev(node.args[1])
            return F.sym("None")
        if d in ("np.add.at", "np.subtract.at") and len(node.args) == 3 and not node.keywords and isinstance(node.args[0], ast.Name):
            cur = ast.copy_location(ast.Subscript(value=node.args[0], slice=node.args[1], ctx=ast.Load()), node)
            op = ast.Add() if d == "np.add.at" else ast.Sub()
            val = self.ev(ast.fix_missing_locations(ast.copy_location(ast.BinOp(left=cur, op=op, right=node.args[2]), node)))
            self._assign(ast.copy_location(ast.Subscript(value=node.args[0], slice=node.args[1], ctx=ast.Store()), node), val, node)
            return F.sym("None")
        # a record class of the module (NamedTuple / dataclass / namedtuple): the field values
        if isinstance(f, ast.Name) and f.id not in self.env:
            rec = _records(raw_module(self.ctx, self.rel)).get(f.id)
            if rec is not None and not any(isinstance(a, ast.Starred) for a in node.args) and all(k.arg for k in node.keywords):
                fields, dflt = rec
                vals = dict(zip(fields, [self.ev(a) for a in node.args]))
                vals.update({k.arg: self.ev(k.value) for k in node.keywords})
                for x in fields:
                    if x not in vals:
                        if x not in dflt:
                            raise Unsupported("record field without a value")
                        vals[x] = self.ev(dflt[x])
                if len(node.args) <= len(fields) and set(vals) == set(fields):
                    r = Rec(vals[x] for x in fields)
                    r.fields = tuple(fields)
                    return r
        # (f if c else g)(args): the call of the function the test selects
        if isinstance(f, ast.IfExp):
            pick = ast.IfExp(test=f.test, body=ast.Call(func=f.body, args=node.args, keywords=node.keywords),
                             orelse=ast.Call(func=f.orelse, args=node.args, keywords=node.keywords))
            return self._ev(ast.fix_missing_locations(ast.copy_location(pick, node)))
        # a lambda / functools.partial object bound to a local
        if isinstance(f, ast.Name) and isinstance(self.env.get(f.id), Closure):
            return self._call_closure(self.env[f.id], node)
        if isinstance(f, ast.Name) and isinstance(self.env.get(f.id), Partial):
            return self._call_partial(self.env[f.id], node)
        # tuple(x) / list(x) of a sequence whose items are known; list(<comprehension>) holds the items of the comprehension
        if d in ("tuple", "list") and len(node.args) == 1 and not node.keywords and d not in self.env and not isinstance(node.args[0], ast.Starred):
            x = self.ev(node.args[0])
            if isinstance(x, tuple):
                return tuple(x)
            if not is_unknown(x) and head(x) == "comp":
                return x
        # a local bound to a method of a value (`level = idx.get_level_values`): calling it is the method call
        if isinstance(f, ast.Name) and f.id in self.env and not isinstance(self.env[f.id], tuple):
            h = unfn_m(self.env[f.id])
            if h is not None and h[0].startswith("attr:") and len(h[1]) == 1:
                saved = self.env.get("@recv")
                self.env["@recv"] = h[1][0]
                try:
                    call = ast.Call(func=ast.Attribute(value=ast.Name(id="@recv", ctx=ast.Load()), attr=h[0][5:], ctx=ast.Load()),
                                    args=node.args, keywords=node.keywords)
                    return self._ev(ast.fix_missing_locations(ast.copy_location(call, node)))
                finally:
                    if saved is None:
                        self.env.pop("@recv", None)
                    else:
                        self.env["@recv"] = saved
        leaf = d.split(".")[-1] if d else None
        lib = d is not None and "." in d and d.split(".")[0] in ("np", "numpy", "operator") and d.split(".")[0] not in self.env
        plain2 = len(node.args) == 2 and not node.keywords and not any(isinstance(a, ast.Starred) for a in node.args)
        plain1 = len(node.args) == 1 and not node.keywords and not isinstance(node.args[0], ast.Starred)
        # ufunc / operator-module spellings of the operators
        if lib and plain2 and (leaf in _UF_CMP or (d.startswith("operator.") and leaf in _OP_CMP)):
            (a, b), _ = self._args(node)
            if isinstance(a, tuple) or isinstance(b, tuple):
                return NotImplemented
            return F.fn("cmp:" + (_UF_CMP.get(leaf) or _OP_CMP[leaf]), need(a), need(b))
        if lib and plain2 and (leaf in _UF_BIT or leaf in _UF_LOGICAL or (d.startswith("operator.") and leaf in _OP_BIT)):
            (a, b), _ = self._args(node)
            if isinstance(a, tuple) or isinstance(b, tuple):
                return NotImplemented
            if leaf in _UF_LOGICAL:
                # logical_and(x, y) is (x != 0) & (y != 0); for boolean operands that is x & y
                a = a if is_boolean(a) else F.fn("cmp:NotEq", need(a), F.const(0))
                b = b if is_boolean(b) else F.fn("cmp:NotEq", need(b), F.const(0))
            op = (_UF_BIT.get(leaf) or _UF_LOGICAL.get(leaf) or _OP_BIT[leaf])()
            return _binop18(ast.BinOp(left=node.args[0], op=op, right=node.args[1]), a, b, self)
        if lib and plain2 and leaf in _UF_ARITH:
            # np.add(x, y) / operator.add(x, y) ... are x + y ...
            return self._ev(ast.fix_missing_locations(ast.copy_location(ast.BinOp(left=node.args[0], op=_UF_ARITH[leaf](), right=node.args[1]), node)))
        if lib and plain1 and leaf in ("negative", "neg"):
            return self._ev(ast.fix_missing_locations(ast.copy_location(ast.UnaryOp(op=ast.USub(), operand=node.args[0]), node)))
        if lib and plain1 and leaf in ("invert", "bitwise_not", "logical_not", "inv", "not_"):
            (a,), _ = self._args(node)
            if isinstance(a, tuple):
                return NotImplemented
            if leaf in ("logical_not", "not_") and not is_boolean(a):
                return F.fn("cmp:Eq", need(a), F.const(0))
            return F.fn("invert", need(a))
        # np.take(a, i) / a.take(i) is a[i] (no axis: the flattened array - the rules meet it on 1-D data)
        if node.keywords and len(node.keywords) == 1 and node.keywords[0].arg == "axis" and (leaf in ("take", "compress") or meth in ("take", "compress")) \
                and isinstance(node.keywords[0].value, ast.Constant) and node.keywords[0].value.value == 0:
            # axis=0: rows are selected, as X[i] does
            plain = ast.copy_location(ast.Call(func=node.func, args=node.args, keywords=[]), node)
            return self._hook2(plain)
        # np.take(a, i, mode="clip") / a.take(i, mode="wrap"): a[i] with the index brought into range first
        if (d in ("np.take", "numpy.take") or (on_value and meth == "take")) and len(node.keywords) == 1 and node.keywords[0].arg == "mode" \
                and isinstance(node.keywords[0].value, ast.Constant) and node.keywords[0].value.value in ("clip", "wrap", "raise") \
                and len(node.args) == (1 if on_value and meth == "take" else 2) and not any(isinstance(a, ast.Starred) for a in node.args):
            pos, _ = self._args(node)
            base, ix = (self._need(f.value), pos[0]) if on_value and meth == "take" else (pos[0], pos[1])
            mode = node.keywords[0].value.value
            if not isinstance(base, tuple) and not isinstance(ix, tuple) and not is_unknown(base) and not is_unknown(ix):
                if mode == "clip":
                    ix = F.fn("call:np.clip", need(ix), F.const(0), F.fn("attr:size", need(base)) - 1)
                elif mode == "wrap":
                    ix = F.fn("op:Mod", need(ix), F.fn("attr:size", need(base)))
                return F.fn("idx", need(base), need(ix))
        # np.array_equal(a, b) on two vectors of one length: every element equal
        if d in ("np.array_equal", "numpy.array_equal", "np.array_equiv") and plain2:
            (a, b), _ = self._args(node)
            if not isinstance(a, tuple) and not isinstance(b, tuple) and not is_unknown(a) and not is_unknown(b):
                return F.fn("all", F.fn("cmp:Eq", need(a), need(b)))
        # X.dot((c0, c1)) / np.dot(X, (c0, c1)): the weighted sum of the columns
        if (d in ("np.dot", "numpy.dot", "np.matmul") and plain2) or (on_value and meth == "dot" and plain1):
            pos, _ = self._args(node)
            x, w = (self._need(f.value), pos[0]) if on_value and meth == "dot" else (pos[0], pos[1])
            r = self._weighted_columns(x, w)
            if r is not None:
                return r
        if (d in ("np.take", "numpy.take") and plain2) or (on_value and meth == "take" and plain1):
            pos, _ = self._args(node)
            base, ix = (pos[0], pos[1]) if meth != "take" or not on_value else (self._need(f.value), pos[0])
            if not isinstance(base, tuple):
                return F.fn("idx", need(base), wrap(ix))
        # np.compress(mask, a) / a.compress(mask) is a[mask] (1-D data, no axis)
        if (d in ("np.compress", "numpy.compress", "np.extract", "numpy.extract") and plain2) or (on_value and meth == "compress" and plain1):
            pos, _ = self._args(node)
            base, ix = (pos[1], pos[0]) if not (on_value and meth == "compress") else (self._need(f.value), pos[0])
            if not isinstance(base, tuple) and not isinstance(ix, tuple):
                return F.fn("idx", need(base), need(ix))
        # arrays without elements
        if (d in ZERO_CTORS or d in ONE_CTORS or d in ("np.full", "np.arange", "np.ndarray")) and not d.endswith("_like"):
            shape_node = node.args[0] if node.args else next((k.value for k in node.keywords if k.arg == "shape"), None)
            if shape_node is not None and not isinstance(shape_node, ast.Starred):
                shp = self.ev(shape_node)
                dims = list(shp) if isinstance(shp, tuple) else [shp]
                if d == "np.arange" and len(node.args) != 1:
                    dims = []
                if any(const_of(x) == 0 for x in dims):
                    return EMPTY
                if d != "np.arange" and len(dims) >= 2 and not any(is_unknown(x) or isinstance(x, tuple) for x in dims):
                    # a buffer with more than one axis keeps its shape (rows x columns): alloc(fill, shape); `@uninit` for np.empty
                    if d in ("np.empty", "np.ndarray"):
                        fill = UNINIT
                    elif d == "np.full":
                        fnode = node.args[1] if len(node.args) > 1 else next((k.value for k in node.keywords if k.arg == "fill_value"), None)
                        fill = self.ev(fnode) if fnode is not None else Unknown("np.full without a fill value")
                    else:
                        fill = F.const(0 if d in ZERO_CTORS else 1)
                    if not is_unknown(fill) and not isinstance(fill, tuple):
                        return F.fn("alloc", need(fill), wrap(tuple(dims)))
        if d in _CONVERT and plain_first(node) and is_empty(self.ev(node.args[0])):
            return EMPTY
        # "{}".format(x) / format(x) / repr(x): the text of one value
        if isinstance(f, ast.Attribute) and f.attr == "format" and isinstance(f.value, ast.Constant) and f.value.value in ("{}", "{0}", "{:d}", "{0:d}") and plain1:
            (x,), _ = self._args(node)
            return NotImplemented if isinstance(x, tuple) else _str_of(x)
        if d in ("format", "repr") and plain1 and d not in self.env:
            (x,), _ = self._args(node)
            return NotImplemented if isinstance(x, tuple) else _str_of(x)
        # bool(k) / int(k) of a constant or of True / False
        if d in ("bool", "int") and plain1 and d not in self.env:
            (x,), _ = self._args(node)
            k = const_of(x) if not isinstance(x, tuple) else None
            if k is None and not isinstance(x, tuple) and sym_of(x) in ("True", "False"):
                k = 1 if sym_of(x) == "True" else 0
            if k is not None and (d == "bool" or k.denominator == 1 if hasattr(k, "denominator") else True):
                return F.const(int(k != 0) if d == "bool" else int(k))
        # reductions
        if d in _REDUCE and len(node.args) == 1 and not node.keywords:
            (x,), _ = self._args(node)
            if not isinstance(x, tuple) and not is_unknown(x) and head(x) == "comp":
                x = elementwise(x) if elementwise(x) is not None else x        # any(f(c) for c in X) is any(f(X))
            return F.fn(_REDUCE[d], wrap(_nonzero_test(x) if _REDUCE[d] == "any" else x))
        if on_value and meth in ("any", "all") and not node.args and not node.keywords:
            x = self._need(f.value)
            return F.fn(meth, wrap(_nonzero_test(x) if meth == "any" else x))
        # nonzero
        if d in ("np.nonzero", "np.where") and len(node.args) == 1 and not node.keywords:
            (x,), _ = self._args(node)
            return F.fn("nonzero", wrap(x))
        if on_value and meth == "nonzero" and not node.args:
            return F.fn("nonzero", wrap(self._need(f.value)))
        if d == "np.flatnonzero" and len(node.args) == 1:
            (x,), _ = self._args(node)
            return F.fn("idx", F.fn("nonzero", wrap(x)), F.const(0))
        if d in _ATTRFN and len(node.args) == 1 and not node.keywords:
            (x,), _ = self._args(node)
            return F.fn("attr:" + _ATTRFN[d], wrap(x))
        # conversions
        if on_value and meth == "astype" and node.args:
            pos, kw = self._args(node)
            return F.fn("astype", wrap(self._need(f.value)), wrap(pos[0]))
        if d in _CONVERT and node.args:
            pos, kw = self._args(node)
            t = pos[1] if len(pos) > 1 else kw.get("dtype")
            if isinstance(pos[0], tuple):
                return NotImplemented
            if t is None:
                return pos[0]
            return F.fn("astype", wrap(pos[0]), wrap(t))
        # sorting / searching
        if d == "np.argsort" and node.args:
            pos, kw = self._args(node)
            return F.fn("argsort", wrap(pos[0]))
        if on_value and meth == "argsort":
            self._args(node)
            return F.fn("argsort", wrap(self._need(f.value)))
        if d == "np.searchsorted" or (on_value and meth == "searchsorted"):
            pos, kw = self._args(node)
            if d != "np.searchsorted":
                pos = [self._need(f.value)] + pos
            names = ["a", "v", "side", "sorter"]
            par = dict(zip(names, pos))
            par.update(kw)
            if "a" not in par or "v" not in par or set(par) - set(names):
                raise Unsupported("searchsorted call shape")
            side = par.get("side", F.sym("'left'"))
            sorter = par.get("sorter", F.sym("None"))
            val = F.fn("searchsorted", wrap(par["a"]), wrap(par["v"]), wrap(side), wrap(sorter))
            site = getattr(node, "_c18_orig", node)
            if not any(n is site for n, _ in self.sites):
                self.sites.append((site, dict(a=par["a"], v=par["v"], side=side, sorter=sorter, value=val)))
            return val
        # private helpers of the same module / nested functions: evaluate the body with the argument values
        if isinstance(f, ast.Name) and f.id not in self.env:
            callee = self._helper(f.id)
            if callee is not None:
                return self._inline(callee, node)
            imp = _imports(self.ctx, self.rel)[1].get(f.id)          # from package.module import helper
            if imp is not None:
                callee = self._foreign(imp[0], imp[1])
                if callee is not None:
                    return self._inline(callee, node, rel=imp[0])
        if isinstance(f, ast.Attribute) and isinstance(f.value, ast.Name) and f.value.id not in self.env:
            other = _imports(self.ctx, self.rel)[0].get(f.value.id)     # module.helper with `module` imported from the package
            if other is not None:
                callee = self._foreign(other, f.attr)
                if callee is not None:
                    return self._inline(callee, node, rel=other)
        # method call on a local object
        if on_value and meth not in IDENT_METHODS:
            pos, kw = self._args(node)
            base = self._need(f.value)
            if isinstance(base, tuple):
                return NotImplemented
            args = [wrap(base)] + [wrap(p) for p in pos] + [F.fn("kw:" + k, wrap(v)) for k, v in sorted(kw.items())]
            return F.fn("call:." + meth, *args)
        return NotImplemented

    def _need(self, node):
        v = self._ev(node)
        if is_unknown(v):
            raise Unsupported(v.why)
        return v

    def _helper(self, name):
        m = raw_module(self.ctx, self.rel)
        top = self.qual.split(".")[0]
        for q in (f"{self.qual}.{name}", f"{top}.{name}"):
            if q in m.funcs and q != name:
                return raw_func(self.ctx, self.rel, q)
        if name in m.funcs and not name.startswith("__") and not _is_public(m, name):
            return raw_func(self.ctx, self.rel, name)
        return None

    def _foreign(self, rel, name):
        """a helper (not an interface function) of another module of the package"""
        m = raw_module(self.ctx, rel)
        if name in m.funcs and not name.startswith("__") and not _is_public(m, name):
            return raw_func(self.ctx, rel, name)
        return None

    def _method(self, meth, obj, node):
        """evaluate the body of a method of a plain class with `self` standing for obj and the call's argument values; the evaluator is
        returned (its env holds the attributes stored as `self.<name>`)"""
        if self.depth >= MAX_DEPTH:
            raise Unsupported("helper nesting too deep")
        pos, kw = self._args(node)
        a = meth.args
        if a.vararg or a.kwarg or a.posonlyargs:
            raise Unsupported("method signature")
        names = [p.arg for p in a.args][1:]
        if len(pos) > len(names):
            raise Unsupported("method call arity")
        bound = dict(zip(names, pos))
        for k, v in kw.items():
            if k in bound or k not in names + [p.arg for p in a.kwonlyargs]:
                raise Unsupported("method keyword")
            bound[k] = v
        defaults = dict(zip(names[len(names) - len(a.defaults):], a.defaults)) if a.defaults else {}
        defaults.update({p.arg: dflt for p, dflt in zip(a.kwonlyargs, a.kw_defaults) if dflt is not None})
        for p in names + [p.arg for p in a.kwonlyargs]:
            if p not in bound:
                if p not in defaults:
                    raise Unsupported("method call misses an argument")
                bound[p] = self._need(defaults[p])
        env = {a.args[0].arg: obj}
        env.update({f"{a.args[0].arg}.{k}": v for k, v in obj.fields.items()})
        env.update(bound)
        sub = PathEval(meth, self.ctx, self.rel, self.decisions, self.trace, self.sites, self.depth + 1, env=env)
        sub.escaped, sub.hidden = self.escaped, self.hidden
        sub.run(meth.body)
        if a.args[0].arg != "self":
            sub.env.update({"self." + k[len(a.args[0].arg) + 1:]: v for k, v in list(sub.env.items())
                            if isinstance(k, str) and k.startswith(a.args[0].arg + ".")})
        return sub

    def _inline(self, callee, node, rel=None):
        if self.depth >= MAX_DEPTH:
            raise Unsupported("helper nesting too deep")
        if _opaque_decorators(callee):
            raise Unsupported(f"helper {callee.name} is decorated with {', '.join(_opaque_decorators(callee))}: its body is not what a call runs")
        pos, kw = self._args(node)
        a = callee.args
        if a.vararg or a.kwarg or a.posonlyargs:
            raise Unsupported("helper signature")
        names = [p.arg for p in a.args]
        if len(pos) > len(names):
            raise Unsupported("helper call arity")
        nested = "." in getattr(callee, "_vqual", callee.name)
        env = dict(self.env) if nested else {}
        bound = dict(zip(names, pos))
        for k, v in kw.items():
            if k in bound or k not in names + [p.arg for p in a.kwonlyargs]:
                raise Unsupported("helper keyword")
            bound[k] = v
        defaults = dict(zip(names[len(names) - len(a.defaults):], a.defaults))
        defaults.update({p.arg: dflt for p, dflt in zip(a.kwonlyargs, a.kw_defaults) if dflt is not None})
        for p in names + [p.arg for p in a.kwonlyargs]:
            if p not in bound:
                if p not in defaults:
                    raise Unsupported("helper call misses an argument")
                bound[p] = self._need(defaults[p])
        env.update(bound)
        sub = PathEval(callee, self.ctx, rel or self.rel, self.decisions, self.trace, self.sites, self.depth + 1, env=env)
        sub.escaped = self.escaped
        sub.hidden = self.hidden
        gen = _has_yield(callee)
        if gen:
            # a generator function: the call stands for the sequence of the values it yields, in the order it yields them
            sub.env["@yield"] = ()
            sub.run(_degen_body(callee))
        else:
            sub.run(callee.body)
        if sub.raised is not None:
            self.raised = sub.raised
            self.done = True
            return Unknown("the helper raised")
        if gen:
            return sub.env.get("@yield", Unknown("generator not lowered"))
        if sub.returns and sub.returns[-1][0] is not None:
            if isinstance(sub.returns[-1][0], Obj):
                self._objs[id(getattr(node, "_c18_orig", node))] = sub.returns[-1][0]
            return sub.returns[-1][0]
        return F.sym("None")


class Path:
    def __init__(self, ev, decisions, trace, sites):
        self.ev, self.decisions, self.trace, self.sites = ev, decisions, trace, sites
        self.raised = ev.raised
        self.ret = ev.returns[-1][0] if (ev.returns and ev.raised is None) else None
        self.ret_node = ev.returns[-1][1] if ev.returns else None
        self.returned = bool(ev.returns) and ev.raised is None
        self.hidden = list(ev.hidden)

    def decided(self, atom):
        """truth of a test value on this path: True / False / None (the path never tested it)"""
        canon, pol, truth = norm_atom(atom)
        if truth is not None:
            return truth
        if canon is None:
            return None
        d = self.decisions.get(vkey(canon))
        if d is None or not any(k == vkey(canon) for k, _, _, _ in self.trace):
            return None
        return d if pol else (not d)

    def atoms(self):
        """[(canonical test value, truth)] in evaluation order (a test written as source text only has value None)"""
        seen, out = set(), []
        for k, canon, d, node in self.trace:
            if k not in seen:
                seen.add(k)
                out.append((canon, d, node))
        return out

    def E(self, text):
        return self.ev.expr(text)

    def describe(self):
        out = []
        for canon, d, node in self.atoms():
            out.append(("" if d else "not ") + (repr(canon) if canon is not None else ast.unparse(node)))
        return " and ".join(out) or "always"


def explore(ctx, rel, qual, pinned=None):
    """`pinned`: {parameter: value} - evaluate the function for that value of a parameter (a flag pinned to F.const(1) / F.const(0) is True / False
    wherever it is tested, converted with bool() / int() or used in arithmetic)"""
    fn = raw_func(ctx, rel, qual)
    work = [dict()]
    out = []
    runs = 0
    while work:
        dec = work.pop()
        trace, sites = [], []
        ev = PathEval(fn, ctx, rel, dec, trace, sites, qual=qual)
        if pinned:
            ev.env.update(pinned)
        runs += 1
        if runs > 4 * MAX_PATHS:
            raise Unsupported(f"{qual}: too many regimes")
        try:
            ev.run(fn.body)
        except NeedDecision as e:
            work.append({**dec, e.key: False})
            work.append({**dec, e.key: True})
            continue
        out.append(Path(ev, dec, trace, sites))
        if ev.hidden:
            ctx.__dict__.setdefault("_c18_hidden", []).extend((qual, h) for h in ev.hidden)
        if len(out) > MAX_PATHS:
            raise Unsupported(f"{qual}: too many regimes")
    return fn, out
